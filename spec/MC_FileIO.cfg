CONSTANT Universe <- MCUniverse
CONSTANT Datas <- MCDatas
CONSTANT Prefixes <- MCPrefixes
CONSTANT Suffixes <- MCSuffixes
CONSTANT Slash = 0
INIT FInit
NEXT FNext
VIEW FView
CHECK_DEADLOCK FALSE
INVARIANT F_OSWellFormed
PROPERTY P_F1 P_F2a P_F2b P_F2c P_F2d P_F4 P_Dev
