CONSTANT SS = 4
CONSTANT MinLen = 1
CONSTANT MaxLen = 9
CONSTANT Alpha = {0, 1}
CONSTANT Fill = {1, 2}
CONSTANT MaxEdit = 6
INIT Init
NEXT Next
CHECK_DEADLOCK FALSE
ACTION_CONSTRAINT Emit
INVARIANT C16_Bounds C16_UntouchedStillOccur C16_MissedOnlyIfOverlapped
