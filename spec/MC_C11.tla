------------------------------- MODULE MC_C11 -------------------------------
(***************************************************************************)
(* Design-level model checking for C11 (never reads /repo): EVERY n x n    *)
(* matrix over tiny fields goes through the transcription of gopar's       *)
(* rowReduceForInverse (Matrix!RowReduce).  For every matrix:              *)
(*   error  <=>  singular (Det = 0  <=>  a non-zero kernel vector exists)  *)
(*   no error => result * M = I, M * result = I, the reduced M is I        *)
(*   [M | N] |-> M^-1 N   for a non-identity right-hand side N             *)
(* This covers every pivot position, every swap pattern and late           *)
(* singularity detection.  The operators are the ones the trace judge      *)
(* instantiates at GF(2^16).                                               *)
(***************************************************************************)
EXTENDS Integers, Sequences, FiniteSets, TLC

CONSTANT Cfgs      \* set of << field, n >> with field in {"f1","f2","f3","f4"} (GF(2), GF(4), GF(8), GF(16))

F1 == INSTANCE GF WITH W <- 1, Poly <- 3,  Gen <- 1, Reg <- 21
F2 == INSTANCE GF WITH W <- 2, Poly <- 7,  Gen <- 2, Reg <- 22
F3 == INSTANCE GF WITH W <- 3, Poly <- 11, Gen <- 2, Reg <- 23
F4 == INSTANCE GF WITH W <- 4, Poly <- 19, Gen <- 2, Reg <- 24
X1 == INSTANCE Matrix WITH MulOp <- F1!Mul, InvOp <- F1!Inv, AddOp <- F1!Add
X2 == INSTANCE Matrix WITH MulOp <- F2!Mul, InvOp <- F2!Inv, AddOp <- F2!Add
X3 == INSTANCE Matrix WITH MulOp <- F3!Mul, InvOp <- F3!Inv, AddOp <- F3!Add
X4 == INSTANCE Matrix WITH MulOp <- F4!Mul, InvOp <- F4!Inv, AddOp <- F4!Add

Wd(f) == CASE f = "f1" -> 1 [] f = "f2" -> 2 [] f = "f3" -> 3 [] f = "f4" -> 4
Elems(f) == 0 .. (2^Wd(f) - 1)

RowReduce(f, M, N) == CASE f = "f1" -> X1!RowReduce(M, N) [] f = "f2" -> X2!RowReduce(M, N)
                        [] f = "f3" -> X3!RowReduce(M, N) [] f = "f4" -> X4!RowReduce(M, N)
Times(f, A, B) == CASE f = "f1" -> X1!Times(A, B) [] f = "f2" -> X2!Times(A, B)
                    [] f = "f3" -> X3!Times(A, B) [] f = "f4" -> X4!Times(A, B)
Det(f, M) == CASE f = "f1" -> X1!Det(M) [] f = "f2" -> X2!Det(M) [] f = "f3" -> X3!Det(M) [] f = "f4" -> X4!Det(M)
IsKernel(f, M, v) == CASE f = "f1" -> X1!IsKernelVector(M, v) [] f = "f2" -> X2!IsKernelVector(M, v)
                       [] f = "f3" -> X3!IsKernelVector(M, v) [] f = "f4" -> X4!IsKernelVector(M, v)
Id(n) == X1!Identity(n)

CfgsQuick == {<<"f1", 1>>, <<"f1", 2>>, <<"f1", 3>>, <<"f1", 4>>, <<"f2", 1>>, <<"f2", 2>>, <<"f3", 2>>, <<"f4", 1>>}
CfgsMid == {<<"f1", 4>>}
CfgsThorough == CfgsQuick \cup {<<"f4", 2>>, <<"f2", 3>>}

VARIABLES field, n, m      \* m: the rows chosen so far
vars == << field, n, m >>

Init == field = "root" /\ n = 0 /\ m = << >>
Next == \/ /\ field = "root"
           /\ \E c \in Cfgs : field' = c[1] /\ n' = c[2]
           /\ m' \in [1 .. 1 -> [1 .. n' -> Elems(field')]]          \* first row
        \/ /\ field # "root" /\ Len(m) = 1 /\ n > 1
           /\ \E rest \in [1 .. (n - 1) -> [1 .. n -> Elems(field)]] : m' = m \o rest
           /\ UNCHANGED << field, n >>

IsCase == field # "root" /\ Len(m) = n

\* a right-hand side that is not the identity: n x 2
Rhs == [i \in 1 .. n |-> << (i % (2^Wd(field) - 1)) + 1, IF i = 1 THEN 1 ELSE 0 >>]

C11_All ==
  IsCase =>
    LET rr   == RowReduce(field, m, Id(n))
        sing == Det(field, m) = 0
        \* the kernel is searched only where it is small (<= 64 vectors)
        kern == IF (2^Wd(field))^n <= 64 THEN \E v \in [1 .. n -> Elems(field)] : IsKernel(field, m, v) ELSE sing
        r2   == RowReduce(field, m, Rhs)
    IN /\ rr.err <=> sing
       /\ sing <=> kern
       /\ ~rr.err => /\ Times(field, rr.n, m) = Id(n)
                     /\ Times(field, m, rr.n) = Id(n)
                     /\ rr.m = Id(n)
       /\ r2.err <=> sing
       /\ ~r2.err => Times(field, m, r2.n) = Rhs
=============================================================================
