CONSTANT MaxVersion = 4
CONSTANT R = 3
INIT EInit
NEXT ENext
VIEW EView
CHECK_DEADLOCK FALSE
PROPERTY P_EO1 P_EO2 P_EO3 P_EO4 P_EO5
