CONSTANT Sets = {1, 2, 4, 5}
CONSTANT Gs = {1, 2, 3, 4, 16}
CONSTANT Reps = 2
INIT Init
NEXT Next
CHECK_DEADLOCK FALSE
ACTION_CONSTRAINT Emit
INVARIANT C17_KeyIgnoresIrrelevant
