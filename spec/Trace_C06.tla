----------------------------- MODULE Trace_C06 -----------------------------
(***************************************************************************)
(* Trace judge for C06.                                                    *)
(*  refset : the record view of a set written by the reference writer --   *)
(*           judged by Par2Format!RefVerdicts before it counts (OBS.ref.*  *)
(*           verdicts make the run inconclusive: the writer is checked,    *)
(*           not trusted).                                                 *)
(*  layout : real par2.Verify / par2.Repair on one TLC-generated layout    *)
(*           with a fixed damage; canon is what the same calls return for  *)
(*           gopar's own canonical output of the same data and damage.     *)
(***************************************************************************)
EXTENDS Integers, Sequences, FiniteSets, TLC, Json

ASSUME TLCSet(1, ndJsonDeserialize("trace.ndjson"))
Trace == TLCGet(1)
INSTANCE Par2Format
ASSUME GF16!InitTablesp(0) /\ GF16!TablesOKp(0)
ASSUME PC!InitConstTab(0)
VARIABLE l

LayoutVerdicts(e) ==
  (IF e.verify.err = e.canon.verify.err /\ e.verify.usable = e.canon.verify.usable /\ e.verify.unusable = e.canon.verify.unusable
      /\ e.verify.needed = e.canon.verify.needed
   THEN {} ELSE {"C06.verify_as_for_canonical_output"})
  \cup (IF e.verify.err = "" => e.verify.pusable = e.nexps THEN {} ELSE {"C06.every_recovery_block_found"})
  \cup (IF e.repair.err = e.canon.repair.err /\ e.restored = e.canon.restored THEN {} ELSE {"C06.repair_as_for_canonical_output"})
  \cup (IF e.verify.err # "panic" /\ e.repair.err # "panic" THEN {} ELSE {"C13.no_panic"})
  \cup (IF e.outside = << >> THEN {} ELSE {"C02.nothing_else_changed"})

Verdicts(e) == CASE e.ev = "refset" -> RefVerdicts(e)
                 [] e.ev = "layout" -> LayoutVerdicts(e)
                 [] OTHER -> {"C06.unknown_event"}
Init == l = 1
Next == /\ l <= Len(Trace)
        /\ \A c \in Verdicts(Trace[l]) : PrintT("VERDICT " \o ToJson([i |-> l, clause |-> c]))
        /\ l' = l + 1
AllJudged == /\ PrintT("JUDGED " \o ToJson([n |-> TLCGet("stats").diameter - 1]))
             /\ TLCGet("stats").diameter - 1 = Len(Trace)
=============================================================================
