----------------------------- MODULE PathSafety -----------------------------
(***************************************************************************)
(* Declared file names and where they point.                               *)
(*                                                                         *)
(* A name is << lead, comps, trail >>: an optional leading "/", a sequence *)
(* of components, an optional trailing "/".  Components are symbols:       *)
(*   "x" "y"      ordinary                                                 *)
(*   ".."  "."  ""  parent, self, empty (doubled separator)                *)
(*   "..x" ".x" "..."  ordinary components that merely start with a dot    *)
(*   "x.."       ordinary component ending in dots                         *)
(*   "x\..\..\e" ONE ordinary component containing backslashes (on this     *)
(*               platform the backslash is not a separator)                *)
(* TRUTH LAYER: lexical resolution (Clean) and Contained.                  *)
(* ALGORITHM LAYER: the two acceptance rules of gopar.                     *)
(*   PAR2 (file description packets, and Create's relative paths): not     *)
(*        absolute, and the cleaned name does not start with "."           *)
(*   PAR1: the name equals its own base name (no separators)               *)
(***************************************************************************)
EXTENDS Integers, Sequences, FiniteSets

Special == {"..", ".", ""}
DotStart == {"..", ".", "..x", ".x", "..."}

\* lexical cleaning of the component sequence: the resulting stack (may start with ".."s)
RECURSIVE CleanR(_, _, _)
CleanR(comps, lead, stack) ==
  IF comps = << >> THEN stack
  ELSE LET c == Head(comps) IN
       IF c \in {"", "."} THEN CleanR(Tail(comps), lead, stack)
       ELSE IF c = ".." THEN
              IF stack # << >> /\ stack[Len(stack)] # ".." THEN CleanR(Tail(comps), lead, SubSeq(stack, 1, Len(stack) - 1))
              ELSE IF lead THEN CleanR(Tail(comps), lead, stack)
              ELSE CleanR(Tail(comps), lead, Append(stack, ".."))
       ELSE CleanR(Tail(comps), lead, Append(stack, c))
Clean(n) == CleanR(n[2], n[1], << >>)

\* the name resolves, lexically, to a path strictly inside the directory it is joined to
Contained(n) == /\ ~n[1]
                /\ Clean(n) # << >>
                /\ Clean(n)[1] # ".."
\* the name resolves to the directory itself or an ancestor: an existing directory, not a file
ResolvesToDirectory(n) == ~n[1] /\ (Clean(n) = << >> \/ \A i \in 1 .. Len(Clean(n)) : Clean(n)[i] = "..")

\* first character of the cleaned string is "." (the cleaned string of an empty stack is ".")
CleanStartsWithDot(n) == Clean(n) = << >> \/ Clean(n)[1] \in DotStart

AcceptPar2(n) == ~n[1] /\ ~CleanStartsWithDot(n)
\* PAR1: Base(name) = name: a single component, no separators at all, not empty
AcceptPar1(n) == ~n[1] /\ ~n[3] /\ Len(n[2]) = 1 /\ n[2][1] # ""

=============================================================================
