------------------------------- MODULE MC_C13 -------------------------------
(***************************************************************************)
(* Design-level model for C13: structural corruption of a valid PAR2 set   *)
(* and the prefixes an interrupted Create leaves behind.                   *)
(*                                                                         *)
(* The set: an index file and two volume files, each a sequence of packet  *)
(* tokens (Par2Reader).  A DESCRIPTOR says what happened to one file:      *)
(*   flip   : one bit of packet k in region magic / length-low /           *)
(*            length-high / hash / setid / type / body                     *)
(*   trunc  : the file is cut at the boundary before packet k, inside the  *)
(*            header of packet k, or inside its body                       *)
(*   empty, garbage, delete                                                *)
(*   prefix : Create was interrupted: files written in order index, vol1,  *)
(*            vol2; the first m are complete, the next one is torn at the  *)
(*            boundary before its packet b, the rest do not exist          *)
(* Truth: a packet is intact iff magic, length and digest hold; a flip     *)
(* anywhere in a packet breaks it; a cut inside a packet removes it and    *)
(* leaves a damaged tail.  The reader model (gopar aborts a file on its    *)
(* first malformed packet) yields an error or a result; TLC checks that    *)
(* every result is truthful: the blocks it reports are intact blocks       *)
(* stored beside the index, and a result is only produced from an index    *)
(* whose every packet is intact.  Whether the real code errors or skips    *)
(* is left open; the descriptors are emitted for the real Verify/Repair.   *)
(***************************************************************************)
EXTENDS Integers, Sequences, FiniteSets, TLC, Json
INSTANCE Par2Reader

Own(t, k) == [set |-> "own", type |-> t, k |-> k, bad |-> FALSE]
IndexPkts == << Own("creator", 0), Own("main", 0), Own("fd", 1), Own("ifsc", 1), Own("fd", 2), Own("ifsc", 2), Own("fd", 3), Own("ifsc", 3) >>
Vol1 == IndexPkts \o << Own("recv", 0) >>
Vol2 == IndexPkts \o << Own("recv", 1), Own("recv", 2) >>
Files == [index |-> IndexPkts, vol1 |-> Vol1, vol2 |-> Vol2]
FileNames == {"index", "vol1", "vol2"}
Regions == {"magic", "lenlo", "lenhi", "hash", "setid", "type", "body"}
Bits == {"lo", "mid", "hi"}
Cuts == {"boundary", "header8", "header16", "header40", "header63", "body1", "bodymid", "bodylast"}

\* state of the protected files: intact, one deleted, one emptied, all deleted (no usable slice at all)
DataStates == {"none", "one", "empty", "allgone", "zerotail"}   \* zerotail: a data file lost some of the zero bytes its last slice ends in

VARIABLE d
Init == d = [kind |-> "root"]
Next ==
  /\ d.kind = "root"
  /\ \/ \E f \in FileNames : \E k \in 1 .. Len(Files[f]) : \E r \in Regions, b \in Bits, dd \in DataStates :
          d' = [kind |-> "flip", file |-> f, pkt |-> k, region |-> r, bit |-> b, data |-> dd]
     \/ \E f \in FileNames : \E k \in 1 .. Len(Files[f]) : \E c \in Cuts, dd \in DataStates :
          d' = [kind |-> "trunc", file |-> f, pkt |-> k, cut |-> c, data |-> dd]
     \/ \E f \in FileNames, w \in {"empty", "garbage", "delete"}, dd \in DataStates :
          d' = [kind |-> w, file |-> f, pkt |-> 0, data |-> dd]
     \/ \E m \in 0 .. 2 : \E b \in 1 .. 11 : \E dd \in DataStates :
          /\ b <= Len(Files[<< "index", "vol1", "vol2" >>[m + 1]]) + 1
          /\ d' = [kind |-> "prefix", file |-> << "index", "vol1", "vol2" >>[m + 1], pkt |-> b, complete |-> m, data |-> dd]
     \/ \E s \in SUBSET FileNames, dd \in DataStates : s # {} /\ d' = [kind |-> "deleteset", files |-> s, pkt |-> 0, data |-> dd, file |-> "many"]

\* the tokens of file f after the descriptor has been applied; a damaged tail is one bad token
BadTok == [set |-> "own", type |-> "unknown", k |-> 0, bad |-> TRUE]
After(f) ==
  LET p == Files[f] IN
  IF d.kind = "deleteset" THEN (IF f \in d.files THEN << >> ELSE p)
  ELSE IF d.kind = "prefix" THEN
         LET order == << "index", "vol1", "vol2" >>
             pos == CHOOSE i \in 1 .. 3 : order[i] = f
         IN IF pos <= d.complete THEN p
            ELSE IF pos = d.complete + 1 THEN SubSeq(p, 1, d.pkt - 1)
            ELSE << >>
  ELSE IF d.file # f THEN p
  ELSE CASE d.kind = "flip" -> [i \in 1 .. Len(p) |-> IF i = d.pkt THEN [p[i] EXCEPT !.bad = TRUE] ELSE p[i]]
         [] d.kind = "trunc" -> IF d.cut = "boundary" THEN SubSeq(p, 1, d.pkt - 1) ELSE SubSeq(p, 1, d.pkt - 1) \o << BadTok >>
         [] d.kind = "empty" -> << >>
         [] d.kind = "garbage" -> << BadTok >>
         [] d.kind = "delete" -> << >>
Exists(f) == ~(d.kind = "delete" /\ d.file = f) /\ ~(d.kind = "deleteset" /\ f \in d.files)
             /\ ~(d.kind = "prefix" /\ After(f) = << >> /\ f # << "index", "vol1", "vol2" >>[d.complete + 1])

\* reader under corruption: a file with a malformed packet fails as a whole
ReadC(pkts, expected) == IF \E i \in 1 .. Len(pkts) : pkts[i].bad THEN [err |-> "malformed"] ELSE ReadFile(pkts, expected)
Outcome ==
  IF ~Exists("index") THEN [err |-> "noindex", exps |-> {}]
  ELSE LET idx == ReadC(After("index"), "none") IN
       IF idx.err # "" THEN [err |-> idx.err, exps |-> {}]
       ELSE IF ~idx.main \/ ~((1 .. 3) \subseteq idx.fds) \/ ~((1 .. 3) \subseteq idx.ifscs) THEN [err |-> "incomplete", exps |-> {}]
       ELSE LET vols == {f \in {"vol1", "vol2"} : Exists(f)}
                reads == [f \in vols |-> ReadC(After(f), "own")]
            IN IF \E f \in vols : reads[f].err \notin {"", "nopackets"} THEN [err |-> "volume", exps |-> {}]
               ELSE [err |-> "", exps |-> UNION {reads[f].recvs : f \in {g \in vols : reads[g].err = ""}}]

\* TRUTH: the intact recovery blocks stored beside the index
IntactBlocks == UNION {{After(f)[i].k : i \in {j \in 1 .. Len(After(f)) : ~After(f)[j].bad /\ After(f)[j].type = "recv"}} :
                       f \in {g \in {"vol1", "vol2"} : Exists(g)}}
IsCase == d.kind # "root"
C13_ResultsAreTruthful == IsCase => (Outcome.err = "" => Outcome.exps \subseteq IntactBlocks)
C13_ResultNeedsIntactIndex == IsCase => (Outcome.err = "" => (Exists("index") /\ \A i \in 1 .. Len(After("index")) : ~After("index")[i].bad))

Emit == IF d'.kind # "root" THEN PrintT("DESC " \o ToJson(d')) ELSE TRUE
=============================================================================
