CONSTANT Inst = "i1"
CONSTANT Positions = "obj"
SPECIFICATION LSpecNoFair
CHECK_DEADLOCK FALSE
PROPERTY Converges
