INIT Init
NEXT Next
CHECK_DEADLOCK FALSE
ACTION_CONSTRAINT Emit
INVARIANT C20_NonEmpty C20_ZeroOnlyOnSuccess C20_UsageIsThree
