CONSTANT NBytes = 20
CONSTANT G = 2
CONSTANT Rows = 2
CONSTANT Ins = 3
SPECIFICATION FairSpec
CHECK_DEADLOCK FALSE
INVARIANT Static RaceFree Result OverwriteFirst
PROPERTY NoLostWorker
ACTION_CONSTRAINT Emit
