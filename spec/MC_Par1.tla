------------------------------ MODULE MC_Par1 ------------------------------
(***************************************************************************)
(* Bounded instances of Par1Archive; emits every Verify/Repair transition. *)
(***************************************************************************)
EXTENDS Par1Instances

VARIABLES disk, vols, last, act
INSTANCE Par1Archive

ASSUME GF8!InitTablesp(0)
ASSUME GF8!TablesOKp(0)
ASSUME GF8!FastMulOKOnBasisp(0)
ASSUME PrintT("INSTANCE " \o ToJson([inst |-> Inst, names |-> Names, prot |-> Prot, nvols |-> NVols]))

Emit ==
  IF act' \in {"verify", "repair", "repairdc"}
  THEN PrintT("EDGE " \o ToJson([op |-> act', pre |-> disk, prevols |-> SortedSeq(vols), post |-> disk', model |-> last']))
  ELSE TRUE

P_C04a == [][C04_CountsAreTruth]_vars
P_C04b == [][C04_UntouchedIsClean]_vars
P_C04c == [][C04_WithinCapacity]_vars
P_C04d == [][C04_OkMeansRestored]_vars
P_C02a == [][C02_WriteDiscipline]_vars
P_C02b == [][C02_VolumesUntouched]_vars
P_C14a == [][C14_SuccessIsFixpoint]_vars
P_C14b == [][C14_FailureKeepsOrRestores]_vars
P_C14c == [][C14_VerifyPure]_vars
=============================================================================
