------------------------------ MODULE MC_Par1 ------------------------------
(***************************************************************************)
(* Bounded instances of Par1Archive; emits every Verify/Repair transition. *)
(***************************************************************************)
EXTENDS Integers, Sequences, FiniteSets, TLC, Json

CONSTANTS Inst, Positions

Instances ==
  [ j1 |-> [names |-> << "a", "b" >>, nvols |-> 2,
            prot |-> [a |-> << 1, 2, 0, 1, 2 >>, b |-> << 2, 1, 1 >>]],
    j2 |-> [names |-> << "a", "b", "c" >>, nvols |-> 3,
            prot |-> [a |-> << 1, 2, 2, 1, 0, 0 >>, b |-> << >>, c |-> << 2 >>]],
    j3 |-> [names |-> << "a", "b", "c", "d" >>, nvols |-> 2,
            prot |-> [a |-> << 0, 0 >>, b |-> << 1, 0, 2 >>, c |-> << 1, 0, 2 >>, d |-> << 2, 2, 2, 2, 1 >>]] ]

I == Instances[Inst]
Names == I.names
Prot == I.prot
NVols == I.nvols
AbsentV == << -1 >>
NameSetX == {Names[i] : i \in 1 .. Len(Names)}

Flip(d, i) == [d EXCEPT ![i] = (d[i] + 1) % 3]
PosOf(d) == IF Len(d) = 0 THEN {} ELSE IF Positions = "all" THEN 1 .. Len(d) ELSE {1, Len(d)}
MenuOf(f) ==
  LET d == Prot[f] IN
     {AbsentV, d}
       \cup {Flip(d, i) : i \in PosOf(d)}
       \cup {SubSeq(d, 1, Len(d) - 1) : x \in (IF Len(d) > 0 THEN {0} ELSE {})}
       \cup {d \o << 0 >>, d \o << 1 >>, << >>}
       \cup {Prot[g] : g \in NameSetX \ {f}}
Menu == [f \in NameSetX |-> MenuOf(f)]

VARIABLES disk, vols, last, act
INSTANCE Par1Archive

ASSUME GF8!InitTablesp(0)
ASSUME GF8!TablesOKp(0)
ASSUME GF8!FastMulOKOnBasisp(0)
ASSUME PrintT("INSTANCE " \o ToJson([inst |-> Inst, names |-> Names, prot |-> Prot, nvols |-> NVols]))

Emit ==
  IF act' \in {"verify", "repair", "repairdc"}
  THEN PrintT("EDGE " \o ToJson([op |-> act', pre |-> disk, prevols |-> SortedSeq(vols), post |-> disk', model |-> last']))
  ELSE TRUE

P_C04a == [][C04_CountsAreTruth]_vars
P_C04b == [][C04_UntouchedIsClean]_vars
P_C04c == [][C04_WithinCapacity]_vars
P_C04d == [][C04_OkMeansRestored]_vars
P_C02a == [][C02_WriteDiscipline]_vars
P_C02b == [][C02_VolumesUntouched]_vars
P_C14a == [][C14_SuccessIsFixpoint]_vars
P_C14b == [][C14_FailureKeepsOrRestores]_vars
P_C14c == [][C14_VerifyPure]_vars
=============================================================================
