CONSTANT NBytes = 64
CONSTANT G = 4
CONSTANT Rows = 3
CONSTANT Ins = 3
SPECIFICATION FairSpec
CHECK_DEADLOCK FALSE
INVARIANT Static RaceFree Result OverwriteFirst
PROPERTY NoLostWorker
ACTION_CONSTRAINT Emit
