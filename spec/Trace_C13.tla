----------------------------- MODULE Trace_C13 -----------------------------
(***************************************************************************)
(* Trace judge for C13 (and the crash / truthfulness part of C19): the     *)
(* real Verify and Repair on a corrupted, truncated, emptied, deleted or   *)
(* half-written set, executed in batch worker processes so that a panic, a *)
(* fatal error, a kill by the memory limit or a hang is an OBSERVATION.    *)
(* Ground truth is supplied by the independent observers: the recovery     *)
(* blocks that are really intact (robust scan for the magic, length and    *)
(* digest), the data slices that really occur, the PAR1 volumes whose      *)
(* control hash holds.  Either outcome -- error or result -- is accepted;  *)
(* a result must be truthful and Repair may write only exact originals.    *)
(***************************************************************************)
EXTENDS Integers, Sequences, FiniteSets, TLC, Json
ASSUME TLCSet(1, ndJsonDeserialize("trace.ndjson"))
Trace == TLCGet(1)
VARIABLE l

Verdicts(e) ==
  (IF ~e.fatal /\ e.verify.err # "panic" /\ e.repair.err # "panic" THEN {} ELSE {"C13.terminates_normally"})
  \cup (IF (e.fmt = "par2" /\ e.verify.err = "") =>
              (e.verify.pusable <= Len(e.intact_exps) /\ e.verify.usable <= e.nocc /\ e.verify.usable + e.verify.unusable = e.n)
        THEN {} ELSE {"C13.verify_result_truthful"})
  \cup (IF (e.fmt = "par1" /\ e.verify.err = "") =>
              (e.verify.pusable <= e.intact_vols /\ e.verify.usable <= e.intact_data)
        THEN {} ELSE {"C13.verify_result_truthful"})
  \* a result that omits intact recovery blocks misleads as well (it can say "repair not possible" when it is):
  \* when Verify returns a result, its usable recovery-block count is the number of distinct intact blocks beside the index
  \cup (IF (e.fmt = "par2" /\ e.verify.err = "" /\ e.index_intact) => e.verify.pusable = Len(e.intact_exps)
        THEN {} ELSE {"C13.verify_counts_every_intact_block"})
  \cup (IF e.changed_ok THEN {} ELSE {"C13.repair_writes_only_originals"})
  \cup (IF e.outside = << >> THEN {} ELSE {"C13.nothing_else_modified"})
  \cup (IF (~e.fatal /\ e.repair.err = "") => e.restored THEN {} ELSE {"C13.repair_success_means_restored"})
  \* a clean verdict is truthful: Verify says "no repair needed" only when every data file is its original
  \cup (IF (e.fmt = "par1" /\ e.verify.err = "" /\ ~e.verify.needed) => e.intact_data = e.n THEN {} ELSE {"C13.verify_result_truthful"})

Init == l = 1
Next == /\ l <= Len(Trace)
        /\ \A v \in Verdicts(Trace[l]) : PrintT("VERDICT " \o ToJson([i |-> l, clause |-> v]))
        /\ l' = l + 1
AllJudged == /\ PrintT("JUDGED " \o ToJson([n |-> TLCGet("stats").diameter - 1]))
             /\ TLCGet("stats").diameter - 1 = Len(Trace)
=============================================================================
