-------------------------- MODULE Trace_ArchiveBig --------------------------
(***************************************************************************)
(* Trace judge for executions of the real par2.Verify / par2.Repair on     *)
(* large seeded sets.  The ground truth (how many protected slices survive *)
(* / occur anywhere, which are certainly missing, whether the files equal  *)
(* their originals before and after) is supplied by the harness's          *)
(* independent observer -- the same observer that TLC checks against its   *)
(* own Par2Scan computation on every small-scope event (clause             *)
(* OBS.observer_agrees of Trace_Archive).  The clauses are the truth layer *)
(* of Par2Archive, stated over those facts.                                *)
(***************************************************************************)
EXTENDS Integers, Sequences, FiniteSets, TLC, Json

ASSUME TLCSet(1, ndJsonDeserialize("trace.ndjson"))
Trace == TLCGet(1)

PC == INSTANCE Par2Const
GF16 == INSTANCE GF WITH W <- 16, Poly <- 69643, Gen <- 2, Reg <- 10
M16 == INSTANCE Matrix WITH MulOp <- GF16!FastMul, InvOp <- GF16!FastInv, AddOp <- GF16!Add

NeedField == \E i \in 1 .. Len(Trace) : Trace[i].res.err = "singular"
ASSUME NeedField => (GF16!InitTablesp(0) /\ GF16!TablesOKp(0))

VARIABLE l

ToSet(s) == {s[i] : i \in 1 .. Len(s)}
IsRepair(e) == e.op \in {"repair", "repairdc"}
IsVerify(e) == e.op = "verify"

\* exps and missing_sure are logged ascending
ReconMatrix(exps, missingIdx) ==
  [r \in 1 .. Len(exps) |-> [c \in 1 .. Len(missingIdx) |-> PC!Entry(exps[r], missingIdx[c])]]
\* "singular" is justified only when the set of missing slices is unambiguous and small
SingularJustified(e) ==
  /\ e.ambiguous = 0
  /\ e.nmissing_sure = Len(e.missing_sure)
  /\ Len(e.missing_sure) > 0 /\ Len(e.missing_sure) <= Len(e.exps)
  /\ M16!Singular(ReconMatrix(SubSeq(e.exps, 1, Len(e.missing_sure)), e.missing_sure))
SingularUndecidable(e) == e.res.err = "singular" /\ (e.ambiguous # 0 \/ e.nmissing_sure # Len(e.missing_sure))

WithinCapacity(e) ==
  (e.n - e.nsurv <= Len(e.exps)) =>
     \/ (e.res.err = "" /\ e.restored)
     \/ (e.res.err = "singular" /\ (SingularUndecidable(e) \/ SingularJustified(e)))

Clauses(e) ==
  << << "C01.within_capacity", (IsRepair(e) /\ ~e.stale) => WithinCapacity(e) >>,   \* stale: the blocks present are intact but belong to other data
     << "C01.ok_implies_restored", IsRepair(e) => (e.res.err = "" => e.restored) >>,
     << "C02.write_discipline", e.changed_ok /\ (e.writes # << >> => IsRepair(e)) >>,
     << "C02.listed_means_written", IsRepair(e) => e.listed_ok >>,
     << "C02.nothing_else_changed", e.outside = << >> >>,
     << "C02.create_touches_only_archive",
        (e.op = "create" /\ e.res.err = "") => (e.created_unexpected = << >> /\ e.changed_by_create = << >> /\ e.created # << >>) >>,
     \* the premise of the round trip: Create accepts every legitimate set (the drivers generate no other)
     << "C01.create_accepts_legitimate_set", e.op = "create" => e.res.err = "" >>,
     \* the premise of C01: the recovery blocks Create was asked for are stored where Verify / Repair look for them
     << "C01.create_stores_requested_blocks", (e.op = "create" /\ e.res.err = "") => e.blocks_beside_index = e.r_requested >>,
     << "C02.verify_modifies_nothing", IsVerify(e) => (e.writes = << >> /\ e.outside = << >>) >>,
     << "C03.verify_returns_result", IsVerify(e) => e.res.err = "" >>,
     << "C03.usable_sound", (IsVerify(e) /\ e.res.err = "") => e.res.usable <= e.nocc >>,
     << "C03.usable_complete", (IsVerify(e) /\ e.res.err = "") => e.nsurv <= e.res.usable >>,
     << "C03.counts_total", (IsVerify(e) /\ e.res.err = "") => e.res.usable + e.res.unusable = e.n >>,
     << "C03.recovery_count", (IsVerify(e) /\ e.res.err = "") => e.res.pusable = Cardinality(ToSet(e.exps)) >>,
     << "C03.clean_implies_intact.all_slices_findable",
        ~(IsVerify(e) /\ e.res.err = "" /\ ~e.res.needed /\ ~e.intact /\ e.nocc = e.n) >>,
     << "C03.clean_implies_intact.slices_absent",
        ~(IsVerify(e) /\ e.res.err = "" /\ ~e.res.needed /\ ~e.intact /\ e.nocc # e.n) >>,
     << "C03.needed_if_unusable", (IsVerify(e) /\ e.res.err = "") => (e.res.unusable > 0 => e.res.needed) >>,
     << "C03.possible_iff_capacity", (IsVerify(e) /\ e.res.err = "") => (e.res.possible <=> (e.res.unusable <= e.res.pusable)) >>,
     << "C14.success_is_fixpoint",
        (IsRepair(e) /\ e.res.err = "") =>
           /\ e.after.verify.err = "" /\ ~e.after.verify.needed /\ e.after.verify.unusable = 0
           /\ e.after.repair.err = "" /\ e.after.repair.repaired = << >> /\ e.after.repair.writes = << >>
           /\ e.after.repair.outside = << >> >>,
     << "C14.success_converges_to_original", (IsRepair(e) /\ e.res.err = "") => e.restored >>,
     << "C14.failure_keeps_or_restores", (IsRepair(e) /\ e.res.err # "") => e.kept_or_restored >>,
     << "C14.verify_pure", IsVerify(e) => (e.writes = << >> /\ e.outside = << >>) >>,
     << "C16.survivors_counted", (IsVerify(e) /\ e.res.err = "") => e.nsurv <= e.res.usable >>,
     << "C16.repair_uses_survivors", (IsRepair(e) /\ ~e.stale) => WithinCapacity(e) >>,
     << "INC.singular_undecidable", ~(IsRepair(e) /\ SingularUndecidable(e) /\ e.n - e.nsurv <= Len(e.exps)) >> >>

Failed(e) == LET c == Clauses(e) IN {c[i][1] : i \in {j \in 1 .. Len(c) : ~c[j][2]}}

Init == l = 1
Next == /\ l <= Len(Trace)
        /\ \A c \in Failed(Trace[l]) : PrintT("VERDICT " \o ToJson([i |-> l, clause |-> c]))
        /\ l' = l + 1

AllJudged == /\ PrintT("JUDGED " \o ToJson([n |-> TLCGet("stats").diameter - 1]))
             /\ TLCGet("stats").diameter - 1 = Len(Trace)
=============================================================================
