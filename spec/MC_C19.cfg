INIT Init
NEXT Next
CHECK_DEADLOCK FALSE
ACTION_CONSTRAINT Emit
INVARIANT C19_ClassificationTotal C19_ValidMeansNoFieldChange
