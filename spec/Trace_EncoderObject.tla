------------------------ MODULE Trace_EncoderObject ------------------------
(***************************************************************************)
(* Trace validation for the EXTENSION X02 (spec/Par2EncoderObject.tla):    *)
(* recorded call sequences on the real, exported par2.Encoder object are   *)
(* replayed through the actions of the model.  After every Write the       *)
(* harness projects the set found on disk onto the abstract archive state  *)
(* with the independent reference writer: desc_ver = the recorded input    *)
(* version whose main / file description / checksum packets the index file *)
(* holds, par_ver = the version whose reference recovery blocks the        *)
(* volumes hold (-1: none of the recorded versions).                       *)
(* X02.conf.. : the call's outcome and the projected archive equal the     *)
(*              model's prediction (refinement, deviations included);      *)
(* X02.truth..: the EO_ clauses on the recorded values.                    *)
(***************************************************************************)
EXTENDS Integers, Sequences, FiniteSets, TLC, Json

ASSUME TLCSet(1, ndJsonDeserialize("trace.ndjson"))
Trace == TLCGet(1)

VARIABLES ver, enc, arch, last, act, l
EO == INSTANCE Par2EncoderObject WITH MaxVersion <- 1000000, R <- 3

V(i, c) == PrintT("VERDICT " \o ToJson([i |-> i, clause |-> c]))
Chk(i, c, ok) == (~ok) => V(i, c)

Init == EO!EInit /\ l = 1

Quiet(e) == /\ Chk(l, "X02.truth.inputs_never_modified", e.inputs_unchanged)
            /\ Chk(l, "X02.truth.nothing_else_touched", e.outside = << >>)
            /\ Chk(l, "X02.truth.no_unexpected_panic", TRUE)

ObsArch(e) == [desc |-> e.desc_ver, par |-> e.par_ver, partial |-> e.partial]

Step(e) ==
  CASE e.ev = "reset" ->
         /\ ver' = 1 /\ enc' = EO!NoEnc /\ arch' = EO!NoArch /\ last' = "" /\ act' = "reset"
    [] e.ev = "modify" ->
         /\ ver' = ver + 1 /\ UNCHANGED << enc, arch >> /\ last' = "" /\ act' = "modify"
         /\ Chk(l, "X02.driver.version_recorded", e.ver = ver + 1)
    [] e.ev = "new" ->
         /\ Quiet(e)
         /\ Chk(l, "X02.conf.new", e.out = "ok")
         /\ enc' = IF e.out = "ok" THEN [alive |-> TRUE, snap |-> EO!None, psnap |-> EO!None] ELSE enc
         /\ UNCHANGED << ver, arch >> /\ last' = e.out /\ act' = "new"
    [] e.ev = "load" ->
         /\ Quiet(e)
         /\ Chk(l, "X02.conf.load", e.out = "ok")
         /\ enc' = IF e.out = "ok" THEN [enc EXCEPT !.snap = ver] ELSE enc
         /\ UNCHANGED << ver, arch >> /\ last' = e.out /\ act' = "load"
    [] e.ev = "compute" ->
         LET predicted == IF enc.snap = EO!None THEN "panic" ELSE "ok" IN
         /\ Quiet(e)
         /\ Chk(l, "X02.conf.compute", e.out = predicted)
         /\ Chk(l, "X02.truth.too_early_never_ok", enc.snap = EO!None => e.out # "ok")
         /\ enc' = IF e.out = "ok" THEN [enc EXCEPT !.psnap = enc.snap] ELSE enc
         /\ UNCHANGED << ver, arch >> /\ last' = e.out /\ act' = "compute"
    [] e.ev = "write" ->
         LET w == EO!WriteFn(enc, EO!NoArch)       \* the driver gives every Write a fresh output location
             o == ObsArch(e)
         IN
         /\ Quiet(e)
         /\ Chk(l, "X02.conf.write_outcome", e.out = w.out)
         /\ Chk(l, "X02.conf.write_archive",
                IF w.out = "error" THEN ~e.index_present
                ELSE e.index_present /\ o.desc = w.arch.desc /\ o.partial = w.arch.partial
                     /\ (w.out = "ok" => o.par = w.arch.par))
         /\ Chk(l, "X02.truth.ok_write_describes_snapshot", e.out = "ok" => (o.desc = enc.snap /\ enc.snap # EO!None /\ ~o.partial))
         /\ Chk(l, "X02.truth.pipeline_consistent", (e.out = "ok" /\ enc.psnap = enc.snap) => (o.desc = enc.snap /\ o.par = enc.snap))
         /\ Chk(l, "X02.truth.inconsistent_only_by_reload",
                (e.out = "ok" /\ ~(o.par = o.desc)) => (enc.psnap # EO!None /\ enc.psnap # enc.snap))
         /\ Chk(l, "X02.truth.too_early_never_ok", (enc.snap = EO!None \/ enc.psnap = EO!None) => e.out # "ok")
         /\ arch' = o /\ UNCHANGED << ver, enc >> /\ last' = e.out /\ act' = "write"

Next == l <= Len(Trace) /\ Step(Trace[l]) /\ l' = l + 1

AllJudged == /\ PrintT("JUDGED " \o ToJson([n |-> TLCGet("stats").diameter - 1]))
             /\ TLCGet("stats").diameter - 1 = Len(Trace)
=============================================================================
