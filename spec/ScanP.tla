------------------------------- MODULE ScanP -------------------------------
(***************************************************************************)
(* Slices of protected files and where they occur in a directory, with the *)
(* instance (slice size s, names in recovery-set order, protected contents *)
(* prot) passed as parameters so that one trace may contain many           *)
(* instances.  Par2Scan is this module applied to constants.               *)
(*                                                                         *)
(* Files are sequences of small integers (bytes).  MD5/CRC32 are idealised *)
(* as injective: "the checksum pair of a window matches slice p" is "the   *)
(* zero-padded window equals the content of slice p".                      *)
(*                                                                         *)
(* TRUTH LAYER:  Window, Occurring (upper bound of what any scan may       *)
(*   credit), Survivors (lower bound of what every correct scan must       *)
(*   credit: an occurrence not overlapped by an earlier occurrence of any  *)
(*   protected slice, or any slice of a file that is intact).              *)
(* ALGORITHM LAYER: gopar's greedy scan (+1 on a miss, +s on a hit, zero   *)
(*   padding at end of file, every location with that content credited).   *)
(***************************************************************************)
EXTENDS Integers, Sequences, FiniteSets

Absent == << -1 >>                      \* disk value of a file that does not exist (bytes are >= 0)

NameSet(names) == {names[i] : i \in 1 .. Len(names)}
MinI(a, b) == IF a <= b THEN a ELSE b

Pad(s, w) == w \o [i \in 1 .. (s - Len(w)) |-> 0]
\* the window of d at 0-based offset j (j < Len(d)), zero-padded at end of file only
Window(s, d, j) == Pad(s, SubSeq(d, j + 1, MinI(j + s, Len(d))))

NSlices(s, d) == (Len(d) + s - 1) \div s
\* a slice position is <<name, k>>, k from 0
Pos(s, names, prot) == UNION {{<< f, k >> : k \in 0 .. (NSlices(s, prot[f]) - 1)} : f \in NameSet(names)}
Content(s, prot, p) == Window(s, prot[p[1]], p[2] * s)
Contents(s, names, prot) == {Content(s, prot, p) : p \in Pos(s, names, prot)}

\* global index (from 0) of a slice position: files in names order, then offset
RECURSIVE Before(_, _, _, _)
Before(s, names, prot, i) == IF i = 1 THEN 0 ELSE Before(s, names, prot, i - 1) + NSlices(s, prot[names[i - 1]])
IndexOfName(names, f) == CHOOSE i \in 1 .. Len(names) : names[i] = f
GIndex(s, names, prot, p) == Before(s, names, prot, IndexOfName(names, p[1])) + p[2]

Present(names, disk) == {f \in NameSet(names) : disk[f] # Absent}

(************************ TRUTH LAYER **************************************)
\* offsets of d at which the (padded) window is one of the contents cs
Hits(s, cs, d) == {j \in 0 .. (Len(d) - 1) : Window(s, d, j) \in cs}
\* no occurrence of any protected slice starts inside the s-1 bytes before j
Clean(s, hits, j) == \A j2 \in hits : ~(j - s < j2 /\ j2 < j)

Occurring(s, names, prot, disk) ==
  {p \in Pos(s, names, prot) : \E f \in Present(names, disk) : \E j \in 0 .. (Len(disk[f]) - 1) :
        Window(s, disk[f], j) = Content(s, prot, p)}

Survivors(s, names, prot, disk) ==
  LET cs == Contents(s, names, prot) IN
  {p \in Pos(s, names, prot) :
       \/ disk[p[1]] = prot[p[1]]
       \/ \E f \in Present(names, disk) :
             LET h == Hits(s, cs, disk[f]) IN
             \E j \in h : Window(s, disk[f], j) = Content(s, prot, p) /\ Clean(s, h, j)}

(************************ ALGORITHM LAYER **********************************)
RECURSIVE ScanR(_, _, _, _, _)
ScanR(s, cs, d, j, acc) ==
  IF j >= Len(d) THEN acc
  ELSE IF Window(s, d, j) \in cs THEN ScanR(s, cs, d, j + s, acc \cup {j})
       ELSE ScanR(s, cs, d, j + 1, acc)
ScanHits(s, cs, d) == ScanR(s, cs, d, 0, {})

\* the scan's own counters, as gopar reports them to its delegate: << hits, misses >>
RECURSIVE ScanStatsR(_, _, _, _, _, _)
ScanStatsR(s, cs, d, j, h, m) ==
  IF j >= Len(d) THEN << h, m >>
  ELSE IF Window(s, d, j) \in cs THEN ScanStatsR(s, cs, d, j + s, h + 1, m)
       ELSE ScanStatsR(s, cs, d, j + 1, h, m + 1)
ScanStats(s, cs, d) == ScanStatsR(s, cs, d, 0, 0, 0)

\* slice positions credited by the greedy scan over all present protected files
Found(s, names, prot, disk) ==
  LET cs == Contents(s, names, prot) IN
  {p \in Pos(s, names, prot) : \E f \in Present(names, disk) :
        \E j \in ScanHits(s, cs, disk[f]) : Window(s, disk[f], j) = Content(s, prot, p)}

Bounds(s, names, prot, disk) ==
  /\ Survivors(s, names, prot, disk) \subseteq Found(s, names, prot, disk)
  /\ Found(s, names, prot, disk) \subseteq Occurring(s, names, prot, disk)
=============================================================================
