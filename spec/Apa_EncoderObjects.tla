------------------------- MODULE Apa_EncoderObjects -------------------------
(***************************************************************************)
(* UNBOUNDED safety of the two Encoder typestate models (extensions X02,   *)
(* X04) by an inductive invariant discharged with Apalache: the TLC runs   *)
(* of MC_EncoderObject / MC_Par1EncoderObject bound the number of input    *)
(* versions (MaxVersion = 4); here ver is any natural number.              *)
(*                                                                         *)
(* The module restates the two machines over one set of variables (the     *)
(* parameter Fmt selects the PAR2 or the PAR1 Write) with Apalache type    *)
(* annotations; the actions are copied from Par2EncoderObject.tla and      *)
(* Par1EncoderObject.tla; that every behaviour of those two modules is a   *)
(* behaviour of this one (under the obvious mapping of the archive record) *)
(* is checked by TLC as a refinement (MC_ApaRefine2 / MC_ApaRefine1), so   *)
(* what is proved here holds for the models the real objects are bound to. *)
(* tools/checks/x06.py runs the refinement checks and the Apalache queries:*)
(*   1. Init => IndInv                          (--init=Init    --inv=IndInv  --length=0)  *)
(*   2. IndInv /\ Next => IndInv'               (--init=IndInit --inv=IndInv  --length=1)  *)
(*   3. IndInv /\ Next => the action properties (--init=IndInit --inv=ActInv  --length=1)  *)
(***************************************************************************)
EXTENDS Integers

CONSTANTS
  \* @type: Str;
  Fmt,        \* "par2" | "par1"
  \* @type: Int;
  R

VARIABLES
  \* @type: Int;
  ver,
  \* @type: { alive: Bool, snap: Int, psnap: Int };
  enc,
  \* @type: { desc: Int, par: Int, partial: Bool, nvol: Int };
  arch,
  \* @type: Str;
  last,
  \* @type: Str;
  act

CInit == Fmt \in {"par2", "par1"} /\ R \in {1, 2, 3}

None == 0 - 1
NoEnc  == [alive |-> FALSE, snap |-> None, psnap |-> None]
NoArch == [desc |-> None, par |-> None, partial |-> FALSE, nvol |-> 0]

Init == ver = 1 /\ enc = NoEnc /\ arch = NoArch /\ last = "" /\ act = "init"

Modify == /\ ver' = ver + 1                     \* no bound on the number of versions
          /\ act' = "modify" /\ last' = "" /\ UNCHANGED << enc, arch >>
ENew == /\ enc' = [alive |-> TRUE, snap |-> None, psnap |-> None]
        /\ act' = "new" /\ last' = "ok" /\ UNCHANGED << ver, arch >>
ELoad == /\ enc.alive
         /\ enc' = [enc EXCEPT !.snap = ver]
         /\ act' = "load" /\ last' = "ok" /\ UNCHANGED << ver, arch >>
ECompute == /\ enc.alive
            /\ IF enc.snap = None
               THEN last' = (IF Fmt = "par2" THEN "panic" ELSE "error") /\ UNCHANGED enc
               ELSE last' = "ok" /\ enc' = [enc EXCEPT !.psnap = enc.snap]
            /\ act' = "compute" /\ UNCHANGED << ver, arch >>

\* @type: ({ alive: Bool, snap: Int, psnap: Int }, { desc: Int, par: Int, partial: Bool, nvol: Int }) => { out: Str, arch: { desc: Int, par: Int, partial: Bool, nvol: Int } };
WriteFn(e, a) ==
  IF Fmt = "par2"
  THEN IF e.snap = None THEN [out |-> "error", arch |-> a]
       ELSE IF e.psnap = None
            THEN [out |-> "panic", arch |-> [desc |-> e.snap, par |-> None, partial |-> TRUE, nvol |-> 0]]
            ELSE [out |-> "ok", arch |-> [desc |-> e.snap, par |-> e.psnap, partial |-> FALSE, nvol |-> R]]
  ELSE IF e.snap = None THEN [out |-> "panic", arch |-> a]
       ELSE IF e.psnap = None
            THEN [out |-> "ok", arch |-> [desc |-> e.snap, par |-> None, partial |-> FALSE, nvol |-> 0]]
            ELSE [out |-> "ok", arch |-> [desc |-> e.snap, par |-> e.psnap, partial |-> FALSE, nvol |-> R]]

EWrite == /\ enc.alive
          /\ LET w == WriteFn(enc, arch) IN last' = w.out /\ arch' = w.arch
          /\ act' = "write" /\ UNCHANGED << ver, enc >>

Next == Modify \/ ENew \/ ELoad \/ ECompute \/ EWrite

(***************************** the inductive invariant **********************)
VerOrNone(x) == x = None \/ (x >= 1 /\ x <= ver)
IndInv ==
  /\ ver >= 1
  /\ VerOrNone(enc.snap) /\ VerOrNone(enc.psnap)
  /\ (enc.psnap # None => (enc.snap # None /\ enc.psnap <= enc.snap))      \* parity is never newer than the loaded version
  /\ (~enc.alive => (enc.snap = None /\ enc.psnap = None))
  /\ VerOrNone(arch.desc) /\ VerOrNone(arch.par)
  /\ (arch.par # None => (arch.desc # None /\ arch.par <= arch.desc))      \* on disk too
  /\ arch.nvol \in {0, R}
  /\ last \in {"", "ok", "error", "panic"}
  /\ act \in {"init", "modify", "new", "load", "compute", "write"}

\* IndInit: any state satisfying IndInv (Apalache needs every variable bounded by a set or an equation)
IndInit ==
  /\ ver \in Nat
  /\ \E al \in BOOLEAN, sn \in Int, ps \in Int : enc = [alive |-> al, snap |-> sn, psnap |-> ps]
  /\ \E de \in Int, pa \in Int, pt \in BOOLEAN, nv \in {0, R} : arch = [desc |-> de, par |-> pa, partial |-> pt, nvol |-> nv]
  /\ last \in {"", "ok", "error", "panic"}
  /\ act \in {"init", "modify", "new", "load", "compute", "write"}
  /\ IndInv

(***************************** the action properties ***********************)
\* @type: ({ desc: Int, par: Int, partial: Bool, nvol: Int }) => Bool;
Consistent(a) == a.desc # None /\ a.par = a.desc /\ ~a.partial /\ a.nvol = R
ActInv ==
  \* a successful Write describes the loaded version
  /\ ((act' = "write" /\ last' = "ok") => (arch'.desc = enc.snap /\ enc.snap # None /\ ~arch'.partial))
  \* the straight pipeline writes a complete consistent set
  /\ ((act' = "write" /\ last' = "ok" /\ enc.psnap = enc.snap) => Consistent(arch'))
  \* an incomplete or inconsistent successful Write only by a named deviation
  /\ ((act' = "write" /\ last' = "ok" /\ ~Consistent(arch')) =>
        ((Fmt = "par1" /\ enc.psnap = None) \/ (enc.psnap # None /\ enc.psnap # enc.snap)))
  \* calls before Load never succeed
  /\ ((act' = "compute" /\ enc.snap = None) => last' # "ok")
  /\ ((act' = "write" /\ enc.snap = None) => (last' # "ok" /\ arch' = arch))
  \* only Write writes, only Modify changes the inputs
  /\ (act' # "write" => arch' = arch) /\ (act' # "modify" => ver' = ver)
  \* what is on disk never describes a version that does not exist yet, and parity on disk is never newer than the index
  /\ (arch'.desc <= ver' /\ (arch'.par # None => arch'.par <= arch'.desc))
\* self-test of the method (must be VIOLATED: WriteStale and, for PAR1, WriteNoParity are reachable in one step)
ActInvTooStrong == (act' = "write" /\ last' = "ok") => Consistent(arch')
ASpec == Init /\ [][Next]_<< ver, enc, arch, last, act >>
=============================================================================
