----------------------------- MODULE Par2Object -----------------------------
(***************************************************************************)
(* EXTENSION (beyond the listed properties): the typestate of the exported *)
(* par2.Decoder object, on top of the directory model of Par2Archive.      *)
(*                                                                         *)
(* par2.Verify / par2.Repair build a Decoder and call LoadFileData,        *)
(* LoadParityData, ShardCounts / Repair in that order, once.  The object   *)
(* is exported, so a library user may call the methods in any order, any   *)
(* number of times, while the directory changes between the calls.  What   *)
(* the object then does is a state machine over two SNAPSHOTS:             *)
(*                                                                         *)
(*   data : what LoadFileData found in the directory AT THAT MOMENT        *)
(*          (found slices with their bytes, which files were not ok)       *)
(*   par  : the recovery blocks LoadParityData found AT THAT MOMENT        *)
(*                                                                         *)
(* ShardCounts and Repair work on the snapshots, never on the directory;   *)
(* Repair updates the data snapshot (all slices now known) but not the     *)
(* per-file flags, so a second Repair on the same object rewrites the same *)
(* files with the same (original) bytes.                                   *)
(*                                                                         *)
(* ALGORITHM LAYER: ObjNew, ObjLoadFileData, ObjLoadParityData,            *)
(*   ObjShardCounts, ObjRepair - shaped like par2/decoder.go.              *)
(* TRUTH LAYER (object-level analogues of C01/C02/C03, OT_..): whatever the  *)
(*   order of calls and however stale the snapshots,                       *)
(*   - Repair writes only exact originals and lists them,                  *)
(*   - counts are truthful about the directory at the moment of the loads, *)
(*   - within the capacity of the snapshots Repair succeeds (or singular), *)
(*   - calls made too early fail cleanly (no crash, no write).             *)
(***************************************************************************)
EXTENDS Par2Archive

VARIABLE dec      \* the Decoder object
ovars == << disk, vols, last, act, dec >>
OView == << disk, vols, dec >>

NoData == [loaded |-> FALSE, found |-> {}, notok |-> {}, at |-> [f \in NameSet |-> Absent], repaired |-> FALSE]
NoPar  == [loaded |-> FALSE, ex |-> {}, at |-> {}]
NoObj  == [alive |-> FALSE, data |-> NoData, par |-> NoPar]

(***************************** ALGORITHM LAYER *****************************)
\* directory actions (the environment), unchanged from Par2Archive but leaving the object alone
EnvSetFile(f, v) == SetFile(f, v) /\ UNCHANGED dec
EnvDelVol(v) == DelVol(v) /\ UNCHANGED dec
EnvAddVol(v) == AddVol(v) /\ UNCHANGED dec

\* NewDecoder: reads the index file only (always intact in this model)
ObjNew == /\ dec' = [alive |-> TRUE, data |-> NoData, par |-> NoPar]
          /\ act' = "new" /\ last' = [op |-> "new", err |-> ""]
          /\ UNCHANGED << disk, vols >>

\* `at` remembers the directory the snapshot was taken from (history only: the truth layer
\* needs it to say what "truthful at the moment of the load" means)
ObjLoadFileData ==
  /\ dec.alive
  /\ dec' = [dec EXCEPT !.data = [loaded |-> TRUE, found |-> Scan!Found(disk), notok |-> NotOK(disk), at |-> disk, repaired |-> FALSE]]
  /\ act' = "loadfile" /\ last' = [op |-> "loadfile", err |-> ""]
  /\ UNCHANGED << disk, vols >>

ObjLoadParityData ==
  /\ dec.alive
  /\ dec' = [dec EXCEPT !.par = [loaded |-> TRUE, ex |-> Exps(vols), at |-> vols]]
  /\ act' = "loadparity" /\ last' = [op |-> "loadparity", err |-> ""]
  /\ UNCHANGED << disk, vols >>

CountsOf(d) ==
  LET ex == d.par.ex IN
  [op |-> "counts", err |-> "",
   usable |-> Cardinality(d.data.found),
   unusable |-> IF d.data.loaded THEN Scan!NTotal - Cardinality(d.data.found) ELSE 0,
   pusable |-> Cardinality(ex),
   punusable |-> IF ex = {} THEN 0 ELSE MaxOf(ex) + 1 - Cardinality(ex)]

ObjShardCounts ==
  /\ dec.alive
  /\ last' = CountsOf(dec) /\ act' = "counts"
  /\ UNCHANGED << disk, vols, dec >>

\* Decoder.Repair on the snapshots.  Returns [res, disk, dec].
ObjRepairFn(d, dk) ==
  IF ~d.data.loaded
  THEN [res |-> [op |-> "repair", err |-> "nofileinfo", repaired |-> << >>], disk |-> dk, dec |-> d]
  ELSE LET missing == Scan!Pos \ d.data.found
           ex      == d.par.ex
           k       == Cardinality(missing)
       IN IF k > Cardinality(ex)
          THEN [res |-> [op |-> "repair", err |-> "notenough", repaired |-> << >>], disk |-> dk, dec |-> d]
          ELSE IF SingularFor(ex, missing)
          THEN [res |-> [op |-> "repair", err |-> "singular", repaired |-> << >>], disk |-> dk, dec |-> d]
          ELSE [res |-> [op |-> "repair", err |-> "", repaired |-> FilterNames(1, d.data.notok)],
                disk |-> [f \in NameSet |-> IF f \in d.data.notok THEN Prot[f] ELSE dk[f]],
                dec |-> [d EXCEPT !.data.found = Scan!Pos, !.data.repaired = TRUE]]

ObjRepair(dc) ==
  /\ dec.alive
  /\ LET r == ObjRepairFn(dec, disk) IN
       /\ last' = r.res /\ disk' = r.disk /\ dec' = r.dec
  /\ act' = IF dc THEN "repairdc" ELSE "repair"
  /\ UNCHANGED vols

ObjInit == Init /\ dec = NoObj

ObjNext == \/ \E f \in NameSet : \E v \in Menu[f] : EnvSetFile(f, v)
           \/ \E v \in VolIds : EnvDelVol(v) \/ EnvAddVol(v)
           \/ ObjNew \/ ObjLoadFileData \/ ObjLoadParityData \/ ObjShardCounts
           \/ ObjRepair(FALSE) \/ ObjRepair(TRUE)

ObjSpec == ObjInit /\ [][ObjNext]_ovars

(***************************** TRUTH LAYER *********************************)
OIsRepair == act' \in {"repair", "repairdc"}

\* OT1: whatever the snapshots are worth, only Repair writes, only exact originals, all listed;
\*      every listed file holds its original afterwards; volumes are never touched.
OT_WriteDiscipline ==
  \A f \in NameSet :
     (disk'[f] # disk[f] /\ act' \notin {"damage", "restore"}) =>
        /\ OIsRepair
        /\ disk'[f] = Prot[f]
        /\ \E i \in 1 .. Len(last'.repaired) : last'.repaired[i] = f
OT_ListedMeansWritten ==
  OIsRepair => \A i \in 1 .. Len(last'.repaired) : disk'[last'.repaired[i]] = Prot[last'.repaired[i]]

\* OT2: the counts are sound and complete for the directory AT THE MOMENT OF THE LOADS
\*      (after a successful Repair the object holds every slice in memory: all usable)
OT_CountsTruthfulAtLoad ==
  (act' = "counts" /\ dec.data.loaded) =>
     /\ Cardinality(Scan!Survivors(dec.data.at)) <= last'.usable
     /\ (~dec.data.repaired => last'.usable <= Cardinality(Scan!Occurring(dec.data.at)))
     /\ (dec.data.repaired => last'.usable = Scan!NTotal)
     /\ last'.usable + last'.unusable = Scan!NTotal
OT_ParityCountsAtLoad ==
  (act' = "counts") => last'.pusable = (IF dec.par.loaded THEN Cardinality(Exps(dec.par.at)) ELSE 0)

\* OT3: within the capacity of the snapshots Repair succeeds, the only excuse being a singular system;
\*      success restores every file that was not ok at load time
OT_WithinSnapshotCapacity ==
  (OIsRepair /\ dec.data.loaded) =>
     LET k == Scan!NTotal - Cardinality(Scan!Survivors(dec.data.at)) IN
     (k <= Cardinality(dec.par.ex)) =>
        \/ (last'.err = "" /\ \A f \in NameSet : dec.data.at[f] # Prot[f] => disk'[f] = Prot[f])
        \/ last'.err = "singular"

\* OT4: a call made too early fails cleanly
OT_TooEarly ==
  (OIsRepair /\ ~dec.data.loaded) => (last'.err # "" /\ disk' = disk)

\* OT5: a failed Repair leaves directory and object unchanged
OT_FailureChangesNothing ==
  (OIsRepair /\ last'.err # "") => (disk' = disk /\ dec' = dec)

\* OT6: a successful Repair is a fixpoint for the same object: the next Repair succeeds too and
\*      writes the same originals; the next ShardCounts shows no unusable slice
OT_SuccessSticks ==
  (OIsRepair /\ last'.err = "") =>
     /\ ObjRepairFn(dec', disk').res.err = ""
     /\ CountsOf(dec').unusable = 0
=============================================================================
