CONSTANT Inst = "i4"
CONSTANT Positions = "obj"
INIT ObjInit
NEXT ObjNext
VIEW OView
CHECK_DEADLOCK FALSE
PROPERTY P_OT1a P_OT1b P_OT2a P_OT2b P_OT3 P_OT4 P_OT5 P_OT6 P_Vols
