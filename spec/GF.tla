--------------------------------- MODULE GF ---------------------------------
(***************************************************************************)
(* The finite field GF(2^W) = GF(2)[x] / Poly, parametric in W and Poly.  *)
(*                                                                         *)
(* TRUTH LAYER.  Mul is *defined* as the reduced carry-less product        *)
(* (shift, xor, reduce) -- nothing is taken from gopar.  Everything else  *)
(* (Inv, Div, Pow) is defined from Mul by square-and-multiply.            *)
(*                                                                         *)
(* A table-accelerated FastMul is provided for bulk judging; the tables    *)
(* are built by repeated doubling from Mul itself, kept in a TLC register, *)
(* and tied back to Mul by the self checks in TablesOK (checked by the     *)
(* root modules in an ASSUME).                                             *)
(*                                                                         *)
(* Instances used: (16, 69643 = 0x1100B) PAR2, (8, 285 = 0x11D) PAR1,      *)
(* (2,7) (3,11) (4,19) for exhaustive small-scope checks.                  *)
(***************************************************************************)
EXTENDS Integers, Sequences, Bitwise, TLC, Functions

CONSTANTS W,      \* degree of the field
          Poly,   \* the modulus as an integer (bit i = coefficient of x^i), degree W
          Gen,    \* an element claimed to generate the multiplicative group (checked)
          Reg     \* TLC register index used for the tables (distinct per instance)

Order == 2^W
Elems == 0 .. (Order - 1)
NonZero == 1 .. (Order - 1)

Add(a, b) == a ^^ b

\* x * a  mod Poly
Dbl(a) == LET d == a * 2 IN IF d >= Order THEN d ^^ Poly ELSE d

RECURSIVE MulR(_, _, _)
MulR(a, b, acc) ==
  IF b = 0 THEN acc
  ELSE MulR(Dbl(a), b \div 2, IF (b % 2) = 1 THEN acc ^^ a ELSE acc)

\* The reduced carry-less product: the definition of the field product.
Mul(a, b) == MulR(a, b, 0)

\* a^n for a natural number n, square and multiply (0^0 = 1).
RECURSIVE PowM(_, _)
PowM(a, n) ==
  IF n = 0 THEN 1
  ELSE LET h == PowM(a, n \div 2)
           s == Mul(h, h)
       IN IF (n % 2) = 1 THEN Mul(s, a) ELSE s

Inv(a) == PowM(a, Order - 2)          \* a # 0;  a^(2^W - 2) = a^-1
Div(a, b) == Mul(a, Inv(b))           \* b # 0

(***************************************************************************)
(* Exponents that do not fit TLC's 32-bit integers are given as            *)
(* hi * 2^16 + lo with 0 <= hi, lo < 2^16 (used for W = 16 only):          *)
(* a^(hi*2^16+lo) = (a^(2^16))^hi * a^lo = a^hi * a^lo for a in GF(2^16),  *)
(* because a^(2^16) = a.  For a = 0 the result is 1 iff hi = lo = 0.       *)
(***************************************************************************)
PowBig(a, hi, lo) ==
  IF a = 0 THEN (IF hi = 0 /\ lo = 0 THEN 1 ELSE 0)
  ELSE Mul(PowM(a, hi), PowM(a, lo))

(***************************************************************************)
(* Tables.  ExpSeq(n) = << Gen^0, ..., Gen^(n-1) >> built by doubling the  *)
(* length: the second half is the first half times Gen^h.                  *)
(***************************************************************************)
RECURSIVE ExpSeq(_)
ExpSeq(n) ==
  IF n = 1 THEN << 1 >>
  ELSE LET h  == (n + 1) \div 2
           lo == ExpSeq(h)
           gh == Mul(lo[h], Gen)               \* Gen^h
       IN lo \o [i \in 1 .. (n - h) |-> Mul(lo[i], gh)]

\* (operators below take a dummy argument so that TLC does not evaluate them eagerly, once per
\*  instance, when it pre-processes zero-arity constant definitions at start-up)
BuildTables(u) ==
  LET e == ExpSeq(Order - 1)                                  \* e[i+1] = Gen^i
      l == AntiFunction(e)                                    \* l[Gen^i] = i+1
  IN [exp |-> e, log |-> l]

InitTablesp(u) == TLCSet(Reg, TLCEval(BuildTables(u)))
Tab == TLCGet(Reg)

FastMul(a, b) ==
  IF a = 0 \/ b = 0 THEN 0
  ELSE LET t == Tab IN t.exp[((t.log[a] + t.log[b] - 2) % (Order - 1)) + 1]

FastInv(a) == LET t == Tab IN t.exp[((Order - 1 - (t.log[a] - 1)) % (Order - 1)) + 1]

\* a^n for natural n through the tables (n is reduced first, so n < 2^31 suffices)
FastPow(a, n) ==
  IF n = 0 THEN 1
  ELSE IF a = 0 THEN 0
  ELSE LET t == Tab IN t.exp[(((t.log[a] - 1) * (n % (Order - 1))) % (Order - 1)) + 1]

(***************************************************************************)
(* Self checks tying the tables to Mul: every entry by its recurrence,     *)
(* Gen really generates (all entries distinct is implied by AntiFunction   *)
(* being total on NonZero), FastMul = Mul on all a x basis b.              *)
(***************************************************************************)
TablesOKp(u) ==
  LET t == Tab IN
  /\ Len(t.exp) = Order - 1
  /\ t.exp[1] = 1
  /\ \A i \in 1 .. (Order - 2) : t.exp[i + 1] = Mul(t.exp[i], Gen)
  /\ Mul(t.exp[Order - 1], Gen) = 1
  /\ DOMAIN t.log = NonZero
  /\ \A a \in NonZero : t.exp[t.log[a]] = a

FastMulOKOnBasisp(u) ==
  \A a \in Elems : \A k \in 0 .. (W - 1) : FastMul(a, 2^k) = Mul(a, 2^k)

\* Little-endian 16-bit word view of a byte sequence (even length)
WordsLE(bs) == [i \in 1 .. (Len(bs) \div 2) |-> bs[2*i - 1] + 256 * bs[2*i]]
=============================================================================
