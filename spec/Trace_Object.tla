---------------------------- MODULE Trace_Object ----------------------------
(***************************************************************************)
(* Trace validation for the EXTENSION X01 (spec/Par2Object.tla): recorded  *)
(* call sequences on the real, exported par2.Decoder object - methods in   *)
(* any order, any number of times, the directory changing in between -     *)
(* are replayed through the actions of Par2Object.  One event = one call   *)
(* (logged at its return) or one directory change made by the driver.      *)
(*                                                                         *)
(* For every event the judge                                               *)
(*   1. takes the step the ALGORITHM LAYER predicts from the current       *)
(*      abstract state (directory + the object's two snapshots),           *)
(*   2. compares the prediction with what the call returned and with the   *)
(*      directory found afterwards (clauses X01.conf...: refinement),      *)
(*   3. evaluates the TRUTH LAYER clauses OT_* on the recorded values      *)
(*      (clauses X01.truth...), which do not depend on the algorithm layer,*)
(*   4. continues from the predicted object state and the RECORDED         *)
(*      directory, so that one rejection does not hide the rest.           *)
(* The instance (slice size, names, contents, volumes) is the model        *)
(* checker's instance; it is read from instance.ndjson.                    *)
(***************************************************************************)
EXTENDS Integers, Sequences, FiniteSets, TLC, Json

Inst0 == ndJsonDeserialize("instance.ndjson")[1]
TrS == Inst0.s
TrNames == Inst0.names
TrProt == Inst0.prot
TrVols == [i \in 1 .. Len(Inst0.vols) |-> {Inst0.vols[i][k] : k \in 1 .. Len(Inst0.vols[i])}]
TrMenu == [f \in {TrNames[i] : i \in 1 .. Len(TrNames)} |-> {}]

ASSUME TLCSet(1, ndJsonDeserialize("trace.ndjson"))
Trace == TLCGet(1)

VARIABLES disk, vols, last, act, dec, l
PO == INSTANCE Par2Object WITH S <- TrS, Names <- TrNames, Prot <- TrProt, Vols <- TrVols, Menu <- TrMenu

ASSUME PO!GF16!InitTablesp(0)

V(i, c) == PrintT("VERDICT " \o ToJson([i |-> i, clause |-> c]))
Chk(i, c, ok) == (~ok) => V(i, c)

ToSetOf(s) == {s[k] : k \in 1 .. Len(s)}
\* recorded directory: JSON object name -> list of ints (<< -1 >> = absent)
RecDisk(e) == [f \in PO!NameSet |-> e.post[f]]
RecVols(e) == ToSetOf(e.postvols)
Names2Seq(s) == s

Init == /\ disk = [f \in PO!NameSet |-> TrProt[f]] /\ vols = PO!VolIds
        /\ last = PO!NoResult /\ act = "create" /\ dec = PO!NoObj /\ l = 1

\* ---- directory changes made by the driver: adopt the recorded directory -------------------
EnvStep(e) ==
  /\ disk' = RecDisk(e) /\ vols' = RecVols(e)
  /\ dec' = IF e.ev = "reset" THEN PO!NoObj ELSE dec
  /\ last' = PO!NoResult /\ act' = e.ev
  \* the driver's own bookkeeping must agree with what it says it did
  /\ Chk(l, "X01.driver.set_recorded", e.ev = "set" => RecDisk(e)[e.f] = e.v)
  /\ Chk(l, "X01.driver.vol_recorded", (e.ev = "delvol" => e.vol \notin RecVols(e)) /\ (e.ev = "addvol" => e.vol \in RecVols(e)))

\* ---- object calls --------------------------------------------------------------------------
\* what every call must satisfy whatever it is: it returns (no panic), touches nothing outside
\* the protected files, never touches the volumes
Common(e) ==
  /\ Chk(l, "X01.truth.no_panic", e.err # "panic")
  /\ Chk(l, "X01.truth.nothing_else_touched", e.outside = << >>)
  /\ Chk(l, "X01.truth.volumes_untouched", RecVols(e) = vols)

ReadOnly(e) == Chk(l, "X01.truth.only_repair_writes", RecDisk(e) = disk)

NewStep(e) ==
  /\ Common(e) /\ ReadOnly(e)
  /\ Chk(l, "X01.conf.new_succeeds", e.err = "")
  /\ dec' = IF e.err = "" THEN [alive |-> TRUE, data |-> PO!NoData, par |-> PO!NoPar] ELSE dec
  /\ disk' = RecDisk(e) /\ vols' = RecVols(e) /\ last' = [op |-> "new", err |-> e.err] /\ act' = "new"

LoadFileStep(e) ==
  /\ Common(e) /\ ReadOnly(e)
  /\ Chk(l, "X01.conf.loadfile_succeeds", e.err = "")
  /\ dec' = IF e.err = "" THEN [dec EXCEPT !.data = [loaded |-> TRUE, found |-> PO!Scan!Found(disk), notok |-> PO!NotOK(disk), at |-> disk, repaired |-> FALSE]]
            ELSE dec
  /\ disk' = RecDisk(e) /\ vols' = RecVols(e) /\ last' = [op |-> "loadfile", err |-> e.err] /\ act' = "loadfile"

LoadParityStep(e) ==
  /\ Common(e) /\ ReadOnly(e)
  /\ Chk(l, "X01.conf.loadparity_succeeds", e.err = "")
  /\ dec' = IF e.err = "" THEN [dec EXCEPT !.par = [loaded |-> TRUE, ex |-> PO!Exps(vols), at |-> vols]] ELSE dec
  /\ disk' = RecDisk(e) /\ vols' = RecVols(e) /\ last' = [op |-> "loadparity", err |-> e.err] /\ act' = "loadparity"

CountsStep(e) ==
  LET m == PO!CountsOf(dec) IN
  /\ Common(e) /\ ReadOnly(e)
  \* refinement: exactly the predicted counts
  /\ Chk(l, "X01.conf.counts", e.usable = m.usable /\ e.unusable = m.unusable /\ e.pusable = m.pusable /\ e.punusable = m.punusable)
  \* truth: sound and complete for the directory at the moment of the loads
  /\ Chk(l, "X01.truth.counts_truthful_at_load",
         dec.data.loaded =>
            /\ Cardinality(PO!Scan!Survivors(dec.data.at)) <= e.usable
            /\ (~dec.data.repaired => e.usable <= Cardinality(PO!Scan!Occurring(dec.data.at)))
            /\ (dec.data.repaired => e.usable = PO!Scan!NTotal)
            /\ e.usable + e.unusable = PO!Scan!NTotal)
  /\ Chk(l, "X01.truth.parity_counts_at_load",
         e.pusable = (IF dec.par.loaded THEN Cardinality(PO!Exps(dec.par.at)) ELSE 0))
  /\ Chk(l, "X01.truth.nothing_loaded_nothing_counted",
         (~dec.data.loaded => e.usable = 0 /\ e.unusable = 0) /\ (~dec.par.loaded => e.pusable = 0 /\ e.punusable = 0))
  /\ UNCHANGED dec
  /\ disk' = RecDisk(e) /\ vols' = RecVols(e) /\ last' = m /\ act' = "counts"

RepairStep(e) ==
  LET m   == PO!ObjRepairFn(dec, disk)
      rd  == RecDisk(e)
      rep == ToSetOf(e.repaired)
  IN
  /\ Common(e)
  \* refinement: predicted outcome, predicted list (in recovery-set order), predicted directory
  /\ Chk(l, "X01.conf.repair_outcome", e.err = m.res.err)
  /\ Chk(l, "X01.conf.repair_list", e.repaired = m.res.repaired)
  /\ Chk(l, "X01.conf.repair_directory", rd = m.disk)
  \* truth, on the recorded values only
  /\ Chk(l, "X01.truth.writes_only_originals_and_lists_them",
         \A f \in PO!NameSet : rd[f] # disk[f] => (rd[f] = TrProt[f] /\ f \in rep))
  /\ Chk(l, "X01.truth.listed_means_restored", \A f \in rep : f \in PO!NameSet /\ rd[f] = TrProt[f])
  /\ Chk(l, "X01.truth.too_early_fails_cleanly", ~dec.data.loaded => (e.err # "" /\ rd = disk))
  /\ Chk(l, "X01.truth.failure_writes_nothing", e.err # "" => rd = disk)
  /\ Chk(l, "X01.truth.within_snapshot_capacity",
         dec.data.loaded =>
            LET k == PO!Scan!NTotal - Cardinality(PO!Scan!Survivors(dec.data.at)) IN
            (k <= Cardinality(dec.par.ex)) =>
               \/ (e.err = "" /\ \A f \in PO!NameSet : dec.data.at[f] # TrProt[f] => rd[f] = TrProt[f])
               \/ e.err = "singular")
  /\ dec' = IF e.err = m.res.err THEN m.dec ELSE dec
  /\ disk' = rd /\ vols' = RecVols(e) /\ last' = m.res /\ act' = IF e.dc THEN "repairdc" ELSE "repair"

Next == /\ l <= Len(Trace)
        /\ LET e == Trace[l] IN
             CASE e.ev \in {"reset", "set", "delvol", "addvol"} -> EnvStep(e)
               [] e.ev = "new" -> NewStep(e)
               [] e.ev = "loadfile" -> LoadFileStep(e)
               [] e.ev = "loadparity" -> LoadParityStep(e)
               [] e.ev = "counts" -> CountsStep(e)
               [] e.ev = "repair" -> RepairStep(e)
        /\ l' = l + 1

AllJudged == /\ PrintT("JUDGED " \o ToJson([n |-> TLCGet("stats").diameter - 1]))
             /\ TLCGet("stats").diameter - 1 = Len(Trace)
=============================================================================
