----------------------------- MODULE Trace_Par1 -----------------------------
(***************************************************************************)
(* Trace judge for executions of the real par1.Verify / par1.Repair.       *)
(* The facts of the directory are supplied by the harness (which entries   *)
(* are not intact: bad; which volumes exist: vols; whether the files equal *)
(* their originals afterwards; which paths were written); for small-scope  *)
(* events the bytes are logged as well and TLC recomputes bad itself       *)
(* (clause OBS.bad_agrees).  The clauses are the truth layer of            *)
(* Par1Archive; "singular" is accepted only when TLC's own determinant     *)
(* over GF(2^8)/0x11D of [ i^(v-1) ] (lowest present volumes x bad         *)
(* entries) is zero.                                                       *)
(***************************************************************************)
EXTENDS Integers, Sequences, FiniteSets, TLC, Json

ASSUME TLCSet(1, ndJsonDeserialize("trace.ndjson"))
Trace == TLCGet(1)

GF8 == INSTANCE GF WITH W <- 8, Poly <- 285, Gen <- 2, Reg <- 18
M8 == INSTANCE Matrix WITH MulOp <- GF8!FastMul, InvOp <- GF8!FastInv, AddOp <- GF8!Add
ASSUME GF8!InitTablesp(0) /\ GF8!TablesOKp(0)

VARIABLE l

ToSet(s) == {s[i] : i \in 1 .. Len(s)}
IsRepair(e) == e.op \in {"repair", "repairdc"}
IsVerify(e) == e.op \in {"verify", "verifyall"}

\* bad and vols are logged ascending
ReconMatrix(vseq, iseq) ==
  [r \in 1 .. Len(vseq) |-> [c \in 1 .. Len(iseq) |-> GF8!FastPow(iseq[c], vseq[r] - 1)]]
SingularJustified(e) ==
  /\ Len(e.bad) > 0 /\ Len(e.bad) <= Len(e.vols)
  /\ M8!Singular(ReconMatrix(SubSeq(e.vols, 1, Len(e.bad)), e.bad))

WithinCapacity(e) ==
  (Len(e.bad) <= Len(e.vols)) =>
     \/ (e.res.err = "" /\ e.restored)
     \/ (e.res.err = "singular" /\ SingularJustified(e))

BadAgrees(e) ==
  e.small => e.bad = [k \in 1 .. Len(e.bad) |-> e.bad[k]] /\
             ToSet(e.bad) = {i \in 1 .. Len(e.names) : e.pre[e.names[i]] # e.prot[e.names[i]]}

Clauses(e) ==
  << << "C04.counts_are_truth",
        (IsVerify(e) /\ e.res.err = "") =>
            /\ e.res.unusable = Len(e.bad) /\ e.res.usable = e.n - Len(e.bad)
            /\ e.res.pusable = Len(e.vols) >>,
     << "C04.verify_returns_result", IsVerify(e) => e.res.err = "" >>,
     << "C04.needed_possible",
        (IsVerify(e) /\ e.res.err = "") =>
            /\ e.res.needed <=> (Len(e.bad) > 0)
            /\ e.res.possible <=> (Len(e.bad) <= Len(e.vols)) >>,
     << "C04.untouched_is_clean",
        (IsVerify(e) /\ e.untouched) =>
            /\ e.res.err = "" /\ ~e.res.needed /\ e.res.punusable = 0
            /\ (e.op = "verifyall" => e.res.alldata) >>,
     << "C04.within_capacity", IsRepair(e) => WithinCapacity(e) >>,
     << "C04.ok_implies_restored", IsRepair(e) => (e.res.err = "" => e.restored) >>,
     << "C02.write_discipline", e.changed_ok /\ (e.writes # << >> => IsRepair(e)) >>,
     << "C02.listed_means_written", IsRepair(e) => e.listed_ok >>,
     << "C02.nothing_else_changed", e.outside = << >> >>,
     << "C02.create_touches_only_archive",
        (e.op = "create" /\ e.res.err = "") => (e.created_unexpected = << >> /\ e.changed_by_create = << >> /\ e.created # << >>) >>,
     \* the premise of the round trip: Create accepts every legitimate set (the drivers generate no other)
     << "C04.create_accepts_legitimate_set", e.op = "create" => e.res.err = "" >>,
     << "C02.verify_modifies_nothing", IsVerify(e) => (e.writes = << >> /\ e.outside = << >>) >>,
     << "C14.success_is_fixpoint",
        (IsRepair(e) /\ e.res.err = "") =>
           /\ e.after.verify.err = "" /\ ~e.after.verify.needed /\ e.after.verify.unusable = 0
           /\ e.after.repair.err = "" /\ e.after.repair.repaired = << >> /\ e.after.repair.writes = << >>
           /\ e.after.repair.outside = << >> >>,
     << "C14.success_converges_to_original", (IsRepair(e) /\ e.res.err = "") => e.restored >>,
     << "C14.failure_keeps_or_restores", (IsRepair(e) /\ e.res.err # "") => e.kept_or_restored >>,
     << "C14.verify_pure", IsVerify(e) => (e.writes = << >> /\ e.outside = << >>) >>,
     << "C13.no_panic", e.res.err # "panic" >>,
     << "OBS.bad_agrees", BadAgrees(e) >> >>

Failed(e) == LET c == Clauses(e) IN {c[i][1] : i \in {j \in 1 .. Len(c) : ~c[j][2]}}

\* drift against the algorithm layer's prediction (small events only)
Drift(e) == e.small /\
   (\/ e.res.err # e.model.err
    \/ (IsVerify(e) /\ e.res.err = "" /\ (e.res.usable # e.model.usable \/ e.res.pusable # e.model.pusable
                                           \/ e.res.punusable # e.model.punusable))
    \/ (IsRepair(e) /\ ToSet(e.res.repaired) # ToSet(e.model.repaired))
    \/ (IsRepair(e) /\ e.post # e.modelpost))

Init == l = 1
Next == /\ l <= Len(Trace)
        /\ LET e == Trace[l] IN
             /\ \A c \in Failed(e) : PrintT("VERDICT " \o ToJson([i |-> l, clause |-> c]))
             /\ (Drift(e) => PrintT("DRIFT " \o ToJson([i |-> l])))
        /\ l' = l + 1

AllJudged == /\ PrintT("JUDGED " \o ToJson([n |-> TLCGet("stats").diameter - 1]))
             /\ TLCGet("stats").diameter - 1 = Len(Trace)
=============================================================================
