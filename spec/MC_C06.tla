------------------------------- MODULE MC_C06 -------------------------------
(***************************************************************************)
(* Design-level model for C06: the layouts a conformant writer may produce *)
(* (within the class the property names) and the statement that gopar's    *)
(* reader is invariant under them:                                         *)
(*   - the index file opens, with the same description of the set, for     *)
(*     every order / duplication / interleaving that starts with a packet  *)
(*     of the set and contains a creator packet                            *)
(*   - the recovery blocks found are exactly the blocks stored beside the  *)
(*     index under "<base>.*.par2", however they are numbered and          *)
(*     distributed and whatever else the volume files contain              *)
(* Every layout is emitted ("LAYOUT ...") and materialised by the          *)
(* reference writer for the real par2.Verify / par2.Repair.                *)
(***************************************************************************)
EXTENDS Integers, Sequences, FiniteSets, TLC, Json

INSTANCE Par2Reader

NFiles == 2
Own(t, k) == [set |-> "own", type |-> t, k |-> k]
Cr == Own("creator", 0)
Mn == Own("main", 0)
F1 == Own("fd", 1)
I1 == Own("ifsc", 1)
F2 == Own("fd", 2)
I2 == Own("ifsc", 2)
Other(t) == [set |-> "other", type |-> t, k |-> 0]
Unk == Own("unknown", 0)
Unk0 == Own("unknown", 1)          \* an unknown-type packet with an empty body (length exactly 64)

\* index file orders: canonical, reversed, interleaved, with duplicates, with foreign / unknown packets
IndexOrders ==
  << << Cr, Mn, F1, I1, F2, I2 >>,
     << Mn, F2, I2, F1, I1, Cr >>,
     << I2, I1, F2, F1, Mn, Cr >>,
     << F1, Cr, I2, Mn, I1, F2 >>,
     << Cr, Mn, F1, I1, F2, I2, Cr, Mn, F1, I1, F2, I2 >>,
     << Mn, Mn, Cr, F1, F1, I1, F2, I2, I2 >>,
     << Cr, Other("main"), Mn, Other("fd"), F1, I1, Other("creator"), F2, I2 >>,
     << Mn, Unk, F1, I1, Unk, F2, I2, Cr, Other("recv") >>,
     << I1, F2, Unk, Other("ifsc"), Cr, I2, Mn, F1, Cr >>,
     << Cr, Unk0, Mn, F1, I1, F2, I2, Unk0 >>,
     \* the set an index file denotes is the set of its FIRST packet, whatever that packet's type: an own packet of
     \* an unknown type first, then packets of another set, then the own ones
     << Unk, Other("main"), Other("fd"), Other("creator"), Cr, Mn, F1, I1, F2, I2 >>,
     << Unk0, Other("creator"), Other("ifsc"), Mn, Cr, F2, I2, F1, I1 >> >>

ExpSchemes == << << 0, 1, 2 >>, << 5, 6, 7 >>, << 1, 7, 300 >>, << 2000, 2001, 4094 >> >>

\* how the three recovery packets are distributed over volume files (by position in the scheme)
Partitions == << << << 1, 2, 3 >> >>, << << 1 >>, << 2, 3 >> >>, << << 3 >>, << 1 >>, << 2 >> >>,
                 << << 2, 1 >>, << 3 >> >>, << << 1, 2, 3 >>, << 2 >> >> >>      \* the last one stores block 2 twice

\* what else a volume file contains: "full" copies of everything, "lean" (creator + recovery only),
\* "main" (creator + main + recovery), "noisy" (full, with foreign and unknown packets, recovery first)
VolStyles == << "full", "lean", "main", "noisy" >>

Recv(e) == Own("recv", e)
VolPkts(style, exps) ==
  LET rs == [i \in 1 .. Len(exps) |-> Recv(exps[i])] IN
  CASE style = "full" -> << Cr, Mn, F1, I1, F2, I2 >> \o rs
    [] style = "lean" -> rs \o << Cr >>
    [] style = "main" -> << Mn >> \o rs \o << Cr >>
    [] style = "noisy" -> << Other("recv") >> \o rs \o << Unk, I2, F2, Other("creator"), Unk0, Mn, Cr, I1, F1 >> \o rs

\* file naming classes for volume files and for the base name / directory
VolNames == << "vol00+01", "extra", "a b", "x[1]", "s*r", "q?", "b\\k" >>
BaseNames == << "plain", "[x]", "a*b", "sp ace" >>
DirNames == << "plain", "d[1]", "d*" >>

VARIABLES io, es, pt, vs, vn, bn, dn
vars == << io, es, pt, vs, vn, bn, dn >>
Init == io = 0 /\ es = 0 /\ pt = 0 /\ vs = 0 /\ vn = 0 /\ bn = 0 /\ dn = 0
Next == /\ io = 0
        /\ io' \in 1 .. Len(IndexOrders) /\ es' \in 1 .. Len(ExpSchemes) /\ pt' \in 1 .. Len(Partitions)
        /\ vs' \in 1 .. Len(VolStyles) /\ vn' \in 1 .. Len(VolNames) /\ bn' \in 1 .. Len(BaseNames)
        /\ dn' \in 1 .. Len(DirNames)

IsLayout == io # 0
Exps == ExpSchemes[es]
Part == Partitions[pt]
VolFile(i) == [name |-> << vn, i >>, match |-> TRUE,
               pkts |-> VolPkts(VolStyles[vs], [k \in 1 .. Len(Part[i]) |-> Exps[Part[i][k]]])]
\* besides the volumes the directory holds the index itself, a file of another set under a matching
\* name, and files whose names do not match (prefix only / suffix only)
Dir == {VolFile(i) : i \in 1 .. Len(Part)}
         \cup {[name |-> << 0, 1 >>, match |-> TRUE, pkts |-> << Other("creator"), Other("main"), Other("recv") >>],
               [name |-> << 0, 2 >>, match |-> FALSE, pkts |-> << Cr, Recv(9999) >>],
               [name |-> << 0, 3 >>, match |-> FALSE, pkts |-> << Cr, Recv(9998) >>]}

Canon == OpenIndex(IndexOrders[1], NFiles)
C06_IndexInvariant ==
  IsLayout => LET r == OpenIndex(IndexOrders[io], NFiles) IN
              /\ r.err = "" /\ r.setid = "own"
              /\ r.fds = Canon.fds /\ r.ifscs = Canon.ifscs /\ r.main = Canon.main
C06_AllBlocksFound ==
  IsLayout => LET lp == LoadParity(Dir, "own") IN
              /\ lp.err = ""
              /\ lp.exps = BlocksBeside(Dir)
              /\ lp.exps = ToSetS(Exps)

Emit ==
  IF io' # 0
  THEN PrintT("LAYOUT " \o ToJson([index |-> IndexOrders[io'], exps |-> ExpSchemes[es'], part |-> Partitions[pt'],
                                    style |-> VolStyles[vs'], volname |-> VolNames[vn'], base |-> BaseNames[bn'],
                                    dir |-> DirNames[dn'], id |-> << io', es', pt', vs', vn', bn', dn' >>]))
  ELSE TRUE
=============================================================================
