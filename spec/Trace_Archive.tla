--------------------------- MODULE Trace_Archive ---------------------------
(***************************************************************************)
(* Trace judge for executions of the real par2.Verify / par2.Repair on a   *)
(* real directory whose protected files are tiny (so that TLC itself       *)
(* computes the ground truth from the logged bytes with Par2Scan).         *)
(*                                                                         *)
(* Every "op" line is one operation executed on the real code and carries  *)
(* its own instance (s, names in recovery-set order, prot, vols = exponent *)
(* sets of the volume files); other lines (ev = "instance") are skipped:   *)
(*   pre / post : contents of the protected files before / after           *)
(*   prevols / postvols : volume files present before / after              *)
(*   res  : what the API returned (error class, counts, repaired paths)    *)
(*   outside : paths other than protected files that changed               *)
(*   writes  : protected files that were (re)written (inode/mtime/bytes)   *)
(*   model   : what the algorithm layer of Par2Archive predicted (drift)   *)
(*   after   : for successful repairs, the result of a following Verify    *)
(*             and Repair on the repaired directory (C14)                  *)
(* The clauses are the truth layer of Par2Archive; clause names carry the  *)
(* property id.                                                            *)
(***************************************************************************)
EXTENDS Integers, Sequences, FiniteSets, TLC, Json

ASSUME TLCSet(1, ndJsonDeserialize("trace.ndjson"))
Trace == TLCGet(1)

SP == INSTANCE ScanP
PC == INSTANCE Par2Const
GF16 == INSTANCE GF WITH W <- 16, Poly <- 69643, Gen <- 2, Reg <- 10
M16 == INSTANCE Matrix WITH MulOp <- GF16!FastMul, InvOp <- GF16!FastInv, AddOp <- GF16!Add

ToSet(s) == {s[i] : i \in 1 .. Len(s)}

\* every "op" event carries its own instance: slice size e.s, names in recovery-set order
\* e.names, protected contents e.prot, exponent sets of the volume files e.vols
IsOp(e) == e.ev = "op"
NameSetE(e) == SP!NameSet(e.names)
PosE(e) == SP!Pos(e.s, e.names, e.prot)
NTotalE(e) == Cardinality(PosE(e))
OccurringE(e, d) == SP!Occurring(e.s, e.names, e.prot, d)
SurvivorsE(e, d) == SP!Survivors(e.s, e.names, e.prot, d)
GIndexE(e, p) == SP!GIndex(e.s, e.names, e.prot, p)
VolsE(e) == [i \in 1 .. Len(e.vols) |-> ToSet(e.vols[i])]

\* field tables are needed only to justify a "singular" outcome
NeedField == \E i \in 1 .. Len(Trace) : IsOp(Trace[i]) /\ Trace[i].res.err = "singular"
ASSUME NeedField => (GF16!InitTablesp(0) /\ GF16!TablesOKp(0))

VARIABLE l

Exps(e, vs) == UNION {VolsE(e)[v] : v \in vs}
AllIntact(e, d) == \A f \in NameSetE(e) : d[f] = e.prot[f]

MinOf(Sx) == CHOOSE x \in Sx : \A y \in Sx : x <= y
RECURSIVE SortedSeq(_)
SortedSeq(Sx) == IF Sx = {} THEN << >> ELSE LET m == MinOf(Sx) IN << m >> \o SortedSeq(Sx \ {m})
ReconMatrix(exps, missingIdx) ==
  [r \in 1 .. Len(exps) |-> [c \in 1 .. Len(missingIdx) |-> PC!Entry(exps[r], missingIdx[c])]]
SingularFor(e, expSet, posSet) ==
  LET k == Cardinality(posSet)
  IN k > 0 /\ k <= Cardinality(expSet) /\
     M16!Singular(ReconMatrix(SubSeq(SortedSeq(expSet), 1, k), SortedSeq({GIndexE(e, p) : p \in posSet})))

IsRepair(e) == e.op \in {"repair", "repairdc"}

\* ---- the clauses; each yields TRUE when the event satisfies it -----------------------------
WithinCapacity(e) ==
  LET k  == NTotalE(e) - Cardinality(SurvivorsE(e, e.pre))
      ex == Exps(e, ToSet(e.prevols))
  IN (k <= Cardinality(ex)) =>
       \/ (e.res.err = "" /\ AllIntact(e, e.post))
       \/ (e.res.err = "singular" /\
             \E found \in SUBSET OccurringE(e, e.pre) :
                 SurvivorsE(e, e.pre) \subseteq found /\ SingularFor(e, ex, PosE(e) \ found))
OkMeansRestored(e) == e.res.err = "" => AllIntact(e, e.post)

WriteDiscipline(e) ==
  /\ \A f \in NameSetE(e) : e.post[f] # e.pre[f] => (IsRepair(e) /\ e.post[f] = e.prot[f] /\ f \in ToSet(e.res.repaired))
  /\ \A f \in ToSet(e.writes) : IsRepair(e) /\ f \in NameSetE(e) /\ e.post[f] = e.prot[f] /\ f \in ToSet(e.res.repaired)
ListedMeansWritten(e) == IsRepair(e) => \A f \in ToSet(e.res.repaired) : f \in NameSetE(e) /\ e.post[f] = e.prot[f]
NothingElseChanged(e) == e.outside = << >> /\ ToSet(e.postvols) = ToSet(e.prevols)
VerifyPure(e) == e.op = "verify" => (e.post = e.pre /\ e.writes = << >> /\ e.outside = << >> /\ ToSet(e.postvols) = ToSet(e.prevols))

VerifyReturns(e) == e.op = "verify" => e.res.err = ""
Sound(e)    == (e.op = "verify" /\ e.res.err = "") => e.res.usable <= Cardinality(OccurringE(e, e.pre))
Complete(e) == (e.op = "verify" /\ e.res.err = "") => Cardinality(SurvivorsE(e, e.pre)) <= e.res.usable
Total(e)    == (e.op = "verify" /\ e.res.err = "") => e.res.usable + e.res.unusable = NTotalE(e)
RecCount(e) == (e.op = "verify" /\ e.res.err = "") => e.res.pusable = Cardinality(Exps(e, ToSet(e.prevols)))
\* "clean means intact", split by what is really on disk so that the two ways of violating it
\* are told apart: every slice is still findable somewhere (files swapped, content shifted,
\* trailing zeros lost, garbage appended) versus some slice is really gone.
CleanButWrong(e) == e.op = "verify" /\ e.res.err = "" /\ ~e.res.needed /\ ~AllIntact(e, e.pre)
CleanMeansIntact_AllPresent(e) == ~(CleanButWrong(e) /\ OccurringE(e, e.pre) = PosE(e))
CleanMeansIntact_SomeAbsent(e) == ~(CleanButWrong(e) /\ OccurringE(e, e.pre) # PosE(e))
PossibleIff(e) == (e.op = "verify" /\ e.res.err = "") => (e.res.possible <=> (e.res.unusable <= e.res.pusable))
NeededIff(e) == (e.op = "verify" /\ e.res.err = "") => (e.res.unusable > 0 => e.res.needed)

SuccessIsFixpoint(e) ==
  (IsRepair(e) /\ e.res.err = "") =>
     /\ e.after.verify.err = "" /\ ~e.after.verify.needed /\ e.after.verify.unusable = 0
     /\ e.after.repair.err = "" /\ e.after.repair.repaired = << >> /\ e.after.repair.writes = << >>
     /\ e.after.repair.outside = << >>
FailureKeepsOrRestores(e) ==
  (IsRepair(e) /\ e.res.err # "") => \A f \in NameSetE(e) : e.post[f] = e.pre[f] \/ e.post[f] = e.prot[f]
\* ... and as a statement about the set as a whole: giving up for lack of recovery blocks loses no slice that
\* occurred somewhere before (seeded change R15-T14: a file rewritten with its original held the only copy of
\* another file's slices)
FailureLosesNoSlice(e) ==
  (IsRepair(e) /\ e.res.err = "notenough") => OccurringE(e, e.pre) \subseteq OccurringE(e, e.post)

\* the observer in the harness (used alone on big inputs) must agree with TLC's own truth here
ObserverAgrees(e) ==
  /\ e.obs.nsurv = Cardinality(SurvivorsE(e, e.pre))
  /\ e.obs.nocc = Cardinality(OccurringE(e, e.pre))

Clauses(e) ==
  << << "C01.within_capacity", IsRepair(e) => WithinCapacity(e) >>,
     << "C01.ok_implies_restored", IsRepair(e) => OkMeansRestored(e) >>,
     << "C02.write_discipline", WriteDiscipline(e) >>,
     << "C02.listed_means_written", ListedMeansWritten(e) >>,
     << "C02.nothing_else_changed", NothingElseChanged(e) >>,
     << "C02.verify_modifies_nothing", VerifyPure(e) >>,
     << "C03.verify_returns_result", VerifyReturns(e) >>,
     << "C03.usable_sound", Sound(e) >>,
     << "C03.usable_complete", Complete(e) >>,
     << "C03.counts_total", Total(e) >>,
     << "C03.recovery_count", RecCount(e) >>,
     << "C03.clean_implies_intact.all_slices_findable", CleanMeansIntact_AllPresent(e) >>,
     << "C03.clean_implies_intact.slices_absent", CleanMeansIntact_SomeAbsent(e) >>,
     << "C03.needed_if_unusable", NeededIff(e) >>,
     << "C03.possible_iff_capacity", PossibleIff(e) >>,
     << "C14.success_is_fixpoint", SuccessIsFixpoint(e) >>,
     << "C14.success_converges_to_original", IsRepair(e) => OkMeansRestored(e) >>,
     << "C14.failure_keeps_or_restores", FailureKeepsOrRestores(e) >>,
     << "C14.failure_loses_no_slice", FailureLosesNoSlice(e) >>,
     << "C14.verify_pure", VerifyPure(e) >>,
     << "C16.survivors_counted", Complete(e) >>,
     << "C16.repair_uses_survivors", IsRepair(e) => WithinCapacity(e) >>,
     << "OBS.observer_agrees", ObserverAgrees(e) >> >>

Failed(e) == LET c == Clauses(e) IN {c[i][1] : i \in {j \in 1 .. Len(c) : ~c[j][2]}}

\* drift: the real result differs from the algorithm layer's prediction (not a verdict)
Drift(e) == \/ e.res.err # e.model.err
            \/ (e.op = "verify" /\ e.res.err = "" /\
                  (e.res.usable # e.model.usable \/ e.res.pusable # e.model.pusable \/ e.res.punusable # e.model.punusable))
            \/ (IsRepair(e) /\ ToSet(e.res.repaired) # ToSet(e.model.repaired))
            \/ (IsRepair(e) /\ e.post # e.model.post)

\* ---- conformance of the decoder's delegate log (the CLI's user-visible log) with the specification:
\* one OnDataFileLoad per protected file in recovery-set order, numbered 1..n, with the byte count of
\* the file on disk and exactly the hit / miss counters of the greedy scan of ScanP; writes numbered
\* in recovery-set order for exactly the repaired paths.  Not a listed property: reported as drift.
DelegateConforms(e) ==
  "dlg" \in DOMAIN e =>
    LET n == Len(e.names)
        cs == SP!Contents(e.s, e.names, e.prot)
    IN /\ (e.res.err = "" => Len(e.dlg.files) = n)
       /\ \A k \in 1 .. Len(e.dlg.files) :
             LET f == e.dlg.files[k]
                 d == e.pre[e.names[k]]
             IN /\ f[1] = k /\ f[2] = n
                /\ IF d = SP!Absent THEN f[3] = 0 /\ f[4] = 0 /\ f[5] = 0
                   ELSE /\ f[3] = Len(d)
                        /\ << f[4], f[5] >> = SP!ScanStats(e.s, cs, d)
       /\ e.dlg.wpaths = e.res.repaired
       /\ \A k \in 1 .. Len(e.dlg.writes) :
             /\ e.dlg.writes[k][2] = n /\ e.dlg.writes[k][4] = 0
             /\ e.names[e.dlg.writes[k][1]] = e.dlg.wpaths[k]
             /\ (k > 1 => e.dlg.writes[k - 1][1] < e.dlg.writes[k][1])

Init == l = 1
Next == /\ l <= Len(Trace)
        /\ LET e == Trace[l] IN
             IsOp(e) =>
               /\ \A c \in Failed(e) : PrintT("VERDICT " \o ToJson([i |-> l, clause |-> c]))
               /\ (Drift(e) => PrintT("DRIFT " \o ToJson([i |-> l, kind |-> "result"])))
               /\ (~DelegateConforms(e) => PrintT("DRIFT " \o ToJson([i |-> l, kind |-> "delegate"])))
        /\ l' = l + 1

AllJudged == /\ PrintT("JUDGED " \o ToJson([n |-> TLCGet("stats").diameter - 1]))
             /\ TLCGet("stats").diameter - 1 = Len(Trace)
=============================================================================
