------------------------------- MODULE MC_C15 -------------------------------
(***************************************************************************)
(* Design-level check for C15: for every name up to MaxLen components over *)
(* the component alphabet, with and without leading / trailing separator:  *)
(*   PAR2 rule accepts  => the name is Contained                           *)
(*   PAR1 rule accepts  => Contained, or it resolves to the directory or   *)
(*                         its parent (an existing directory: reading it   *)
(*                         fails before anything is written)               *)
(* Every name is emitted for the real Verify / Repair in a canary tree.    *)
(***************************************************************************)
EXTENDS Integers, Sequences, FiniteSets, TLC, Json
CONSTANTS MaxLen, Alphabet
INSTANCE PathSafety
VARIABLE n
Init == n = << FALSE, << "root" >>, FALSE >>
Names == UNION {[1 .. k -> Alphabet] : k \in 0 .. MaxLen}
Next == /\ n[2] = << "root" >>
        /\ \E lead \in BOOLEAN, trail \in BOOLEAN, comps \in Names : n' = << lead, comps, trail >>
IsName == n[2] # << "root" >>
C15_Par2RuleSafe == IsName => (AcceptPar2(n) => Contained(n))
C15_Par1RuleSafe == IsName => (AcceptPar1(n) => (Contained(n) \/ ResolvesToDirectory(n)))
Emit == IF n'[2] # << "root" >>
        THEN PrintT("NAME " \o ToJson([lead |-> n'[1], comps |-> n'[2], trail |-> n'[3], accept2 |-> AcceptPar2(n'), accept1 |-> AcceptPar1(n'),
                                      contained |-> Contained(n')]))
        ELSE TRUE
=============================================================================
