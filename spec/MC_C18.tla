------------------------------- MODULE MC_C18 -------------------------------
(***************************************************************************)
(* Design-level check for C18: for every operation shape (format, op,      *)
(* files read, volumes read, files to write, volumes to create up to the   *)
(* bounds) and every fault (call index x kind), singly and followed by a   *)
(* second faulted run and a clean run:                                     *)
(*   - a fault within the sequence makes the run report an error           *)
(*   - the writes that completed are exactly those before the fault        *)
(*   - only a failing WRITE can tear a file, and only the one being        *)
(*     written                                                             *)
(*   - a read or listing fault changes nothing at all                      *)
(* The shapes and faults are emitted for the harness's injecting file      *)
(* system; the recorded call logs are validated against Calls() by the     *)
(* trace judge.                                                            *)
(***************************************************************************)
EXTENDS Integers, Sequences, FiniteSets, TLC, Json
INSTANCE IOFaults
CONSTANTS MaxN, MaxM, MaxW

VARIABLE c
Init == c = [kind |-> "root"]
Next == /\ c.kind = "root"
        /\ \E fmt \in {"par1", "par2"}, op \in {"create", "verify", "repair"}, n \in 1 .. MaxN, m \in 0 .. MaxM, w \in 0 .. MaxW,
              fk \in {"err", "partial"} :
             LET full == Calls(fmt, op, n, m, IF op = "repair" THEN w ELSE 0, IF op = "create" THEN m ELSE 0) IN
             \E k \in 0 .. Len(full) :
                /\ (op # "repair" => w = 0) /\ w <= n
                /\ (fk = "partial" => (k > 0 /\ full[k] = "write"))
                /\ c' = [kind |-> "case", fmt |-> fmt, op |-> op, n |-> n, m |-> m, w |-> w, k |-> k, fk |-> fk, full |-> full]

IsCase == c.kind = "case"
R == Run(c.full, c.k, c.fk)
C18_FaultIsReported == IsCase => (R.err <=> c.k > 0)
C18_WritesBeforeFaultOnly == IsCase => R.done = Len(SelectSeq(SubSeq(c.full, 1, IF c.k = 0 THEN Len(c.full) ELSE c.k - 1), LAMBDA x : x = "write"))
C18_OnlyWritesTear == IsCase => (R.torn => (c.k > 0 /\ c.full[c.k] = "write" /\ c.fk = "partial"))
C18_ReadFaultChangesNothingMore == (IsCase /\ c.k > 0 /\ c.full[c.k] # "write") => ~R.torn
C18_ObservedIsPrefix == IsCase => (IsPrefix(R.calls, c.full) /\ ObservedOK(R.calls, c.full, c.k))
=============================================================================
