------------------------------ MODULE RSCoder ------------------------------
(***************************************************************************)
(* The Reed-Solomon erasure coder of rsec16 over GF(2^16)/0x1100B.         *)
(*                                                                         *)
(* TRUTH LAYER:                                                            *)
(*   CauchyEntry(d, i, j)  = 1 / ((d + i) + j)      parity row i, column j *)
(*   VandEntry(i, j)       = Const(j)^i             (PAR2 specification)   *)
(*   ParityOf(P, data)     = P * data  (shards as rows of field elements)  *)
(*   Solvable(P, rows, missing) <=> Det(P[rows][missing]) # 0              *)
(* ALGORITHM LAYER: ReconstructData as in rsec16/coder.go: the missing     *)
(*   data rows, the lowest-numbered available parity rows (exactly as many *)
(*   as rows are missing), M = P[used][missing], N = [P[used][available] | *)
(*   I], row reduction [M | N] -> M^-1 N (Matrix!RowReduce, the            *)
(*   transcription of gopar's algorithm), applied to the input shards.     *)
(* Needs the GF16 tables (and the constant table for Vandermonde) set up   *)
(* by the root module.                                                     *)
(***************************************************************************)
EXTENDS Integers, Sequences, FiniteSets, TLC

PC == INSTANCE Par2Const
GF16 == INSTANCE GF WITH W <- 16, Poly <- 69643, Gen <- 2, Reg <- 10
M16 == INSTANCE Matrix WITH MulOp <- GF16!FastMul, InvOp <- GF16!FastInv, AddOp <- GF16!Add

CauchyEntry(d, i, j) == GF16!FastInv(GF16!Add(d + i, j))      \* i, j from 0; d + i # j always
VandEntry(i, j) == PC!EntryT(i, j)

\* parity matrix p x d (rows/columns from 1 in the sequences, from 0 in the entries)
ParityMatrix(coder, d, p) ==
  [i \in 1 .. p |-> [j \in 1 .. d |->
      IF coder = "cauchy" THEN CauchyEntry(d, i - 1, j - 1) ELSE VandEntry(i - 1, j - 1)]]

MinOf(Sx) == CHOOSE x \in Sx : \A y \in Sx : x <= y
RECURSIVE SortedSeq(_)
SortedSeq(Sx) == IF Sx = {} THEN << >> ELSE LET m == MinOf(Sx) IN << m >> \o SortedSeq(Sx \ {m})

\* the sub-matrix of P with the given rows and columns (sequences of 1-based indices)
Sub(P, rows, cols) == [r \in 1 .. Len(rows) |-> [c \in 1 .. Len(cols) |-> P[rows[r]][cols[c]]]]

(**************************** ALGORITHM LAYER ******************************)
\* availD, availP: sets of 1-based indices of the data / parity shards that are present
Reconstruct(coder, d, p, availD, availP, shards, parity) ==
  LET avail   == SortedSeq(availD)
      missing == SortedSeq((1 .. d) \ availD)
      k       == Len(missing)
      P       == ParityMatrix(coder, d, p)
  IN IF k = 0 THEN [err |-> "", data |-> shards]
     ELSE IF Cardinality(availP) < k THEN [err |-> "notenough"]
     ELSE LET used == SubSeq(SortedSeq(availP), 1, k)
              M    == Sub(P, used, missing)
              N    == [r \in 1 .. k |-> [c \in 1 .. d |->
                          IF c <= Len(avail) THEN P[used[r]][avail[c]]
                          ELSE IF r = c - Len(avail) THEN 1 ELSE 0]]
              rr   == M16!RowReduce(M, N)
          IN IF rr.err THEN [err |-> "singular"]
             ELSE LET input == [c \in 1 .. d |-> IF c <= Len(avail) THEN shards[avail[c]] ELSE parity[used[c - Len(avail)]]]
                      rec   == M16!Times(rr.n, input)
                  IN [err |-> "",
                      data |-> [i \in 1 .. d |-> IF i \in availD THEN shards[i]
                                                  ELSE rec[CHOOSE r \in 1 .. k : missing[r] = i]]]

(**************************** TRUTH LAYER **********************************)
\* the system the decoder has to solve is solvable
Solvable(coder, d, p, availD, availP) ==
  LET missing == SortedSeq((1 .. d) \ availD)
      k == Len(missing)
  IN k = 0 \/ (Cardinality(availP) >= k /\
               ~M16!Singular(Sub(ParityMatrix(coder, d, p), SubSeq(SortedSeq(availP), 1, k), missing)))
=============================================================================
