----------------------------- MODULE Trace_C15 -----------------------------
(***************************************************************************)
(* Trace judge for C15: real Verify / Repair (and PAR2 Create) runs inside *)
(* a canary tree.  The harness snapshots the whole tree around each run    *)
(* and reports every path created, modified or deleted outside the         *)
(* archive's directory tree (PAR1: outside the directory itself).  The     *)
(* property: that set is empty, whatever the declared name.                *)
(***************************************************************************)
EXTENDS Integers, Sequences, FiniteSets, TLC, Json
ASSUME TLCSet(1, ndJsonDeserialize("trace.ndjson"))
Trace == TLCGet(1)
VARIABLE l
Verdicts(e) ==
  (IF e.outside = << >> THEN {} ELSE {"C15.nothing_touched_outside"})
  \cup (IF e.ev = "create" => (e.is_outside => e.refused) THEN {} ELSE {"C15.create_refuses_outside_files"})
  \cup (IF e.ev = "create" => (e.refused => e.nothing_written) THEN {} ELSE {"C15.refused_create_writes_nothing"})
  \cup (IF ~e.crashed THEN {} ELSE {"C13.no_panic"})
Init == l = 1
Next == /\ l <= Len(Trace)
        /\ \A v \in Verdicts(Trace[l]) : PrintT("VERDICT " \o ToJson([i |-> l, clause |-> v]))
        /\ l' = l + 1
AllJudged == /\ PrintT("JUDGED " \o ToJson([n |-> TLCGet("stats").diameter - 1]))
             /\ TLCGet("stats").diameter - 1 = Len(Trace)
=============================================================================
