--------------------------------- MODULE Cli ---------------------------------
(***************************************************************************)
(* TRUTH LAYER for the par command: the admissible exit statuses as a      *)
(* function of what was asked and what is really on disk.                  *)
(*                                                                         *)
(* A case c has                                                            *)
(*   usage   : "none" | "help" | "nocommand" | "badcommand" | "badflag" |  *)
(*             "nooperand" (usage errors are decided before anything else) *)
(*   ext     : "par" | "par2" | "unknown"                                  *)
(*   cmd     : "create" | "verify" | "repair"                              *)
(*   index_ok: the index file exists and is intact                         *)
(*   inputs_ok (create): the input files exist                             *)
(*   needed  : some protected file is missing or differs from the          *)
(*             protected content (ground truth)                            *)
(*   possible: what is missing can be reconstructed from what survives     *)
(*             (ground truth: unusable slices/files <= usable recovery     *)
(*             blocks/volumes)                                             *)
(*   iofail  : an I/O call of the operation fails (e.g. a write into a     *)
(*             directory that no longer exists)                            *)
(* 0 only when the operation fully succeeded; verify 1 / 2; repair 2 when  *)
(* needed but impossible; usage errors 3; every other failure another      *)
(* non-zero status (not 0, and not one of the statuses with a meaning of   *)
(* their own: 1, 2, 3).                                                    *)
(***************************************************************************)
EXTENDS Integers

Other == 4 .. 255

Admissible(c) ==
  IF c.usage = "help" THEN {0, 3}        \* -h without a command: usage is printed; the property does not fix the status
  ELSE IF c.usage # "none" THEN {3}
  ELSE IF c.ext = "unknown" THEN Other
  ELSE IF c.cmd = "create" THEN (IF c.inputs_ok THEN {0} ELSE Other)
  ELSE IF ~c.index_ok THEN Other
  ELSE IF c.iofail THEN Other          \* an I/O failure during the operation: "every other failure"
  ELSE IF c.cmd = "verify" THEN (IF ~c.needed THEN {0} ELSE IF c.possible THEN {1} ELSE {2})
  ELSE (IF ~c.needed THEN {0} ELSE IF c.possible THEN {0} ELSE {2})

\* what must be true on disk after the command, given its exit status
PostOK(c, status, post) ==
  /\ (c.usage = "none" /\ c.cmd = "repair" /\ status = 0) => post.all_intact
  /\ (c.usage = "none" /\ c.cmd = "create" /\ status = 0) => post.set_written
  /\ (c.usage = "none" /\ c.cmd = "verify") => post.unchanged
  /\ (c.usage # "none") => post.unchanged
=============================================================================
