---------------------- MODULE Trace_Par1EncoderObject ----------------------
(***************************************************************************)
(* Trace validation for the EXTENSION X04 (spec/Par1EncoderObject.tla):    *)
(* recorded call sequences on the real, exported par1.Encoder object are   *)
(* replayed through the actions of the model.  After every Write the       *)
(* harness projects the set found on disk onto the abstract archive state  *)
(* with the independent PAR1 reference writer: desc_ver = the recorded     *)
(* input version whose file list the index volume holds, par_ver = the     *)
(* version whose reference parity (independent GF(2^8)) the volumes hold   *)
(* (-1: none), nvol = the number of parity volume files found.             *)
(* X04.conf.. : outcome and projected archive equal the model's prediction *)
(*              (refinement, deviations included);                         *)
(* X04.truth..: the E1_ clauses on the recorded values.                    *)
(***************************************************************************)
EXTENDS Integers, Sequences, FiniteSets, TLC, Json

ASSUME TLCSet(1, ndJsonDeserialize("trace.ndjson"))
Trace == TLCGet(1)

VARIABLES ver, enc, arch, last, act, l
EO == INSTANCE Par1EncoderObject WITH MaxVersion <- 1000000, R <- 2

V(i, c) == PrintT("VERDICT " \o ToJson([i |-> i, clause |-> c]))
Chk(i, c, ok) == (~ok) => V(i, c)

Init == EO!EInit /\ l = 1

Quiet(e) == /\ Chk(l, "X04.truth.inputs_never_modified", e.inputs_unchanged)
            /\ Chk(l, "X04.truth.nothing_else_touched", e.outside = << >>)

ObsArch(e) == [desc |-> e.desc_ver, par |-> e.par_ver, nvol |-> e.nvol]

Step(e) ==
  CASE e.ev = "reset" ->
         /\ ver' = 1 /\ enc' = EO!NoEnc /\ arch' = EO!NoArch /\ last' = "" /\ act' = "reset"
    [] e.ev = "modify" ->
         /\ ver' = ver + 1 /\ UNCHANGED << enc, arch >> /\ last' = "" /\ act' = "modify"
         /\ Chk(l, "X04.driver.version_recorded", e.ver = ver + 1)
    [] e.ev = "new" ->
         /\ Quiet(e)
         /\ Chk(l, "X04.conf.new", e.out = "ok")
         /\ enc' = IF e.out = "ok" THEN [alive |-> TRUE, snap |-> EO!None, psnap |-> EO!None] ELSE enc
         /\ UNCHANGED << ver, arch >> /\ last' = e.out /\ act' = "new"
    [] e.ev = "load" ->
         /\ Quiet(e)
         /\ Chk(l, "X04.conf.load", e.out = "ok")
         /\ enc' = IF e.out = "ok" THEN [enc EXCEPT !.snap = ver] ELSE enc
         /\ UNCHANGED << ver, arch >> /\ last' = e.out /\ act' = "load"
    [] e.ev = "compute" ->
         LET predicted == IF enc.snap = EO!None THEN "error" ELSE "ok" IN
         /\ Quiet(e)
         /\ Chk(l, "X04.conf.compute", e.out = predicted)
         /\ Chk(l, "X04.truth.too_early_never_ok", enc.snap = EO!None => e.out # "ok")
         /\ enc' = IF e.out = "ok" THEN [enc EXCEPT !.psnap = enc.snap] ELSE enc
         /\ UNCHANGED << ver, arch >> /\ last' = e.out /\ act' = "compute"
    [] e.ev = "write" ->
         LET w == EO!WriteFn(enc, EO!NoArch)       \* the driver gives every Write a fresh output location
             o == ObsArch(e)
         IN
         /\ Quiet(e)
         /\ Chk(l, "X04.conf.write_outcome", e.out = w.out)
         /\ Chk(l, "X04.conf.write_archive",
                IF w.out = "panic" THEN ~e.index_present /\ o.nvol = 0
                ELSE e.index_present /\ o = w.arch)
         /\ Chk(l, "X04.truth.ok_write_describes_snapshot", e.out = "ok" => (o.desc = enc.snap /\ enc.snap # EO!None))
         /\ Chk(l, "X04.truth.pipeline_complete", (e.out = "ok" /\ enc.psnap = enc.snap) => EO!Complete(o))
         /\ Chk(l, "X04.truth.incomplete_only_by_named_deviation",
                (e.out = "ok" /\ ~EO!Complete(o)) => (enc.psnap = EO!None \/ enc.psnap # enc.snap))
         /\ Chk(l, "X04.truth.too_early_never_ok", enc.snap = EO!None => (e.out # "ok" /\ ~e.index_present))
         /\ arch' = o /\ UNCHANGED << ver, enc >> /\ last' = e.out /\ act' = "write"

Next == l <= Len(Trace) /\ Step(Trace[l]) /\ l' = l + 1

AllJudged == /\ PrintT("JUDGED " \o ToJson([n |-> TLCGet("stats").diameter - 1]))
             /\ TLCGet("stats").diameter - 1 = Len(Trace)
=============================================================================
