-------------------------- MODULE MC_ParallelGrid --------------------------
(***************************************************************************)
(* P1 for every (len, g) of a grid: every state is one pair; the invariant *)
(* is StaticOK(len, g).  Two-level generation so that workers share it.    *)
(***************************************************************************)
EXTENDS Integers, TLC
CONSTANTS MaxLen, MaxG
P == INSTANCE Parallel WITH NBytes <- 2, G <- 1, Rows <- 1, Ins <- 1,
                            prog <- 0, fin <- 0, joined <- 0, out <- 0, acc <- 0
VARIABLES len, g
Init == len = 0 /\ g = 0
Next == \/ /\ len = 0 /\ len' \in {2 * k : k \in 1 .. (MaxLen \div 2)} /\ g' = 0
        \/ /\ len # 0 /\ g = 0 /\ g' \in 1 .. MaxG /\ len' = len
GridStatic == (len # 0 /\ g # 0) => (P!StaticOK(len, g) /\ P!ProofHypotheses(len, g))
=============================================================================
