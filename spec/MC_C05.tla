------------------------------- MODULE MC_C05 -------------------------------
(***************************************************************************)
(* Design-level model for C05 / C17: the shape of what Create writes.      *)
(*   - the volume layout (recovery files of 1, 2, 4, ... blocks, the last  *)
(*     one clamped) carries blocks 0..R-1 exactly once, for every R        *)
(*   - the specification's constants: 32768 of them, all distinct, the     *)
(*     first eight as published; 2 has order 65535                         *)
(* and the enumeration of small input shapes ("SHAPE ...") that the        *)
(* harness feeds to the real par2.Create.                                  *)
(***************************************************************************)
EXTENDS Integers, Sequences, FiniteSets, TLC, Json
CONSTANTS MaxR, ShapeRs, ShapeSs

PC == INSTANCE Par2Const
GF16 == INSTANCE GF WITH W <- 16, Poly <- 69643, Gen <- 2, Reg <- 10
ASSUME GF16!InitTablesp(0) /\ GF16!TablesOKp(0)
ASSUME PC!InitConstTab(0)
ASSUME Len(TLCGet(11)) = 32768
ASSUME SubSeq(TLCGet(11), 1, 8) = << 2, 4, 16, 128, 256, 2048, 8192, 16384 >>
ASSUME Cardinality({TLCGet(11)[i] : i \in 1 .. 32768}) = 32768
\* every constant has order 65535: c^65535 = 1 and c^(65535/q) # 1 for the prime factors q
ASSUME \A i \in 1 .. 32768 : LET c == TLCGet(11)[i] IN
          /\ GF16!FastPow(c, 65535) = 1
          /\ \A q \in {3, 5, 17, 257} : GF16!FastPow(c, 65535 \div q) # 1

\* the volume layout as a sequence of << first exponent, count >>
RECURSIVE LayoutR(_, _, _)
LayoutR(r, i, cnt) == IF i >= r THEN << >>
                      ELSE LET c == IF i + cnt > r THEN r - i ELSE cnt
                           IN << << i, c >> >> \o LayoutR(r, i + c, c * 2)
Layout(r) == LayoutR(r, 0, 1)
ExpsOf(v) == v[1] .. (v[1] + v[2] - 1)

VARIABLES kind, r, shape
Init == kind = "root" /\ r = 0 /\ shape = << >>

\* shapes: 1..3 files; sizes relative to the slice size; names with and without sub-directories
SizeClasses(s) == {1, s - 1, s, s + 1, 2 * s + 1}
NamesFor(n) == IF n = 1 THEN << "a.dat" >> ELSE IF n = 2 THEN << "a.dat", "sub/b.bin" >> ELSE << "a.dat", "sub/b.bin", "sub/deep/c" >>

Next == \/ /\ kind = "root" /\ kind' = "layout" /\ r' \in 1 .. MaxR /\ shape' = << >>
        \/ /\ kind = "root" /\ kind' = "shape" /\ r' \in ShapeRs
           /\ \E s \in ShapeSs : \E n \in 1 .. 3 : \E sizes \in [1 .. n -> SizeClasses(s)] :
                 shape' = [s |-> s, names |-> NamesFor(n), sizes |-> sizes]

C05_LayoutExactlyOnce ==
  kind = "layout" =>
     LET L == Layout(r) IN
     /\ UNION {ExpsOf(L[k]) : k \in 1 .. Len(L)} = 0 .. (r - 1)
     /\ \A a, b \in 1 .. Len(L) : a # b => ExpsOf(L[a]) \cap ExpsOf(L[b]) = {}
     /\ \A k \in 1 .. Len(L) : L[k][2] >= 1

Emit ==
  IF kind' = "shape"
  THEN PrintT("SHAPE " \o ToJson([s |-> shape'.s, r |-> r', names |-> shape'.names, sizes |-> shape'.sizes,
                                   layout |-> Layout(r')]))
  ELSE TRUE
=============================================================================
