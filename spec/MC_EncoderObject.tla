-------------------------- MODULE MC_EncoderObject --------------------------
(* Bounded instance of Par2EncoderObject (extension X02). *)
EXTENDS Par2EncoderObject
=============================================================================
