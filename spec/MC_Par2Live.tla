---------------------------- MODULE MC_Par2Live ----------------------------
(***************************************************************************)
(* C14 as a temporal property (liveness), on a bounded instance of the     *)
(* PAR2 directory state machine.                                           *)
(*                                                                         *)
(* "Repeated attempts as more recovery files arrive converge to the        *)
(* original data": once the environment stops damaging things (frozen)     *)
(* in a state whose recovery files suffice and whose system is not the     *)
(* format's singular combination, weak fairness of Repair alone leads to   *)
(* a state in which every protected file is intact, and it stays so.       *)
(* `frozen` is a history variable that disables the environment's actions; *)
(* Freeze may happen at any time, so every finite damage history is a      *)
(* prefix of some frozen behaviour.                                        *)
(***************************************************************************)
EXTENDS Par2Instances

VARIABLES disk, vols, last, act, frozen
INSTANCE Par2Archive

ASSUME GF16!InitTablesp(0)

lvars == << disk, vols, last, act, frozen >>

WithinCapacity == Scan!NTotal - Cardinality(Scan!Found(disk)) <= Cardinality(Exps(vols))
Solvable == ~SingularFor(Exps(vols), Scan!Pos \ Scan!Found(disk))

LInit == Init /\ frozen = FALSE
Env == /\ ~frozen
       /\ \/ \E f \in NameSet : \E v \in Menu[f] : SetFile(f, v)
          \/ \E v \in VolIds : DelVol(v) \/ AddVol(v)
       /\ UNCHANGED frozen
Freeze == ~frozen /\ frozen' = TRUE /\ UNCHANGED << disk, vols, last, act >>
Ops == (Verify \/ Repair(FALSE) \/ Repair(TRUE)) /\ UNCHANGED frozen
LNext == Env \/ Freeze \/ Ops
\* fairness of Repair only: nobody is obliged to run Verify, and the environment is never obliged to do anything
LSpec == LInit /\ [][LNext]_lvars /\ WF_lvars(Repair(FALSE) /\ UNCHANGED frozen)

\* the same machine without fairness: Converges must FAIL on it (non-vacuity of the liveness check; MC_Par2Live_nofair.cfg)
LSpecNoFair == LInit /\ [][LNext]_lvars

\* frozen within capacity (and not the singular combination)  ~>  everything intact, for good
Converges == (frozen /\ WithinCapacity /\ Solvable) ~> [](AllIntact(disk))
\* safety companion: after the freeze the damage never grows
NeverWorse == [][frozen => \A f \in NameSet : disk'[f] = disk[f] \/ disk'[f] = Prot[f]]_lvars
=============================================================================
