INIT Init
NEXT Next
CHECK_DEADLOCK FALSE
ACTION_CONSTRAINT Emit
INVARIANT C13_ResultsAreTruthful C13_ResultNeedsIntactIndex
