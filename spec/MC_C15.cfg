CONSTANT MaxLen = 3
CONSTANT Alphabet = {"x", "y", "..", ".", "", "..x", "x..", "...", "x\\..\\..\\e", "x/.."}
INIT Init
NEXT Next
CHECK_DEADLOCK FALSE
ACTION_CONSTRAINT Emit
INVARIANT C15_Par2RuleSafe C15_Par1RuleSafe
