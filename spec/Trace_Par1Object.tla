-------------------------- MODULE Trace_Par1Object --------------------------
(***************************************************************************)
(* Trace validation for the EXTENSION X03 (spec/Par1Object.tla): recorded  *)
(* call sequences on the real, exported par1.Decoder object - methods in   *)
(* any order, any number of times, the directory changing in between -     *)
(* are replayed through the actions of Par1Object.  One event = one call   *)
(* (logged at its return) or one directory change made by the driver.      *)
(*                                                                         *)
(* For every event the judge takes the step the ALGORITHM LAYER predicts   *)
(* from the current abstract state (directory + the object's snapshots),   *)
(* compares the prediction with what the call returned and with the        *)
(* directory found afterwards (clauses X03.conf...: refinement), evaluates *)
(* the TRUTH LAYER clauses OT1_ on the recorded values (X03.truth...),      *)
(* and continues from the predicted object state and the RECORDED          *)
(* directory, so that one rejection does not hide the rest.                *)
(***************************************************************************)
EXTENDS Integers, Sequences, FiniteSets, TLC, Json

Inst0 == ndJsonDeserialize("instance.ndjson")[1]
TrNames == Inst0.names
TrProt == Inst0.prot
TrNVols == Inst0.nvols
TrMenu == [f \in {TrNames[i] : i \in 1 .. Len(TrNames)} |-> {}]

ASSUME TLCSet(1, ndJsonDeserialize("trace.ndjson"))
Trace == TLCGet(1)

VARIABLES disk, vols, last, act, dec, l
PO == INSTANCE Par1Object WITH Names <- TrNames, Prot <- TrProt, NVols <- TrNVols, Menu <- TrMenu

ASSUME PO!GF8!InitTablesp(0)

V(i, c) == PrintT("VERDICT " \o ToJson([i |-> i, clause |-> c]))
Chk(i, c, ok) == (~ok) => V(i, c)

ToSetOf(s) == {s[k] : k \in 1 .. Len(s)}
RecDisk(e) == [f \in PO!NameSet |-> e.post[f]]
RecVols(e) == ToSetOf(e.postvols)

Init == /\ disk = [f \in PO!NameSet |-> TrProt[f]] /\ vols = PO!VolIds
        /\ last = PO!NoResult /\ act = "create" /\ dec = PO!NoObj /\ l = 1

EnvStep(e) ==
  /\ disk' = RecDisk(e) /\ vols' = RecVols(e)
  /\ dec' = IF e.ev = "reset" THEN PO!NoObj ELSE dec
  /\ last' = PO!NoResult /\ act' = e.ev
  /\ Chk(l, "X03.driver.set_recorded", e.ev = "set" => RecDisk(e)[e.f] = e.v)
  /\ Chk(l, "X03.driver.vol_recorded", (e.ev = "delvol" => e.vol \notin RecVols(e)) /\ (e.ev = "addvol" => e.vol \in RecVols(e)))

Common(e) ==
  /\ Chk(l, "X03.truth.no_panic", e.err # "panic")
  /\ Chk(l, "X03.truth.nothing_else_touched", e.outside = << >>)
  /\ Chk(l, "X03.truth.volumes_untouched", RecVols(e) = vols)

ReadOnly(e) == Chk(l, "X03.truth.only_repair_writes", RecDisk(e) = disk)

NewStep(e) ==
  /\ Common(e) /\ ReadOnly(e)
  /\ Chk(l, "X03.conf.new_succeeds", e.err = "")
  /\ dec' = IF e.err = "" THEN [alive |-> TRUE, data |-> PO!NoData, par |-> PO!NoPar] ELSE dec
  /\ disk' = RecDisk(e) /\ vols' = RecVols(e) /\ last' = [op |-> "new", err |-> e.err] /\ act' = "new"

LoadFileStep(e) ==
  /\ Common(e) /\ ReadOnly(e)
  /\ Chk(l, "X03.conf.loadfile_succeeds", e.err = "")
  /\ dec' = IF e.err = "" THEN [dec EXCEPT !.data = [loaded |-> TRUE, bad |-> PO!BadSet(disk), at |-> disk, repaired |-> FALSE]] ELSE dec
  /\ disk' = RecDisk(e) /\ vols' = RecVols(e) /\ last' = [op |-> "loadfile", err |-> e.err] /\ act' = "loadfile"

LoadParityStep(e) ==
  /\ Common(e) /\ ReadOnly(e)
  /\ Chk(l, "X03.conf.loadparity_succeeds", e.err = "")
  /\ dec' = IF e.err = "" THEN [dec EXCEPT !.par = [loaded |-> TRUE, vs |-> vols, at |-> vols]] ELSE dec
  /\ disk' = RecDisk(e) /\ vols' = RecVols(e) /\ last' = [op |-> "loadparity", err |-> e.err] /\ act' = "loadparity"

CountsStep(e) ==
  LET m == PO!CountsOf(dec) IN
  /\ Common(e) /\ ReadOnly(e)
  /\ Chk(l, "X03.conf.counts", e.usable = m.usable /\ e.unusable = m.unusable /\ e.pusable = m.pusable /\ e.punusable = m.punusable)
  /\ Chk(l, "X03.truth.counts_truthful_at_load",
         /\ ((dec.data.loaded /\ ~dec.data.repaired) => e.unusable = Cardinality(PO!BadSet(dec.data.at)))
         /\ ((dec.data.loaded /\ dec.data.repaired) => e.unusable = 0)
         /\ (dec.data.loaded => e.usable + e.unusable = PO!NFiles)
         /\ e.pusable = (IF dec.par.loaded THEN Cardinality(dec.par.at) ELSE 0))
  /\ Chk(l, "X03.truth.nothing_loaded_nothing_counted",
         (~dec.data.loaded => e.usable = 0 /\ e.unusable = 0) /\ (~dec.par.loaded => e.pusable = 0 /\ e.punusable = 0))
  /\ UNCHANGED dec
  /\ disk' = RecDisk(e) /\ vols' = RecVols(e) /\ last' = m /\ act' = "counts"

VerifyAllStep(e) ==
  LET m == PO!VerifyAllOf(dec) IN
  /\ Common(e) /\ ReadOnly(e)
  /\ Chk(l, "X03.conf.verifyall", (e.err = "") = (m.err = "") /\ e.ok = m.ok)
  /\ Chk(l, "X03.truth.verifyall_ok_means_intact_snapshot",
         (e.err = "" /\ e.ok) =>
            /\ dec.data.loaded /\ dec.par.loaded
            /\ (dec.data.repaired \/ PO!BadSet(dec.data.at) = {})
            /\ PO!Gapless(dec.par.at))
  /\ Chk(l, "X03.truth.verifyall_no_false_negative", e.err = "" => e.ok)
  /\ UNCHANGED dec
  /\ disk' = RecDisk(e) /\ vols' = RecVols(e) /\ last' = m /\ act' = "verifyall"

RepairStep(e) ==
  LET m   == PO!ObjRepairFn(dec, disk)
      rd  == RecDisk(e)
      rep == ToSetOf(e.repaired)
      b0  == PO!BadSet(dec.data.at)
  IN
  /\ Common(e)
  /\ Chk(l, "X03.conf.repair_outcome", e.err = m.res.err)
  /\ Chk(l, "X03.conf.repair_list", e.repaired = m.res.repaired)
  /\ Chk(l, "X03.conf.repair_directory", rd = m.disk)
  /\ Chk(l, "X03.truth.writes_only_originals_and_lists_them",
         \A f \in PO!NameSet : rd[f] # disk[f] => (rd[f] = TrProt[f] /\ f \in rep))
  /\ Chk(l, "X03.truth.listed_means_restored", \A f \in rep : f \in PO!NameSet /\ rd[f] = TrProt[f])
  /\ Chk(l, "X03.truth.too_early_writes_nothing", ~dec.data.loaded => (rd = disk /\ e.repaired = << >>))
  /\ Chk(l, "X03.truth.failure_writes_nothing", e.err # "" => rd = disk)
  /\ Chk(l, "X03.truth.within_snapshot_capacity",
         (dec.data.loaded /\ ~dec.data.repaired /\ Cardinality(b0) <= Cardinality(dec.par.vs)) =>
               \/ (e.err = "" /\ \A f \in b0 : rd[f] = TrProt[f])
               \/ (e.err = "singular" /\ PO!SingularFor(dec.par.vs, b0)))
  /\ dec' = IF e.err = m.res.err THEN m.dec ELSE dec
  /\ disk' = rd /\ vols' = RecVols(e) /\ last' = m.res /\ act' = IF e.dc THEN "repairdc" ELSE "repair"

Next == /\ l <= Len(Trace)
        /\ LET e == Trace[l] IN
             CASE e.ev \in {"reset", "set", "delvol", "addvol"} -> EnvStep(e)
               [] e.ev = "new" -> NewStep(e)
               [] e.ev = "loadfile" -> LoadFileStep(e)
               [] e.ev = "loadparity" -> LoadParityStep(e)
               [] e.ev = "counts" -> CountsStep(e)
               [] e.ev = "verifyall" -> VerifyAllStep(e)
               [] e.ev = "repair" -> RepairStep(e)
        /\ l' = l + 1

AllJudged == /\ PrintT("JUDGED " \o ToJson([n |-> TLCGet("stats").diameter - 1]))
             /\ TLCGet("stats").diameter - 1 = Len(Trace)
=============================================================================
