------------------------------- MODULE MC_C07 -------------------------------
(***************************************************************************)
(* Design-level model checking for C07 (never reads /repo): for every      *)
(* (d, p) up to the bounds and every availability pattern of data and      *)
(* parity shards, with the data shards being the unit vectors (linearity   *)
(* makes this complete for all data):                                      *)
(*   Cauchy:      every pattern within capability is reconstructed exactly *)
(*   Vandermonde: reconstructed exactly iff the system of the lowest-      *)
(*                numbered available parity rows is non-singular, else     *)
(*                "singular"                                               *)
(*   too few parity shards -> "notenough"; nothing missing -> unchanged    *)
(* and emits every case for replay on the real rsec16.                     *)
(***************************************************************************)
EXTENDS Integers, Sequences, FiniteSets, TLC, Json
CONSTANTS MaxD, MaxP

INSTANCE RSCoder

ASSUME GF16!InitTablesp(0) /\ GF16!TablesOKp(0)
ASSUME PC!InitConstTab(0)
\* facts of the PAR2 specification about its constants
ASSUME Len(TLCGet(11)) = 32768
ASSUME SubSeq(TLCGet(11), 1, 8) = << 2, 4, 16, 128, 256, 2048, 8192, 16384 >>
ASSUME Cardinality({TLCGet(11)[i] : i \in 1 .. 32768}) = 32768
ASSUME \A i \in {0, 1, 2, 57, 129, 1000} : PC!ConstT(i) = PC!Const(i)

\* the flaw of the PAR2 construction, once: the constants of slices 1 and 129 agree in their 255th
\* power, so recovery blocks 0 and 255 cannot restore those two slices
ASSUME M16!Singular(<< << VandEntry(0, 1), VandEntry(0, 129) >>, << VandEntry(255, 1), VandEntry(255, 129) >> >>)
ASSUME ~M16!Singular(<< << VandEntry(0, 1), VandEntry(0, 128) >>, << VandEntry(255, 1), VandEntry(255, 128) >> >>)

VARIABLES coder, d, p, availD, availP
vars == << coder, d, p, availD, availP >>

Init == coder = "root" /\ d = 0 /\ p = 0 /\ availD = {} /\ availP = {}
Next == \/ /\ coder = "root"
           /\ coder' \in {"cauchy", "vandermonde"} /\ d' \in 1 .. MaxD /\ p' \in 1 .. MaxP
           /\ availD' = {-1} /\ availP' = {-1}
        \/ /\ coder # "root" /\ availD = {-1}
           /\ availD' \in SUBSET (1 .. d) /\ availP' \in SUBSET (1 .. p)
           /\ UNCHANGED << coder, d, p >>

IsCase == coder # "root" /\ availD # {-1}
Unit(i) == [j \in 1 .. d |-> IF i = j THEN 1 ELSE 0]
Shards == [i \in 1 .. d |-> Unit(i)]
Parity == M16!Times(ParityMatrix(coder, d, p), Shards)
Res == Reconstruct(coder, d, p, availD, availP, Shards, Parity)
KMissing == d - Cardinality(availD)

\* the clauses, over one evaluation r of the algorithm layer and s of the truth layer
NilMeansOriginal(r) == r.err = "" => r.data = Shards
TooFew(r) == (KMissing > Cardinality(availP)) <=> r.err = "notenough"
CauchyAlways(r) == (coder = "cauchy" /\ KMissing <= Cardinality(availP)) => r.err = ""
VandermondeIffSolvable(r, s) ==
  (coder = "vandermonde" /\ KMissing <= Cardinality(availP)) => (r.err = "" <=> s)
ErrorIsTyped(r) == r.err \in {"", "notenough", "singular"}
\* Cauchy: every square sub-matrix of the parity matrix is non-singular (MDS)
CauchyMDS(s) == (coder = "cauchy" /\ KMissing <= Cardinality(availP) /\ KMissing > 0) => s

C07_All ==
  IsCase => LET r == Res
                s == Solvable(coder, d, p, availD, availP)
            IN /\ NilMeansOriginal(r) /\ TooFew(r) /\ CauchyAlways(r)
               /\ VandermondeIffSolvable(r, s) /\ ErrorIsTyped(r) /\ CauchyMDS(s)

Emit ==
  IF coder' # "root" /\ availD' # {-1}
  THEN LET r == Reconstruct(coder', d', p', availD', availP',
                            [i \in 1 .. d' |-> [j \in 1 .. d' |-> IF i = j THEN 1 ELSE 0]],
                            M16!Times(ParityMatrix(coder', d', p'), [i \in 1 .. d' |-> [j \in 1 .. d' |-> IF i = j THEN 1 ELSE 0]]))
       IN PrintT("CASE " \o ToJson([coder |-> coder', d |-> d', p |-> p', availd |-> SortedSeq(availD'),
                                     availp |-> SortedSeq(availP'), expect |-> r.err]))
  ELSE TRUE
=============================================================================
