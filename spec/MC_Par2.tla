------------------------------ MODULE MC_Par2 ------------------------------
(***************************************************************************)
(* Bounded instances of Par2Archive for TLC (design level), one cfg per    *)
(* instance/tier.  The same run emits every explored Verify / Repair       *)
(* transition as JSON ("EDGE ...") so that the harness can replay each of  *)
(* them on the real code (one implementation test per transition).         *)
(*                                                                         *)
(* Bytes are 0..2 (0 matters: zero padding at end of file).  The order of  *)
(* Names is the file-id order of the real files (it depends on MD5, which  *)
(* the specification does not compute); the harness confirms it against    *)
(* the main packet gopar writes and reports order_ok in the instance line. *)
(***************************************************************************)
EXTENDS Integers, Sequences, FiniteSets, TLC, Json

CONSTANTS Inst,       \* which instance
          Positions   \* "few" or "all": damage positions per file

Instances ==
  [ i1 |-> [s |-> 4, names |-> << "b", "a" >>,
            prot |-> [a |-> << 1, 2, 0, 1, 2 >>, b |-> << 2, 1, 1 >>],
            vols |-> << {0}, {1} >>],
    i2 |-> [s |-> 4, names |-> << "a", "b", "c" >>,
            prot |-> [a |-> << 1, 2, 2, 1, 0, 0, 1, 1, 2 >>, b |-> << 2, 2, 1, 0 >>, c |-> << 1 >>],
            vols |-> << {0}, {1, 2} >>],
    i3 |-> [s |-> 8, names |-> << "b", "a" >>,
            prot |-> [a |-> << 1, 2, 0, 0, 2, 1, 1, 2, 0, 1, 2, 2, 1, 0, 0, 0 >>, b |-> << 2, 1, 0, 2, 2, 1, 1 >>],
            vols |-> << {0}, {1, 2}, {3} >>],
    i4 |-> [s |-> 4, names |-> << "b", "a" >>,
            prot |-> [a |-> << 1, 1, 1, 1, 1, 1, 1, 1 >>, b |-> << 1, 1, 1, 1, 0, 0, 0, 0, 1, 1 >>],
            vols |-> << {0}, {1, 2} >>] ]

I == Instances[Inst]
S == I.s
Names == I.names
Prot == I.prot
Vols == I.vols

AbsentV == << -1 >>
NameSetX == {Names[i] : i \in 1 .. Len(Names)}

\* ---- the damage menu ---------------------------------------------------------------------
Flip(d, i) == [d EXCEPT ![i] = (d[i] + 1) % 3]
Ins(d, i, b) == SubSeq(d, 1, i) \o << b >> \o SubSeq(d, i + 1, Len(d))         \* i in 0..Len(d)
Del(d, i) == SubSeq(d, 1, i - 1) \o SubSeq(d, i + 1, Len(d))
PosOf(d) == IF Positions = "all" THEN 1 .. Len(d)
            ELSE {1, (Len(d) + 1) \div 2, Len(d)}
InsPosOf(d) == IF Positions = "all" THEN 0 .. Len(d) ELSE {0, Len(d) \div 2, Len(d)}
MenuOf(f) ==
  LET d == Prot[f] IN
     {AbsentV, d, << >>}
       \cup {Flip(d, i) : i \in PosOf(d)}
       \cup {Ins(d, i, b) : i \in InsPosOf(d), b \in {0, 2}}
       \cup {Del(d, i) : i \in PosOf(d)}
       \cup {SubSeq(d, 1, m) : m \in (PosOf(d) \ {Len(d)})}
       \cup {d \o << 0 >>, d \o << 2, 0 >>}
       \cup {Prot[g] : g \in NameSetX \ {f}}
Menu == [f \in NameSetX |-> MenuOf(f)]

VARIABLES disk, vols, last, act
INSTANCE Par2Archive

ASSUME GF16!InitTablesp(0)
ASSUME GF16!TablesOKp(0)
ASSUME PrintT("INSTANCE " \o ToJson([inst |-> Inst, s |-> S, names |-> Names, prot |-> Prot,
                                      vols |-> [i \in 1 .. Len(Vols) |-> SortedSeq(Vols[i])]]))

\* ---- edge emission: every generated Verify / Repair transition, exactly once ---------------
Emit ==
  IF act' \in {"verify", "repair", "repairdc"}
  THEN PrintT("EDGE " \o ToJson([op |-> act', pre |-> disk, prevols |-> SortedSeq(vols),
                                  post |-> disk', model |-> last']))
  ELSE TRUE

\* ---- the properties as action properties (checked on every transition) ---------------------
P_C01a == [][C01_WithinCapacity]_vars
P_C01b == [][C01_OkMeansRestored]_vars
P_C02a == [][C02_WriteDiscipline]_vars
P_C02b == [][C02_VolumesUntouched]_vars
P_C02c == [][C02_ListedMeansWritten]_vars
P_C03a == [][C03_Counts]_vars
P_C03b == [][C03_CleanMeansAllSlicesPresent]_vars
P_C03x == [][C03_CleanMeansIntact]_vars        \* expected to FAIL on the model (known finding D5)
P_C14a == [][C14_SuccessIsFixpoint]_vars
P_C14b == [][C14_FailureKeepsOrRestores]_vars
P_C14c == [][C14_VerifyPure]_vars
P_C16  == [][C16_SurvivorsFound]_vars
=============================================================================
