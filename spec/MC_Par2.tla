------------------------------ MODULE MC_Par2 ------------------------------
(***************************************************************************)
(* Bounded instances of Par2Archive for TLC (design level), one cfg per    *)
(* instance/tier.  The same run emits every explored Verify / Repair       *)
(* transition as JSON ("EDGE ...") so that the harness can replay each of  *)
(* them on the real code (one implementation test per transition).         *)
(*                                                                         *)
(* Bytes are 0..2 (0 matters: zero padding at end of file).  The order of  *)
(* Names is the file-id order of the real files (it depends on MD5, which  *)
(* the specification does not compute); the harness confirms it against    *)
(* the main packet gopar writes and reports order_ok in the instance line. *)
(***************************************************************************)
EXTENDS Par2Instances

VARIABLES disk, vols, last, act
INSTANCE Par2Archive

ASSUME GF16!InitTablesp(0)
ASSUME GF16!TablesOKp(0)
ASSUME PrintT("INSTANCE " \o ToJson([inst |-> Inst, s |-> S, names |-> Names, prot |-> Prot,
                                      vols |-> [i \in 1 .. Len(Vols) |-> SortedSeq(Vols[i])]]))

\* ---- edge emission: every generated Verify / Repair transition, exactly once ---------------
Emit ==
  IF act' \in {"verify", "repair", "repairdc"}
  THEN PrintT("EDGE " \o ToJson([op |-> act', pre |-> disk, prevols |-> SortedSeq(vols),
                                  post |-> disk', model |-> last']))
  ELSE TRUE

\* ---- the properties as action properties (checked on every transition) ---------------------
P_C01a == [][C01_WithinCapacity]_vars
P_C01b == [][C01_OkMeansRestored]_vars
P_C02a == [][C02_WriteDiscipline]_vars
P_C02b == [][C02_VolumesUntouched]_vars
P_C02c == [][C02_ListedMeansWritten]_vars
P_C03a == [][C03_Counts]_vars
P_C03b == [][C03_CleanMeansAllSlicesPresent]_vars
P_C03x == [][C03_CleanMeansIntact]_vars        \* expected to FAIL on the model (known finding D5)
P_C14a == [][C14_SuccessIsFixpoint]_vars
P_C14b == [][C14_FailureKeepsOrRestores]_vars
P_C14d == [][C14_FailureLosesNoSlice]_vars
P_C14c == [][C14_VerifyPure]_vars
P_C16  == [][C16_SurvivorsFound]_vars
=============================================================================
