------------------------------ MODULE Par2Scan ------------------------------
(***************************************************************************)
(* ScanP applied to one instance given as constants: slice size S, names   *)
(* in recovery-set (file id) order, protected contents Prot.  See ScanP    *)
(* for the truth layer (Occurring, Survivors) and the algorithm layer      *)
(* (gopar's greedy scan, Found).                                           *)
(***************************************************************************)
EXTENDS Integers, Sequences, FiniteSets

CONSTANTS S,        \* slice size in bytes
          Names,    \* sequence of protected file names in recovery-set (file id) order
          Prot      \* [name -> original content]

SP == INSTANCE ScanP

Absent == SP!Absent
NameSet == SP!NameSet(Names)
Window(d, j) == SP!Window(S, d, j)
NSlices(d) == SP!NSlices(S, d)
Pos == SP!Pos(S, Names, Prot)
Content(p) == SP!Content(S, Prot, p)
Contents == SP!Contents(S, Names, Prot)
NTotal == Cardinality(Pos)
GIndex(p) == SP!GIndex(S, Names, Prot, p)
Present(disk) == SP!Present(Names, disk)

Occurring(disk) == SP!Occurring(S, Names, Prot, disk)
Survivors(disk) == SP!Survivors(S, Names, Prot, disk)
Intact(disk, f) == disk[f] = Prot[f]
ScanHits(d) == SP!ScanHits(S, Contents, d)
Found(disk) == SP!Found(S, Names, Prot, disk)
\* a file is "ok" for the decoder: present, same bytes (hashes + length + every slice in place)
FileOK(disk, f) == disk[f] # Absent /\ disk[f] = Prot[f]
Bounds(disk) == SP!Bounds(S, Names, Prot, disk)
=============================================================================
