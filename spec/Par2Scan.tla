------------------------------ MODULE Par2Scan ------------------------------
(***************************************************************************)
(* Slices of protected files and where they occur in a directory.          *)
(*                                                                         *)
(* Files are sequences of small integers (bytes).  MD5/CRC32 are idealised *)
(* as injective: "the checksum pair of a window matches slice p" is        *)
(* "the zero-padded window equals the content of slice p".                 *)
(*                                                                         *)
(* TRUTH LAYER:  Window, Occurs, Occurring (upper bound of what any scan   *)
(*   may credit), Survivors (lower bound of what every correct scan must   *)
(*   credit: an occurrence not overlapped by an earlier occurrence of any  *)
(*   protected slice, or any slice of a file that is intact).              *)
(* ALGORITHM LAYER: gopar's greedy scan (+1 on a miss, +S on a hit, zero   *)
(*   padding at end of file, every location with that content credited).   *)
(***************************************************************************)
EXTENDS Integers, Sequences, FiniteSets

CONSTANTS S,        \* slice size in bytes
          Names,    \* sequence of protected file names in recovery-set (file id) order
          Prot      \* [name -> original content]

Absent == << -1 >>                      \* disk value of a file that does not exist (bytes are >= 0)

NameSet == {Names[i] : i \in 1 .. Len(Names)}
MinI(a, b) == IF a <= b THEN a ELSE b

Pad(w) == w \o [i \in 1 .. (S - Len(w)) |-> 0]
\* the window of d at 0-based offset j (j < Len(d)), zero-padded at end of file only
Window(d, j) == Pad(SubSeq(d, j + 1, MinI(j + S, Len(d))))

NSlices(d) == (Len(d) + S - 1) \div S
\* a slice position is <<name, k>>, k from 0
Pos == UNION {{<< f, k >> : k \in 0 .. (NSlices(Prot[f]) - 1)} : f \in NameSet}
Content(p) == Window(Prot[p[1]], p[2] * S)
Contents == {Content(p) : p \in Pos}
NTotal == Cardinality(Pos)

\* global index (from 0) of a slice position: files in Names order, then offset
RECURSIVE Before(_)
Before(i) == IF i = 1 THEN 0 ELSE Before(i - 1) + NSlices(Prot[Names[i - 1]])
IndexOfName(f) == CHOOSE i \in 1 .. Len(Names) : Names[i] = f
GIndex(p) == Before(IndexOfName(p[1])) + p[2]

Present(disk) == {f \in NameSet : disk[f] # Absent}

(************************ TRUTH LAYER **************************************)
\* offsets of d at which the (padded) window is the content of some protected slice
Hits(d) == {j \in 0 .. (Len(d) - 1) : Window(d, j) \in Contents}
OccursAt(p, d, j) == j \in 0 .. (Len(d) - 1) /\ Window(d, j) = Content(p)
\* no occurrence of any protected slice starts inside the S-1 bytes before j
Clean(d, j) == \A j2 \in Hits(d) : ~(j - S < j2 /\ j2 < j)

Occurring(disk) ==
  {p \in Pos : \E f \in Present(disk) : \E j \in 0 .. (Len(disk[f]) - 1) : OccursAt(p, disk[f], j)}

Intact(disk, f) == disk[f] = Prot[f]

Survivors(disk) ==
  {p \in Pos : \/ Intact(disk, p[1])
               \/ \E f \in Present(disk) : \E j \in Hits(disk[f]) :
                     OccursAt(p, disk[f], j) /\ Clean(disk[f], j)}

(************************ ALGORITHM LAYER **********************************)
RECURSIVE ScanR(_, _, _)
ScanR(d, j, acc) ==
  IF j >= Len(d) THEN acc
  ELSE IF Window(d, j) \in Contents THEN ScanR(d, j + S, acc \cup {j})
       ELSE ScanR(d, j + 1, acc)
ScanHits(d) == ScanR(d, 0, {})

\* slice positions credited by the greedy scan over all present protected files
Found(disk) ==
  {p \in Pos : \E f \in Present(disk) : \E j \in ScanHits(disk[f]) : OccursAt(p, disk[f], j)}

\* a file is "ok" for the decoder: present, same bytes (hashes + length + every slice in place)
FileOK(disk, f) == disk[f] # Absent /\ disk[f] = Prot[f]

(************************ the theorem TLC checks on small scopes ***********)
Bounds(disk) == Survivors(disk) \subseteq Found(disk) /\ Found(disk) \subseteq Occurring(disk)
=============================================================================
