CONSTANT PolyW = 4
CONSTANT F8B = {0, 1, 2, 3, 29, 128, 142, 255}
INIT Init
NEXT Next
CHECK_DEADLOCK FALSE
INVARIANT FieldLaws
INVARIANT PolyLaws
INVARIANT Walk
