------------------------------ MODULE IOFaults ------------------------------
(***************************************************************************)
(* Create / Verify / Repair as sequences of I/O calls, and what a failing  *)
(* call does.                                                              *)
(*                                                                         *)
(* ALGORITHM LAYER: the step language of each operation (which calls, in   *)
(* which order), as gopar issues them through its file-system interface:   *)
(*   PAR2 verify : read(index) read(file)^n find read(volume)^m            *)
(*   PAR2 repair : the same, then write(file) for every file not ok        *)
(*   PAR2 create : read(file)^n write(index) write(volume)^v               *)
(*   PAR1 verify : read(index) read(file)^n read(volume candidate)^c       *)
(*   PAR1 repair : the same, then write(file) for every missing file       *)
(*   PAR1 create : read(file)^n write(index) write(volume)^v               *)
(* A fault at call k: the call returns an error -- without effect, or, for *)
(* a write, after a prefix of the data has been written (torn file) -- and *)
(* the operation stops there with that error.                              *)
(*                                                                         *)
(* TRUTH LAYER (C18): an injected failure is reported; a path whose write  *)
(* failed is not reported repaired; nothing but the path being written     *)
(* (and the paths already written, which are exact originals) changes;     *)
(* rerunning without the fault ends where a fault-free run ends, unless    *)
(* the torn write destroyed more than the remaining capacity.              *)
(***************************************************************************)
EXTENDS Integers, Sequences, FiniteSets

Rep(x, n) == [i \in 1 .. n |-> x]

\* fault-free call sequence (kinds only) of an operation
\*   n: protected files read; m: volume files read (PAR1: candidates tried); w: files written;
\*   v: volume files created
Calls(fmt, op, n, m, w, v) ==
  IF op = "create" THEN Rep("read", n) \o << "write" >> \o Rep("write", v)
  ELSE LET load == IF fmt = "par2" THEN << "read" >> \o Rep("read", n) \o << "find" >> \o Rep("read", m)
                   ELSE << "read" >> \o Rep("read", n) \o Rep("read", m)
       IN IF op = "verify" THEN load ELSE load \o Rep("write", w)

IsPrefix(s, t) == Len(s) <= Len(t) /\ \A i \in 1 .. Len(s) : s[i] = t[i]

\* the calls observed when call k fails: the fault-free sequence cut after call k
ObservedOK(calls, full, k) ==
  IF k = 0 \/ k > Len(full) THEN calls = full ELSE calls = SubSeq(full, 1, k)

(********************* model of one faulted run (algorithm layer) **********)
\* full: fault-free call sequence; k: index of the failing call (0 = none); kind: "err" | "partial"
\* result: does the operation report an error, how many writes completed, is a file torn
Run(full, k, kind) ==
  IF k = 0 \/ k > Len(full) THEN [err |-> FALSE, done |-> Len(SelectSeq(full, LAMBDA c : c = "write")), torn |-> FALSE, calls |-> full]
  ELSE LET before == SubSeq(full, 1, k - 1)
       IN [err |-> TRUE,
           done |-> Len(SelectSeq(before, LAMBDA c : c = "write")),
           torn |-> full[k] = "write" /\ kind = "partial",
           calls |-> SubSeq(full, 1, k)]
=============================================================================
