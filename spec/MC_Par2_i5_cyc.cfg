CONSTANT Inst = "i5"
CONSTANT Positions = "cyc"
INIT Init
NEXT Next
VIEW View
CHECK_DEADLOCK FALSE
ACTION_CONSTRAINT Emit
PROPERTY P_C01a P_C01b P_C02a P_C02b P_C02c P_C03a P_C03b P_C14a P_C14b P_C14c P_C14d P_C16
