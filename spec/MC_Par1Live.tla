---------------------------- MODULE MC_Par1Live ----------------------------
(***************************************************************************)
(* C14 as a temporal property for PAR1 (see MC_Par2Live): once the         *)
(* environment is frozen in a state whose parity volumes suffice and whose *)
(* system is not singular, weak fairness of Repair alone leads to a state  *)
(* in which every protected file is intact, for good.                      *)
(***************************************************************************)
EXTENDS Par1Instances

VARIABLES disk, vols, last, act, frozen
INSTANCE Par1Archive

ASSUME GF8!InitTablesp(0)

lvars == << disk, vols, last, act, frozen >>
WithinCapacity == Cardinality(BadSet(disk)) <= Cardinality(vols)
Solvable == RepairFn(disk, vols).res.err # "singular"

LInit == Init /\ frozen = FALSE
Env == /\ ~frozen
       /\ \/ \E f \in NameSet : \E v \in Menu[f] : SetFile(f, v)
          \/ \E v \in VolIds : DelVol(v) \/ AddVol(v)
       /\ UNCHANGED frozen
Freeze == ~frozen /\ frozen' = TRUE /\ UNCHANGED << disk, vols, last, act >>
Ops == (Verify \/ Repair(FALSE) \/ Repair(TRUE)) /\ UNCHANGED frozen
LNext == Env \/ Freeze \/ Ops
LSpec == LInit /\ [][LNext]_lvars /\ WF_lvars(Repair(FALSE) /\ UNCHANGED frozen)

Converges == (frozen /\ WithinCapacity /\ Solvable) ~> [](AllIntact(disk))
=============================================================================
