CONSTANT Inst = "j1"
CONSTANT Positions = "few"
SPECIFICATION LSpec
CHECK_DEADLOCK FALSE
PROPERTY Converges
