CONSTANT Inst = "j2"
CONSTANT Positions = "obj"
INIT ObjInit
NEXT ObjNext
VIEW OView
CHECK_DEADLOCK FALSE
PROPERTY P_OT1 P_OT2 P_OT3 P_OT4 P_OT5 P_OT6 P_OT7 P_OT8 P_OT9 P_OT10 P_OT11
