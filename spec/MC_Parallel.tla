---------------------------- MODULE MC_Parallel ----------------------------
EXTENDS Parallel, Json
\* every generated transition, labelled with the worker that moved, so that the harness can
\* enumerate all maximal paths (= all interleavings) and force each on the real goroutines
RECURSIVE ToSeq(_, _)
ToSeq(f, n) == IF n < 0 THEN << >> ELSE ToSeq(f, n - 1) \o << f[n] >>
Emit ==
  LET moved == {w \in Workers : prog'[w] # prog[w]}
  IN IF moved # {}
     THEN PrintT("EDGE " \o ToJson([from |-> ToSeq(prog, NOf(NBytes, G) - 1), to |-> ToSeq(prog', NOf(NBytes, G) - 1),
                                     w |-> CHOOSE w \in moved : TRUE]))
     ELSE TRUE
ASSUME PrintT("PARAMS " \o ToJson([nbytes |-> NBytes, g |-> G, rows |-> Rows, ins |-> Ins, n |-> NOf(NBytes, G),
                                    per |-> PerOf(NBytes, G)]))
=============================================================================
