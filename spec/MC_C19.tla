------------------------------- MODULE MC_C19 -------------------------------
(***************************************************************************)
(* Design-level model for C19: the space of well-checksummed but           *)
(* inconsistent archives.  A MUTATION sets one numeric field of one PAR2   *)
(* packet type or of the PAR1 header / entries to a boundary value, or     *)
(* removes / duplicates a packet type, or reorders / duplicates ids; the   *)
(* reference writers re-checksum the result CONSISTENTLY (file ids, set    *)
(* id, packet hashes, PAR1 control hash), so that only semantic validation *)
(* can reject it.  Singles and pairs.                                      *)
(*                                                                         *)
(* The truth layer classifies a mutant as semantically VALID (then the     *)
(* archive must behave as a valid one: C01-C04) or INVALID (then an error  *)
(* or a truthful result is required -- and never a crash, never memory out *)
(* of proportion, never a written file that fails the archive's own file   *)
(* hashes).  TLC checks that the classification is a function of the       *)
(* mutation alone and emits every mutant.                                  *)
(***************************************************************************)
EXTENDS Integers, Sequences, FiniteSets, TLC, Json

Values == {"65535", "0", "1", "f-1", "f+1", "2^31", "2^32", "2^62", "2^63", "2^64-1", "rem-1", "rem+1", "f-4", "f+4", "256", "2^40",
           "2^63+f", "2^64-2", "2^28", "2^28+1", "2^32-1", "2^20"}
\* every value class named by Applicable must be in Values, or it is silently never generated
\* (found by counting the emitted mutants per value: five classes were missing until round 12)

\* PAR2 numeric fields
P2Fields == {"main.slice_size", "main.slice_size_1pair", "main.nrecv", "fd.length", "ifsc.npairs", "recv.exp", "recv.datalen"}
\* structural mutations
\* an optional packet (comment, Unicode file name, input file slice checksum, packed main / recovery slice) in one of
\* 15 shapes is added after the creator packet of every file: still a valid set
OptPackets == {"opt.1", "opt.2", "opt.3", "opt.4", "opt.5", "opt.6", "opt.7", "opt.8", "opt.9", "opt.10", "opt.11", "opt.12",
               "opt.13", "opt.14", "opt.15"}
P2Struct == {"remove.creator", "remove.main", "remove.fd", "remove.ifsc", "remove.recv",
             "dup.creator", "dup.main", "dup.fd", "dup.ifsc", "dup.recv",
             "ids.dup", "ids.unsorted", "ids.extra", "ids.missing", "fd.hash", "fd.hash16k", "fd.name_empty", "fd.name_long",
             "recv.data_short", "recv.data_long", "recv.data_wrong",
             "recv.exps_vdm_singular",
             "creator.body_empty", "creator.body_padding", "creator.body_blank"}
             \cup OptPackets \cup {"nonrecv.ok", "nonrecv.short_ifsc", "nonrecv.long_ifsc", "nonrecv.no_packets"}   \* a file in the non-recovery set   \* exponents relabelled {0, 21845, 43690}: singular for the slices 0 and 2 (constants 2^1, 2^4)
P1Fields == {"hdr.volume", "hdr.file_count", "hdr.list_offset", "hdr.list_bytes", "hdr.data_offset", "hdr.data_bytes", "hdr.version",
             "ent.entry_bytes", "ent.status", "ent.file_bytes"}
P1Struct == {"ent.hash", "ent.hash16k", "vol.data_short", "vol.data_long", "vol.number_swapped", "set.256_entries", "set.255_entries", "set.257_entries", "set.300_entries",
             "ent.name_lone_surrogate", "ent.name_lone_low_surrogate"}   \* a name that is not well-formed UTF-16
Where == {"index", "volume", "all"}

\* value classes that make sense for a field (others are skipped)
Applicable(f, v) ==
  CASE f = "main.slice_size" -> v \in {"0", "1", "f-4", "f+4", "2^31", "2^32", "2^62", "2^63", "2^64-1"}
    \* the slice size raised above every file, with one checksum pair per file (count-consistent)
    [] f = "main.slice_size_1pair" -> v \in {"2^31", "2^62", "2^63", "f+4"}
    [] f = "main.nrecv" -> v \in {"0", "1", "f-1", "f+1", "256", "2^28", "2^28+1", "2^31", "2^32-1"}
    [] f = "fd.length" -> v \in {"0", "1", "f-1", "f+1", "256", "2^31", "2^32", "2^40", "2^62", "2^63", "2^63+f", "2^64-2", "2^64-1", "rem+1"}
    [] f = "ifsc.npairs" -> v \in {"0", "f-1", "f+1"}
    [] f = "recv.exp" -> v \in {"0", "1", "f+1", "2^31", "2^32", "256", "65535"}
    [] f = "recv.datalen" -> v \in {"0", "f-4", "f+4", "1"}
    [] f = "hdr.volume" -> v \in {"0", "1", "f-1", "f+1", "256", "2^31", "2^32", "2^40", "2^62", "2^63", "2^63+f", "2^64-2", "2^64-1", "rem+1"}
    [] f = "hdr.file_count" -> v \in {"0", "1", "f-1", "f+1", "256", "2^31", "2^32", "2^40", "2^62", "2^63", "2^63+f", "2^64-2", "2^64-1", "rem+1"}
    [] f = "hdr.list_offset" -> v \in {"0", "1", "f-1", "f+1", "256", "2^31", "2^32", "2^40", "2^62", "2^63", "2^63+f", "2^64-2", "2^64-1", "rem+1"}
    [] f = "hdr.list_bytes" -> v \in {"0", "1", "f-1", "f+1", "256", "2^31", "2^32", "2^40", "2^62", "2^63", "2^63+f", "2^64-2", "2^64-1", "rem+1"}
    [] f = "hdr.data_offset" -> v \in {"0", "1", "f-1", "f+1", "256", "2^31", "2^32", "2^40", "2^62", "2^63", "2^63+f", "2^64-2", "2^64-1", "rem+1"}
    [] f = "hdr.data_bytes" -> v \in {"0", "1", "f-1", "f+1", "256", "2^31", "2^32", "2^40", "2^62", "2^63", "2^63+f", "2^64-2", "2^64-1", "rem+1"}
    [] f = "hdr.version" -> v \in {"0", "f+1", "2^31"}
    [] f = "ent.entry_bytes" -> v \in {"0", "1", "f-1", "f+1", "256", "2^31", "2^32", "2^40", "2^62", "2^63", "2^63+f", "2^64-2", "2^64-1", "rem+1"}
    [] f = "ent.status" -> v \in {"0", "1", "f-1", "f+1", "256", "2^31", "2^32", "2^40", "2^62", "2^63", "2^63+f", "2^64-2", "2^64-1", "rem+1"}
    [] f = "ent.file_bytes" -> v \in {"0", "1", "f-1", "f+1", "256", "2^31", "2^32", "2^40", "2^62", "2^63", "2^63+f", "2^64-2", "2^64-1", "rem+1"}
    [] OTHER -> FALSE

\* TRUTH LAYER: which mutants still describe the same recoverable data (semantically valid)
ValidMut(m) ==
  \* a set of 255 (resp. 256) genuine entries is a valid PAR1 set
  \/ m.kind = "struct" /\ m.field \in {"set.255_entries", "set.256_entries"}
  \/ m.kind = "struct" /\ m.field \in {"dup.creator", "dup.main", "dup.fd", "dup.ifsc", "dup.recv"}
  \/ m.kind = "struct" /\ m.field \in OptPackets
  \/ m.kind = "struct" /\ m.field = "nonrecv.ok"               \* a consistent non-recovery file: still a valid set
  \/ m.kind = "struct" /\ m.field = "remove.recv"              \* fewer recovery blocks: still a valid set
  \* volumes need not repeat main / file description / checksum packets (a creator is required in every file)
  \/ m.kind = "struct" /\ m.field \in {"remove.main", "remove.fd", "remove.ifsc"} /\ m.where = "volume"

Extreme == {"2^31", "2^40", "2^62", "2^63", "2^63+f", "2^64-2", "2^64-1"}
RelatedPairs == { << "par1", "hdr.file_count", "hdr.list_bytes" >>, << "par1", "hdr.list_offset", "hdr.list_bytes" >>,
                  << "par1", "hdr.data_offset", "hdr.data_bytes" >>, << "par1", "hdr.file_count", "hdr.list_offset" >>,
                  << "par1", "hdr.file_count", "hdr.data_offset" >>, << "par2", "main.slice_size", "fd.length" >>,
                  << "par2", "main.nrecv", "fd.length" >> }

VARIABLE m
Init == m = [kind |-> "root"]
Single(fmt, f, v, w) == [kind |-> "field", fmt |-> fmt, field |-> f, value |-> v, where |-> w]
Struct(fmt, f, w) == [kind |-> "struct", fmt |-> fmt, field |-> f, value |-> "", where |-> w]
Next ==
  /\ m.kind = "root"
  /\ \/ \E f \in P2Fields, v \in Values, w \in Where : Applicable(f, v) /\ m' = Single("par2", f, v, w)
     \/ \E f \in P2Struct, w \in Where : m' = Struct("par2", f, w)
     \/ \E f \in P1Fields, v \in Values, w \in Where : Applicable(f, v) /\ m' = Single("par1", f, v, w)
     \/ \E f \in P1Struct, w \in {"volume", "all"} : m' = Struct("par1", f, w)
     \* two RELATED fields extreme at once (a sum or product of the two wraps around): the full cross product
     \/ \E pr \in RelatedPairs, v1 \in Extreme \cup {"2^20"}, v2 \in Extreme, w \in {"index", "all"} :
           m' = [kind |-> "pair", fmt |-> pr[1], field |-> pr[2], value |-> v1, field2 |-> pr[3], value2 |-> v2, where |-> w]

IsMut == m.kind # "root"
ASSUME \A f \in P2Fields \cup P1Fields : \A v \in {"2^63+f", "2^64-2", "2^28", "2^28+1", "2^32-1"} : Applicable(f, v) => v \in Values
C19_ClassificationTotal == IsMut => ValidMut(m) \in BOOLEAN
\* a structurally valid mutant never changes a size, count, offset or hash
C19_ValidMeansNoFieldChange == (IsMut /\ ValidMut(m)) => m.kind = "struct"

Emit == IF m'.kind # "root" THEN PrintT("MUT " \o ToJson([m |-> m', valid |-> ValidMut(m')])) ELSE TRUE
=============================================================================
