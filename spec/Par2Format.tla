----------------------------- MODULE Par2Format -----------------------------
(***************************************************************************)
(* TRUTH LAYER: well-formedness of a PAR2 recovery set as written to disk, *)
(* over a RECORD VIEW of the bytes produced by an independent tokenizer    *)
(* (harness/refpar2, written from the PAR 2.0 specification, importing     *)
(* nothing from gopar).  The tokenizer reports raw header fields, raw body *)
(* fields and digests of the byte ranges the format designates; it         *)
(* compares nothing.  Every comparison is made here.                       *)
(*                                                                         *)
(* MD5/CRC32 are Go's; what this module fixes is WHICH bytes are hashed    *)
(* and WHICH field the digest must equal:                                  *)
(*   packet hash      = md5(bytes 32 .. length of the packet)  [hash_ok]   *)
(*   recovery set id  = md5(body of the main packet)                       *)
(*   file id          = md5(16k-hash || length || name)                    *)
(*   slice checksums  = md5 / crc32 of the zero-padded slices              *)
(* Recovery block e, word w = SUM_i slice_i[w] * Const(i)^e in             *)
(* GF(2^16)/0x1100B, slices ordered by file id (as little-endian 128-bit   *)
(* integers) then offset.                                                  *)
(***************************************************************************)
EXTENDS Integers, Sequences, FiniteSets, TLC

SX == INSTANCE SequencesExt

PC == INSTANCE Par2Const
GF16 == INSTANCE GF WITH W <- 16, Poly <- 69643, Gen <- 2, Reg <- 10

ToSet(s) == {s[i] : i \in 1 .. Len(s)}

\* a < b as little-endian 128-bit integers; ids are sequences of 16 bytes
RECURSIVE IDLessFrom(_, _, _)
IDLessFrom(a, b, k) == IF k = 0 THEN FALSE
                       ELSE IF a[k] # b[k] THEN a[k] < b[k] ELSE IDLessFrom(a, b, k - 1)
IDLess(a, b) == IDLessFrom(a, b, 16)

CeilDiv(a, b) == (a + b - 1) \div b

(************************** framing ****************************************)
\* the packets tile the file: contiguous from offset 0 to the file size, each with the magic,
\* a length >= 64 that is a multiple of 4, and a matching packet hash
Framed(f) ==
  /\ Len(f.packets) > 0
  /\ f.packets[1].off = 0
  /\ \A k \in 1 .. Len(f.packets) :
        LET p == f.packets[k] IN
        /\ p.magic_ok /\ p.complete /\ p.hash_ok
        /\ p.len >= 64 /\ (p.len % 4) = 0
        /\ (IF k < Len(f.packets) THEN f.packets[k + 1].off ELSE f.size) = p.off + p.len

PacketsOf(f, t) == {k \in 1 .. Len(f.packets) : f.packets[k].type = t}

(************************** per packet type ********************************)
\* inputs sorted: the order in which the harness lists them (sorted) must be ascending by IDLess
SortedByID(sorted) == \A k \in 1 .. (Len(sorted) - 1) : IDLess(sorted[k].idb, sorted[k + 1].idb)

MainOK(p, e) ==
  /\ p.slice_size = e.s
  /\ p.nrecv = Len(e.sorted)
  /\ p.ids = [k \in 1 .. Len(e.sorted) |-> e.sorted[k].id]      \* exactly the inputs, ascending, nothing else
  /\ p.setid = p.body_md5                                        \* recovery set id = md5 of the main body

FileDescOK(p, e) ==
  \E k \in 1 .. Len(e.sorted) :
     LET i == e.sorted[k] IN
     /\ p.id = i.id /\ p.computed_id = p.id
     /\ p.hash = i.md5 /\ p.hash16k = i.md5_16k /\ p.length = i.len
     /\ p.name = i.name
     /\ p.padding_ok

IFSCOK(p, e) ==
  \E k \in 1 .. Len(e.sorted) :
     LET i == e.sorted[k] IN
     /\ p.id = i.id
     /\ Len(p.pairs) = CeilDiv(i.len, e.s)
     /\ p.pairs = i.pairs

\* recovery data on the logged word columns: rec[c] = SUM_i slice_i[c] * Const(i)^exp
RecvOK(p, e) ==
  /\ p.datalen = e.s
  /\ p.exp >= 0 /\ p.exp < e.r
  /\ Len(p.words) = Len(e.cols)
  /\ LET coef == TLCEval([i \in 1 .. Len(e.slicewords) |-> PC!EntryT(p.exp, i - 1)])      \* Const(i)^exp, once per packet
     IN \A c \in 1 .. Len(e.cols) :
          p.words[c] = SX!FoldLeft(LAMBDA a, b : GF16!Add(a, b), 0,
                                [i \in 1 .. Len(e.slicewords) |-> GF16!FastMul(coef[i], e.slicewords[i][c])])

(************************** the whole set **********************************)
\* names of the clauses that fail for the set event e
SetVerdicts(e) ==
  LET files  == e.files
      index  == {k \in 1 .. Len(files) : files[k].kind = "index"}
      vols   == {k \in 1 .. Len(files) : files[k].kind = "volume"}
      allp   == UNION {{<< k, j >> : j \in 1 .. Len(files[k].packets)} : k \in 1 .. Len(files)}
      P(x)   == files[x[1]].packets[x[2]]
      mains  == {x \in allp : P(x).type = "main"}
      setid  == IF mains = {} THEN "none" ELSE P(CHOOSE x \in mains : TRUE).body_md5
      recvs  == {x \in allp : P(x).type = "recv"}
      expsq  == [x \in recvs |-> P(x).exp]
  IN
  (IF \A k \in 1 .. Len(files) : Framed(files[k]) THEN {} ELSE {"C05.framing"})
  \cup (IF SortedByID(e.sorted) THEN {} ELSE {"OBS.sorted_order"})
  \cup (IF Cardinality(index) = 1 THEN {} ELSE {"C05.one_index_file"})
  \cup (IF \A x \in allp : P(x).setid = setid THEN {} ELSE {"C05.set_id"})
  \cup (IF \A x \in allp : P(x).type \in {"main", "filedesc", "ifsc", "recv", "creator"} THEN {} ELSE {"C05.unknown_packet_type"})
  \cup (IF mains # {} /\ \A x \in mains : MainOK(P(x), e) THEN {} ELSE {"C05.main_packet"})
  \cup (IF \A x \in allp : P(x).type = "filedesc" => FileDescOK(P(x), e) THEN {} ELSE {"C05.file_description"})
  \cup (IF \A x \in allp : P(x).type = "ifsc" => IFSCOK(P(x), e) THEN {} ELSE {"C05.slice_checksums"})
  \* every file is self-describing: a creator, the main packet, and a description + checksums for every input
  \cup (IF \A k \in 1 .. Len(files) :
            /\ PacketsOf(files[k], "creator") # {}
            /\ PacketsOf(files[k], "main") # {}
            /\ \A i \in 1 .. Len(e.sorted) :
                  /\ \E j \in PacketsOf(files[k], "filedesc") : files[k].packets[j].id = e.sorted[i].id
                  /\ \E j \in PacketsOf(files[k], "ifsc") : files[k].packets[j].id = e.sorted[i].id
        THEN {} ELSE {"C05.every_file_complete"})
  \cup (IF \A k \in index : PacketsOf(files[k], "recv") = {} THEN {} ELSE {"C05.index_has_no_recovery"})
  \* the recovery files together contain blocks 0..r-1 exactly once
  \cup (IF /\ {expsq[x] : x \in recvs} = 0 .. (e.r - 1)
           /\ Cardinality(recvs) = e.r
        THEN {} ELSE {"C05.blocks_0_to_n_exactly_once"})
  \cup (IF \A x \in recvs : RecvOK(P(x), e) THEN {} ELSE {"C05.recovery_data"})
  \cup (IF e.inputs_unchanged THEN {} ELSE {"C02.create_modified_input"})

(************************** reference-written layouts (C06, C19) ***********)
\* A layout written by the harness's reference writer is judged before it is used against gopar:
\* every file is framed; the packets of the set (set id = md5 of the main body) are correct; the
\* recovery data is the specified sum.  Packets of other sets / unknown types are only framed.
RefVerdicts(e) ==
  LET files == e.files
      allp  == UNION {{<< k, j >> : j \in 1 .. Len(files[k].packets)} : k \in 1 .. Len(files)}
      P(x)  == files[x[1]].packets[x[2]]
      own   == {x \in allp : P(x).setid = e.setid}
  IN
  (IF \A k \in 1 .. Len(files) : Framed(files[k]) THEN {} ELSE {"OBS.ref.framing"})
  \cup (IF SortedByID(e.sorted) THEN {} ELSE {"OBS.ref.sorted_order"})
  \cup (IF \A x \in own : P(x).type = "main" => MainOK(P(x), e) THEN {} ELSE {"OBS.ref.main_packet"})
  \cup (IF \A x \in own : P(x).type = "filedesc" => FileDescOK(P(x), e) THEN {} ELSE {"OBS.ref.file_description"})
  \cup (IF \A x \in own : P(x).type = "ifsc" => IFSCOK(P(x), e) THEN {} ELSE {"OBS.ref.slice_checksums"})
  \cup (IF \A x \in own : P(x).type = "recv" => RecvOK(P(x), [e EXCEPT !.r = 65536])
        THEN {} ELSE {"OBS.ref.recovery_data"})
=============================================================================
