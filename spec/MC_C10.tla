------------------------------- MODULE MC_C10 -------------------------------
(***************************************************************************)
(* Design-level model for C10 (reader direction): the index layouts a      *)
(* conformant PAR1 writer may produce -- 1..3 entries saved in the parity  *)
(* set with 0..2 entries that are not saved at every position among them,  *)
(* with or without a comment, names with or without UTF-16 surrogate       *)
(* pairs -- crossed with which saved files are damaged and which volumes   *)
(* survive, and the outcome the PAR 1.0 semantics demand: entries that are *)
(* not saved do not count and do not take part in the code (files are      *)
(* numbered among the SAVED entries); repair succeeds iff the damaged      *)
(* saved files do not outnumber the surviving volumes (the k x k system    *)
(* [i^(v-1)] is checked non-singular here for every case).                 *)
(***************************************************************************)
EXTENDS Integers, Sequences, FiniteSets, TLC, Json

GF8 == INSTANCE GF WITH W <- 8, Poly <- 285, Gen <- 2, Reg <- 18
M8 == INSTANCE Matrix WITH MulOp <- GF8!FastMul, InvOp <- GF8!FastInv, AddOp <- GF8!Add
ASSUME GF8!InitTablesp(0) /\ GF8!TablesOKp(0)

NVols == 2
\* entry kind sequences: "S" saved, "N" not saved
Kinds == {s \in UNION {[1 .. n -> {"S", "N"}] : n \in 1 .. 5} :
             /\ Cardinality({i \in DOMAIN s : s[i] = "S"}) \in 1 .. 3
             /\ Cardinality({i \in DOMAIN s : s[i] = "N"}) \in 0 .. 2}

\* long file lists: `pad` further entries that are not saved (placed before or after the modelled ones by the
\* driver); the totals 255, 256, 257 and 300 straddle the 256-entry bound of the format, which counts SAVED
\* files plus volumes only
Pads == {0, 252, 253, 254, 297}
VARIABLES kinds, comment, uni, bad, vols, pad
Init == kinds = << >> /\ comment = FALSE /\ uni = FALSE /\ bad = {} /\ vols = {} /\ pad = 0
NSaved(k) == Cardinality({i \in DOMAIN k : k[i] = "S"})
Next == /\ kinds = << >>
        /\ kinds' \in Kinds /\ comment' \in BOOLEAN /\ uni' \in BOOLEAN
        /\ bad' \in SUBSET (1 .. NSaved(kinds')) /\ vols' \in SUBSET (1 .. NVols)
        /\ pad' \in (IF ~comment' /\ ~uni' /\ Len(kinds') = 3 THEN Pads ELSE {0})

MinOf(Sx) == CHOOSE x \in Sx : \A y \in Sx : x <= y
RECURSIVE SortedSeq(_)
SortedSeq(Sx) == IF Sx = {} THEN << >> ELSE LET m == MinOf(Sx) IN << m >> \o SortedSeq(Sx \ {m})
Recon(vs, bs) == [r \in 1 .. Len(bs) |-> [c \in 1 .. Len(bs) |-> GF8!FastPow(bs[c], vs[r] - 1)]]
Solvable(b, v) == Cardinality(b) <= Cardinality(v) /\
                  (b = {} \/ ~M8!Singular(Recon(SubSeq(SortedSeq(v), 1, Cardinality(b)), SortedSeq(b))))

\* at this scale the PAR1 matrix is never singular: capacity alone decides
C10_CapacityDecides == kinds # << >> => (Solvable(bad, vols) <=> Cardinality(bad) <= Cardinality(vols))

Emit == IF kinds' # << >>
        THEN PrintT("LAYOUT " \o ToJson([kinds |-> kinds', comment |-> comment', uni |-> uni', bad |-> SortedSeq(bad'),
                                         vols |-> SortedSeq(vols'), nsaved |-> NSaved(kinds'), pad |-> pad',
                                         expect_ok |-> Solvable(bad', vols')]))
        ELSE TRUE
=============================================================================
