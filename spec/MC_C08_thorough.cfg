CONSTANT PolyW = 5
CONSTANT F8B = {0, 1, 2, 3, 4, 5, 6, 7, 8, 9, 10, 11, 12, 13, 14, 15, 16, 17, 18, 19, 20, 21, 22, 23, 24, 25, 26, 27, 28, 29, 30, 31, 32, 33, 34, 35, 36, 37, 38, 39, 40, 41, 42, 43, 44, 45, 46, 47, 48, 49, 50, 51, 52, 53, 54, 55, 56, 57, 58, 59, 60, 61, 62, 63, 64, 96, 127, 128, 129, 142, 200, 254, 255}
INIT Init
NEXT Next
CHECK_DEADLOCK FALSE
INVARIANT FieldLaws
INVARIANT PolyLaws
INVARIANT Walk
