------------------------------ MODULE MC_FileIO ------------------------------
(***************************************************************************)
(* Bounded instance of FileIO (extension X05).  Characters: 0 = "/",       *)
(* 1 = "a", 2 = "b", 3 = ".".  The universe holds a plain file, two files  *)
(* matching "a*.b", a file in a sub-directory whose whole path also begins *)
(* with "a" and ends with ".b" (FindNested), and a path below "ab.b", so   *)
(* that "ab.b" can be a file or a directory (PathIsDirectory,              *)
(* ParentIsFile, FindDirectory).                                           *)
(***************************************************************************)
EXTENDS FileIO, Json

MCUniverse == { << 1, 3, 2 >>,            \* a.b
                << 1, 2, 3, 2 >>,         \* ab.b
                << 1, 0, 1, 3, 2 >>,      \* a/a.b
                << 1, 2, 3, 2, 0, 1 >>,   \* ab.b/a
                << 2 >> }                 \* b
MCDatas == { << 1 >>, << 2 >> }
MCPrefixes == { << >>, << 1 >>, << 1, 2 >>, << 1, 0 >>, << 1, 0, 1 >>, << 2, 0 >>, << 1, 2, 3, 2, 0 >> }
MCSuffixes == { << >>, << 3, 2 >> }

ASSUME PrintT("UNIVERSE " \o ToJson([paths |-> MCUniverse, dirs |-> DirUniverse, datas |-> MCDatas,
                                      prefixes |-> MCPrefixes, suffixes |-> MCSuffixes, slash |-> 0]))

P_F1 == [][F_FaithfulOutsideDeviations]_fvars
P_F2a == [][F_ReadYourWrites]_fvars
P_F2b == [][F_RemoveRemoves]_fvars
P_F2c == [][F_MoveIsRemoveThenWrite]_fvars
P_F2d == [][F_FindIsFilter]_fvars
P_F4 == [][F_QueriesArePure]_fvars
\* non-vacuity: every named deviation is reachable from an equivalent state, and really is a difference
DeviationsDiffer == (Equivalent /\ act'.dev) => last'.os # last'.mem
P_Dev == [][DeviationsDiffer]_fvars
=============================================================================
