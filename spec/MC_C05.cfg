CONSTANT MaxR = 300
CONSTANT ShapeRs = {1, 2, 3, 4, 8}
CONSTANT ShapeSs = {4, 8}
INIT Init
NEXT Next
CHECK_DEADLOCK FALSE
ACTION_CONSTRAINT Emit
INVARIANT C05_LayoutExactlyOnce
