----------------------- MODULE MC_Par1EncoderObject -----------------------
(* Bounded instance of Par1EncoderObject (extension X04). *)
EXTENDS Par1EncoderObject
=============================================================================
