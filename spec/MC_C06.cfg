INIT Init
NEXT Next
CHECK_DEADLOCK FALSE
ACTION_CONSTRAINT Emit
INVARIANT C06_IndexInvariant C06_AllBlocksFound
