----------------------------- MODULE Par2Const -----------------------------
(***************************************************************************)
(* TRUTH LAYER: the PAR2 specification's constants.  The constant of input *)
(* slice i (i from 0) is 2^n in GF(2^16)/0x1100B for the i-th natural      *)
(* number n >= 1 that is not divisible by 3, 5, 17 or 257 (so that 2^n has *)
(* order 65535).  Defined from the exclusion rule, not copied from gopar.  *)
(* Needs GF16 tables initialised by the root module (GF16!InitTablesp(0)).     *)
(***************************************************************************)
EXTENDS Integers, Sequences, TLC

GF16 == INSTANCE GF WITH W <- 16, Poly <- 69643, Gen <- 2, Reg <- 10

ValidExp(n) == (n % 3) # 0 /\ (n % 5) # 0 /\ (n % 17) # 0 /\ (n % 257) # 0

RECURSIVE NthR(_, _)
NthR(i, n) == IF ValidExp(n) THEN (IF i = 0 THEN n ELSE NthR(i - 1, n + 1)) ELSE NthR(i, n + 1)
\* the exponent n of slice i
ExpOf(i) == NthR(i, 1)
\* 2^n: Gen = 2, so this is a table lookup
TwoTo(n) == GF16!Tab.exp[(n % 65535) + 1]
Const(i) == TwoTo(ExpOf(i))

\* the valid exponents below 65536 in ascending order (there are 32768 of them), and the table of
\* all constants << Const(0), ..., Const(32767) >>; kept in a TLC register by the root module:
\*   ASSUME PC!InitConstTab(0)        ...        PC!ConstT(i) = Const(i)
ValidExps(u) == SelectSeq([n \in 1 .. 65535 |-> n], ValidExp)
BuildConstTab(u) == LET ve == ValidExps(u) IN [i \in 1 .. Len(ve) |-> TwoTo(ve[i])]
InitConstTab(u) == TLCSet(11, TLCEval(BuildConstTab(u)))
ConstT(i) == TLCGet(11)[i + 1]
EntryT(e, i) == GF16!FastPow(ConstT(i), e)

\* the Vandermonde entry of recovery block e and slice i: Const(i)^e
Entry(e, i) == GF16!FastPow(Const(i), e)

\* facts of the specification checked once by TLC (MC_C05 / MC_C07)
NumValidBelow65536 == 32768
=============================================================================
