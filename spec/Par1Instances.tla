--------------------------- MODULE Par1Instances ---------------------------
(***************************************************************************)
(* The bounded PAR1 instances and damage menus shared by MC_Par1 and       *)
(* MC_Par1Live.  Bytes are 0..2; files are the shards of PAR 1.0.          *)
(***************************************************************************)
EXTENDS Integers, Sequences, FiniteSets, TLC, Json

CONSTANTS Inst, Positions

Instances ==
  [ j1 |-> [names |-> << "a", "b" >>, nvols |-> 2,
            prot |-> [a |-> << 1, 2, 0, 1, 2 >>, b |-> << 2, 1, 1 >>]],
    j2 |-> [names |-> << "a", "b", "c" >>, nvols |-> 3,
            prot |-> [a |-> << 1, 2, 2, 1, 0, 0 >>, b |-> << >>, c |-> << 2 >>]],
    j3 |-> [names |-> << "a", "b", "c", "d" >>, nvols |-> 2,
            prot |-> [a |-> << 0, 0 >>, b |-> << 1, 0, 2 >>, c |-> << 1, 0, 2 >>, d |-> << 2, 2, 2, 2, 1 >>]] ]

I == Instances[Inst]
Names == I.names
Prot == I.prot
NVols == I.nvols
AbsentV == << -1 >>
NameSetX == {Names[i] : i \in 1 .. Len(Names)}

Flip(d, i) == [d EXCEPT ![i] = (d[i] + 1) % 3]
PosOf(d) == IF Len(d) = 0 THEN {} ELSE IF Positions = "all" THEN 1 .. Len(d) ELSE {1, Len(d)}
MenuOf(f) ==
  LET d == Prot[f] IN
  IF Positions = "obj"      \* the small menu of the object model (MC_Par1Object): one damage of each kind
  THEN {AbsentV, d, d \o << 1 >>} \cup {Flip(d, 1) : x \in (IF Len(d) > 0 THEN {0} ELSE {})} \cup {Prot[g] : g \in NameSetX \ {f}}
  ELSE
     {AbsentV, d}
       \cup {Flip(d, i) : i \in PosOf(d)}
       \cup {SubSeq(d, 1, Len(d) - 1) : x \in (IF Len(d) > 0 THEN {0} ELSE {})}
       \cup {d \o << 0 >>, d \o << 1 >>, << >>}
       \cup {Prot[g] : g \in NameSetX \ {f}}
Menu == [f \in NameSetX |-> MenuOf(f)]

=============================================================================
