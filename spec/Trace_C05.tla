----------------------------- MODULE Trace_C05 -----------------------------
(***************************************************************************)
(* Trace judge for C05: every "set" event is one real par2.Create whose    *)
(* output files were tokenized by the independent observer; Par2Format     *)
(* decides well-formedness and the recovery data.                          *)
(***************************************************************************)
EXTENDS Integers, Sequences, FiniteSets, TLC, Json

ASSUME TLCSet(1, ndJsonDeserialize("trace.ndjson"))
Trace == TLCGet(1)

INSTANCE Par2Format
ASSUME GF16!InitTablesp(0) /\ GF16!TablesOKp(0)
ASSUME PC!InitConstTab(0)
\* facts of the specification about its constants (independent of any writer)
ASSUME Len(TLCGet(11)) = 32768
ASSUME SubSeq(TLCGet(11), 1, 8) = << 2, 4, 16, 128, 256, 2048, 8192, 16384 >>

VARIABLE l
Init == l = 1
Next == /\ l <= Len(Trace)
        /\ \A c \in SetVerdicts(Trace[l]) : PrintT("VERDICT " \o ToJson([i |-> l, clause |-> c]))
        /\ l' = l + 1
AllJudged == /\ PrintT("JUDGED " \o ToJson([n |-> TLCGet("stats").diameter - 1]))
             /\ TLCGet("stats").diameter - 1 = Len(Trace)
=============================================================================
