INIT Init
NEXT Next
CHECK_DEADLOCK FALSE
ACTION_CONSTRAINT Emit
INVARIANT C10_CapacityDecides
