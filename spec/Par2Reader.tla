----------------------------- MODULE Par2Reader -----------------------------
(***************************************************************************)
(* ALGORITHM LAYER: how gopar reads a PAR2 set (par2/file.go readFile and  *)
(* par2/decoder.go newDecoder / LoadParityData).                           *)
(*                                                                         *)
(* A file is a sequence of packet tokens                                   *)
(*    [set |-> "own" | "other", type |-> "creator" | "main" | "fd" | "ifsc" *)
(*                                      | "recv" | "unknown", k |-> n]     *)
(* where k is the protected file's number (fd, ifsc) or the exponent       *)
(* (recv).  readFile is an order-insensitive accumulator keyed by packet   *)
(* type: it takes the set id from the first packet when none is expected,  *)
(* skips packets of other sets, and fails without a creator packet.        *)
(* LoadParityData lists the directory for names with the literal prefix    *)
(* "<base>." and the literal suffix ".par2", reads each such file          *)
(* expecting the index file's set id, ignores files without a packet of    *)
(* that set, and unites the recovery packets by exponent.                  *)
(***************************************************************************)
EXTENDS Integers, Sequences, FiniteSets, TLC

ToSetS(s) == {s[i] : i \in 1 .. Len(s)}

\* expected: "none" (index file: capture from the first packet) or "own"
ReadFile(pkts, expected) ==
  LET setid == IF expected # "none" THEN expected ELSE IF Len(pkts) = 0 THEN "none" ELSE pkts[1].set
      mine  == SelectSeq(pkts, LAMBDA p : p.set = setid)
      types == {p.type : p \in ToSetS(mine)}
  IN IF Len(mine) = 0 THEN [err |-> "nopackets"]
     ELSE IF "creator" \notin types THEN [err |-> "nocreator"]
     ELSE [err |-> "", setid |-> setid,
           main |-> "main" \in types,
           fds |-> {p.k : p \in {q \in ToSetS(mine) : q.type = "fd"}},
           ifscs |-> {p.k : p \in {q \in ToSetS(mine) : q.type = "ifsc"}},
           recvs |-> {p.k : p \in {q \in ToSetS(mine) : q.type = "recv"}},
           unknown |-> Cardinality({i \in 1 .. Len(mine) : mine[i].type = "unknown"})]

\* the decoder built from the index file: needs the main packet, no recovery packets, a
\* description and checksums for every protected file
OpenIndex(pkts, nfiles) ==
  LET r == ReadFile(pkts, "none") IN
  IF r.err # "" THEN r
  ELSE IF ~r.main THEN [err |-> "nomain"]
  ELSE IF r.recvs # {} THEN [err |-> "recv_in_index"]
  ELSE IF ~((1 .. nfiles) \subseteq r.fds) THEN [err |-> "missing_fd"]
  ELSE IF ~((1 .. nfiles) \subseteq r.ifscs) THEN [err |-> "missing_ifsc"]
  ELSE r

\* dir: set of [name |-> string-class record, match |-> BOOLEAN (literal "<base>." prefix and
\* ".par2" suffix), pkts |-> tokens]; result: the set of exponents found, or an error
LoadParity(dir, setid) ==
  LET cand == {f \in dir : f.match}
      reads == [f \in cand |-> ReadFile(f.pkts, setid)]
      bad == {f \in cand : reads[f].err \notin {"", "nopackets"}}
  IN IF bad # {} THEN [err |-> "volume_error", exps |-> {}]
     ELSE [err |-> "", exps |-> UNION {reads[f].recvs : f \in {g \in cand : reads[g].err = ""}}]

(************************** TRUTH LAYER ************************************)
\* every intact recovery block of the set stored beside the index file under "<base>.*.par2"
BlocksBeside(dir) ==
  UNION {{f.pkts[i].k : i \in {j \in 1 .. Len(f.pkts) : f.pkts[j].set = "own" /\ f.pkts[j].type = "recv"}} : f \in {g \in dir : g.match}}
=============================================================================
