--------------------------- MODULE MC_Par1Object ---------------------------
(***************************************************************************)
(* Bounded instance of Par1Object (extension X03: typestate of the         *)
(* exported par1.Decoder object).  TLC explores every interleaving of      *)
(* object calls (New, LoadFileData, LoadParityData, FileCounts,            *)
(* VerifyAllData, Repair) with directory changes and checks the object-    *)
(* level truth layer OT1_* on every transition.  The same instances are    *)
(* used by the trace judge (Trace_Par1Object) that replays recorded call   *)
(* sequences of the real object.                                           *)
(***************************************************************************)
EXTENDS Par1Instances

VARIABLES disk, vols, last, act, dec
INSTANCE Par1Object

ASSUME GF8!InitTablesp(0)
ASSUME PrintT("INSTANCE " \o ToJson([inst |-> Inst, names |-> Names, prot |-> Prot, nvols |-> NVols]))

P_OT1 == [][OT1_WriteDiscipline]_ovars
P_OT2 == [][OT1_ListedMeansWritten]_ovars
P_OT3 == [][OT1_VolumesUntouched]_ovars
P_OT4 == [][OT1_CountsTruthfulAtLoad]_ovars
P_OT5 == [][OT1_WithinSnapshotCapacity]_ovars
P_OT6 == [][OT1_TooEarlyWritesNothing]_ovars
P_OT7 == [][OT1_FailureChangesNothing]_ovars
P_OT8 == [][OT1_SuccessSticks]_ovars
P_OT9 == [][OT1_VerifyAllTruthful]_ovars
P_OT10 == [][OT1_VerifyAllNeverFalseNegative]_ovars
P_OT11 == [][OT1_ReadOnlyCalls]_ovars
=============================================================================
