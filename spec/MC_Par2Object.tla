--------------------------- MODULE MC_Par2Object ---------------------------
(***************************************************************************)
(* Bounded instance of Par2Object (extension X01: typestate of the         *)
(* exported par2.Decoder object).  TLC explores every interleaving of      *)
(* object calls (New, LoadFileData, LoadParityData, ShardCounts, Repair)   *)
(* with directory changes and checks the object-level truth layer OT_* on  *)
(* every transition.  The same instances are used by the trace judge       *)
(* (Trace_Object) that replays recorded call sequences of the real object. *)
(***************************************************************************)
EXTENDS Par2Instances

VARIABLES disk, vols, last, act, dec
INSTANCE Par2Object

ASSUME GF16!InitTablesp(0)
ASSUME PrintT("INSTANCE " \o ToJson([inst |-> Inst, s |-> S, names |-> Names, prot |-> Prot,
                                      vols |-> [i \in 1 .. Len(Vols) |-> SortedSeq(Vols[i])]]))

P_OT1a == [][OT_WriteDiscipline]_ovars
P_OT1b == [][OT_ListedMeansWritten]_ovars
P_OT2a == [][OT_CountsTruthfulAtLoad]_ovars
P_OT2b == [][OT_ParityCountsAtLoad]_ovars
P_OT3  == [][OT_WithinSnapshotCapacity]_ovars
P_OT4  == [][OT_TooEarly]_ovars
P_OT5  == [][OT_FailureChangesNothing]_ovars
P_OT6  == [][OT_SuccessSticks]_ovars
\* the listed property C02 lifted to the object: volumes are never touched by the object
P_Vols == [][(act' \notin {"delvol", "addvol"}) => vols' = vols]_ovars
=============================================================================
