CONSTANT Inst = "i4"
CONSTANT Positions = "obj"
SPECIFICATION LSpec
CHECK_DEADLOCK FALSE
PROPERTY Converges NeverWorse
