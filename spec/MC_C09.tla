------------------------------- MODULE MC_C09 -------------------------------
(***************************************************************************)
(* Design-level check for C09: for every even length in the grid (all up   *)
(* to MaxLen plus lengths around 2^16 and 2^17) and every path the         *)
(* decomposition tiles the buffer exactly.  Two-level generation.          *)
(***************************************************************************)
EXTENDS Integers, Sequences, TLC
CONSTANT MaxLen
K == INSTANCE Kernels
VARIABLES path, len
Paths == {"go", "asm", "ssse3"}
Big == {65534, 65536, 65538, 131070, 131072, 131074, 65536 + 32, 65536 + 30, 196608}
Init == path = "root" /\ len = -1
Next == \/ /\ path = "root" /\ path' \in Paths /\ len' = -1
        \/ /\ path # "root" /\ len = -1 /\ len' \in {2 * k : k \in 0 .. (MaxLen \div 2)} \cup Big /\ UNCHANGED path
C09_Decomposition == (path # "root" /\ len # -1) => K!DecompositionOK(path, len)
=============================================================================
