------------------------------- MODULE MC_C08 -------------------------------
(***************************************************************************)
(* Design-level model checking for C08 (never reads /repo).                *)
(*                                                                         *)
(* Every state with b # -1 is one case <<kind, a, b>>:                         *)
(*   kind = f2,f3,f4: the fields GF(4), GF(8), GF(16): all laws, with the   *)
(*                    third operand quantified inside the invariant         *)
(*   kind = f8      : GF(2^8)/0x11D (PAR1), all pairs                       *)
(*   kind = "poly"  : GF(2)[x], all pairs of polynomials of degree < PolyW  *)
(*   kind = "walk"  : the generator walk x' = 2*x in GF(2^16)/0x1100B:      *)
(*                    2 has order exactly 65535 (the PAR2 constants rely on *)
(*                    it), and the table-based product agrees with the      *)
(*                    definitional one along the way.                       *)
(* The same parametric operators (GF!Mul, GF!PowM, GF!Inv) are the ones    *)
(* the trace judges instantiate at W = 16.                                  *)
(***************************************************************************)
EXTENDS Integers, Sequences, FiniteSets, TLC

CONSTANTS PolyW, F8B

F2  == INSTANCE GF WITH W <- 2,  Poly <- 7,     Gen <- 2, Reg <- 12
F3  == INSTANCE GF WITH W <- 3,  Poly <- 11,    Gen <- 2, Reg <- 13
F4  == INSTANCE GF WITH W <- 4,  Poly <- 19,    Gen <- 2, Reg <- 14
F8  == INSTANCE GF WITH W <- 8,  Poly <- 285,   Gen <- 2, Reg <- 18
F16 == INSTANCE GF WITH W <- 16, Poly <- 69643, Gen <- 2, Reg <- 10
P   == INSTANCE GF2Poly

ASSUME F2!InitTablesp(0) /\ F3!InitTablesp(0) /\ F4!InitTablesp(0) /\ F8!InitTablesp(0) /\ F16!InitTablesp(0)
ASSUME F2!TablesOKp(0) /\ F3!TablesOKp(0) /\ F4!TablesOKp(0) /\ F8!TablesOKp(0) /\ F16!TablesOKp(0)
ASSUME F2!FastMulOKOnBasisp(0) /\ F3!FastMulOKOnBasisp(0) /\ F4!FastMulOKOnBasisp(0) /\ F8!FastMulOKOnBasisp(0)

VARIABLES kind, a, b
vars == << kind, a, b >>

Fields == {"f2", "f3", "f4", "f8"}
Wd(k) == CASE k = "f2" -> 2 [] k = "f3" -> 3 [] k = "f4" -> 4 [] k = "f8" -> 8
Elems(k) == 0 .. (2^Wd(k) - 1)
Mul(k, x, y) == CASE k = "f2" -> F2!Mul(x, y) [] k = "f3" -> F3!Mul(x, y) [] k = "f4" -> F4!Mul(x, y) [] k = "f8" -> F8!Mul(x, y)
FMul(k, x, y) == CASE k = "f2" -> F2!FastMul(x, y) [] k = "f3" -> F3!FastMul(x, y) [] k = "f4" -> F4!FastMul(x, y) [] k = "f8" -> F8!FastMul(x, y)
Inv(k, x) == CASE k = "f2" -> F2!Inv(x) [] k = "f3" -> F3!Inv(x) [] k = "f4" -> F4!Inv(x) [] k = "f8" -> F8!Inv(x)
FInv(k, x) == CASE k = "f2" -> F2!FastInv(x) [] k = "f3" -> F3!FastInv(x) [] k = "f4" -> F4!FastInv(x) [] k = "f8" -> F8!FastInv(x)
Pow(k, x, n) == CASE k = "f2" -> F2!PowM(x, n) [] k = "f3" -> F3!PowM(x, n) [] k = "f4" -> F4!PowM(x, n) [] k = "f8" -> F8!PowM(x, n)
FPow(k, x, n) == CASE k = "f2" -> F2!FastPow(x, n) [] k = "f3" -> F3!FastPow(x, n) [] k = "f4" -> F4!FastPow(x, n) [] k = "f8" -> F8!FastPow(x, n)
Xor(x, y) == F16!Add(x, y)

RECURSIVE Fold(_, _, _)
Fold(k, x, n) == IF n = 0 THEN 1 ELSE Mul(k, x, Fold(k, x, n - 1))

\* Cases are generated in two levels (root -> a chosen -> b chosen) so that TLC's workers
\* share the work; the invariants speak about complete cases (b # -1) only.
BRange(k) == IF k = "f8" THEN F8B ELSE IF k = "poly" THEN 0 .. (2^PolyW - 1) ELSE Elems(k)
ARange(k) == IF k = "poly" THEN 0 .. (2^PolyW - 1) ELSE Elems(k)

Init == kind = "root" /\ a = -1 /\ b = -1

Next == \/ /\ kind = "root"
           /\ \/ /\ kind' \in Fields \cup {"poly"}
                 /\ a' \in ARange(kind') /\ b' = -1
              \/ kind' = "walk" /\ a' = 0 /\ b' = 1
        \/ /\ kind \in Fields \cup {"poly"} /\ b = -1
           /\ b' \in BRange(kind)
           /\ UNCHANGED << kind, a >>
        \* the only long behaviour: the generator walk (the shape of gopar's table-building loop)
        \/ /\ kind = "walk" /\ a < 65535
           /\ a' = a + 1
           /\ b' = F16!Dbl(b)
           /\ UNCHANGED kind

Third(k) == IF k = "f8" THEN {0, 1, 2, 3, 29, 128, 142, 255} ELSE Elems(k)

FieldLaws ==
  (kind \in Fields /\ b # -1) =>
    /\ Mul(kind, a, b) \in Elems(kind)
    /\ Mul(kind, a, b) = Mul(kind, b, a)
    /\ Mul(kind, a, 1) = a /\ Mul(kind, a, 0) = 0
    /\ (a # 0 /\ b # 0) => Mul(kind, a, b) # 0                          \* no zero divisors
    /\ \A c \in Third(kind) :
         /\ Mul(kind, a, Xor(b, c)) = Xor(Mul(kind, a, b), Mul(kind, a, c))   \* bilinear over xor
         /\ Mul(kind, Mul(kind, a, b), c) = Mul(kind, a, Mul(kind, b, c))     \* associative
    /\ a # 0 => /\ Mul(kind, a, Inv(kind, a)) = 1
                /\ FInv(kind, a) = Inv(kind, a)
                /\ Mul(kind, Mul(kind, b, Inv(kind, a)), a) = b           \* (b/a)*a = b
    /\ FMul(kind, a, b) = Mul(kind, a, b)
    \* powers: p-fold product, 0^0 = 1, exponent laws, order of the group
    /\ \A n \in 0 .. 6 : Pow(kind, a, n) = Fold(kind, a, n) /\ FPow(kind, a, n) = Fold(kind, a, n)
    /\ \A m \in 0 .. 5 : \A n \in 0 .. 5 : Pow(kind, a, m + n) = Mul(kind, Pow(kind, a, m), Pow(kind, a, n))
    /\ a # 0 => Pow(kind, a, 2^Wd(kind) - 1) = 1
    /\ Pow(kind, a, 2^Wd(kind)) = a

PolyLaws ==
  (kind = "poly" /\ b # -1) =>
    LET p == P!OfInt(a, PolyW)
        d == P!OfInt(b, PolyW)
    IN /\ P!TimesFull(p, d) = P!TimesFull(d, p)
       /\ P!Deg(P!TimesFull(p, d)) = (IF p = {} \/ d = {} THEN -1 ELSE P!Deg(p) + P!Deg(d))
       /\ d # {} => LET qr == P!DivMod(p, d) IN P!IsDivMod(p, d, qr[1], qr[2])
       \* quotient and remainder are unique: every other pair fails
       /\ d # {} => \A q \in 0 .. (2^PolyW - 1) : \A r \in 0 .. (2^PolyW - 1) :
              P!IsDivMod(p, d, P!OfInt(q, PolyW), P!OfInt(r, PolyW))
                 => << P!OfInt(q, PolyW), P!OfInt(r, PolyW) >> = P!DivMod(p, d)

Walk ==
  kind = "walk" =>
    /\ (b = 1) <=> (a = 0 \/ a = 65535)              \* 2 has order exactly 65535
    /\ a < 65535 => F16!Tab.exp[a + 1] = b           \* the table is the walk
    /\ F16!FastMul(b, 40503) = F16!Mul(b, 40503)     \* table product = definitional product
    /\ F16!FastMul(b, b) = F16!Mul(b, b)
=============================================================================
