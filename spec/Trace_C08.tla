----------------------------- MODULE Trace_C08 -----------------------------
(***************************************************************************)
(* Trace judge for C08: calls recorded from the real gf2p16 / gf2 code are *)
(* judged against the definitional field GF(2^16)/0x1100B and against      *)
(* GF(2)[x] as sets of exponents.  One event per line of trace.ndjson.     *)
(*                                                                         *)
(* Every event is judged; a rejected event prints a VERDICT line and the   *)
(* trace continues.  POSTCONDITION AllJudged: no event was skipped.        *)
(***************************************************************************)
EXTENDS Integers, Sequences, FiniteSets, TLC, Json

GF16 == INSTANCE GF WITH W <- 16, Poly <- 69643, Gen <- 2, Reg <- 10
P == INSTANCE GF2Poly

ASSUME GF16!InitTablesp(0)
ASSUME GF16!TablesOKp(0)
ASSUME GF16!FastMulOKOnBasisp(0)

ASSUME TLCSet(1, ndJsonDeserialize("trace.ndjson"))
Trace == TLCGet(1)

VARIABLE l

ToSet(s) == {s[i] : i \in 1 .. Len(s)}

\* first index k at which the recorded result differs from the truth, 0 if none
FirstBad(n, Ok(_)) == IF \A k \in 1 .. n : Ok(k) THEN 0 ELSE CHOOSE k \in 1 .. n : ~Ok(k) /\ \A j \in 1 .. (k - 1) : Ok(j)

JTimes(e) == FirstBad(Len(e.b), LAMBDA k : e.r[k] = GF16!FastMul(e.a, e.b[k]))
\* a/b = a * inverse(b): b # 0 in every recorded call
JDiv(e)   == FirstBad(Len(e.b), LAMBDA k : e.b[k] # 0 /\ GF16!FastMul(e.r[k], e.b[k]) = e.a
                                          /\ e.r[k] = GF16!FastMul(e.a, GF16!FastInv(e.b[k])))
\* a * inverse(a) = 1, judged with the definitional product
JInv(e)   == FirstBad(Len(e.a), LAMBDA k : e.a[k] # 0 /\ GF16!Mul(e.a[k], e.r[k]) = 1)
\* a^p is the p-fold product, 0^0 = 1; p = hi*65536 + lo
JPow(e)   == FirstBad(Len(e.lo), LAMBDA k : e.r[k] = GF16!PowBig(e.a, e.hi[k], e.lo[k]))
\* small exponents: literally the p-fold product
RECURSIVE Fold(_, _)
Fold(a, n) == IF n = 0 THEN 1 ELSE GF16!Mul(a, Fold(a, n - 1))
JPowSmall(e) == FirstBad(Len(e.p), LAMBDA k : e.r[k] = Fold(e.a, e.p[k]))
\* definitional (shift-xor-reduce) product, used for nominated cases and samples
JTimesDef(e) == FirstBad(Len(e.b), LAMBDA k : e.r[k] = GF16!Mul(e.a, e.b[k]))

JPTimes(e) == IF ToSet(e.r) = P!TimesMod(ToSet(e.p), ToSet(e.q), 64) THEN 0 ELSE 1
JPDiv(e)   == IF ~e.timeout /\ P!IsDivMod(ToSet(e.p), ToSet(e.d), ToSet(e.q), ToSet(e.r)) THEN 0 ELSE 1

\* closure sweeps run in Go only nominate; they must report their own mismatches as events
JSweep(e) == IF e.nominated = e.mismatches \/ e.nominated = e.cap THEN 0 ELSE 1

Judge(e) ==
  CASE e.ev = "times"    -> << "C08.times", JTimes(e) >>
    [] e.ev = "timesdef" -> << "C08.times_definitional", JTimesDef(e) >>
    [] e.ev = "div"      -> << "C08.div", JDiv(e) >>
    [] e.ev = "inv"      -> << "C08.inverse", JInv(e) >>
    [] e.ev = "pow"      -> << "C08.pow", JPow(e) >>
    [] e.ev = "powsmall" -> << "C08.pow_fold", JPowSmall(e) >>
    [] e.ev = "ptimes"   -> << "C08.poly_times", JPTimes(e) >>
    [] e.ev = "pdiv"     -> << "C08.poly_div", JPDiv(e) >>
    [] e.ev = "sweep"    -> << "C08.sweep_bookkeeping", JSweep(e) >>
    [] OTHER             -> << "C08.unknown_event", 1 >>

Init == l = 1
Next == /\ l <= Len(Trace)
        /\ LET v == Judge(Trace[l]) IN
             IF v[2] = 0 THEN TRUE
             ELSE PrintT("VERDICT " \o ToJson([i |-> l, clause |-> v[1], k |-> v[2]]))
        /\ l' = l + 1

AllJudged == /\ PrintT("JUDGED " \o ToJson([n |-> TLCGet("stats").diameter - 1]))
             /\ TLCGet("stats").diameter - 1 = Len(Trace)
=============================================================================
