------------------------------- MODULE Matrix -------------------------------
(***************************************************************************)
(* Matrices over a field given by operator parameters (instantiated with   *)
(* GF!Mul / GF!FastMul of any of the fields).  A matrix is a sequence of   *)
(* rows, each a sequence of field elements.                                *)
(*                                                                         *)
(* TRUTH LAYER:     Times, Identity, IsInverse, Det (by elimination),      *)
(*                  Singular, IsKernelVector.                              *)
(* ALGORITHM LAYER: RowReduce(M, N) -- gopar's rowReduceForInverse         *)
(*                  transcribed step by step (first non-zero pivot at or   *)
(*                  below the diagonal, swap, scale by the pivot's         *)
(*                  inverse, eliminate below; then eliminate above),       *)
(*                  applied to both operands.                              *)
(***************************************************************************)
EXTENDS Integers, Sequences, FiniteSets, TLC

SX == INSTANCE SequencesExt

CONSTANTS MulOp(_, _), InvOp(_), AddOp(_, _)

Rows(M) == Len(M)
Cols(M) == IF Len(M) = 0 THEN 0 ELSE Len(M[1])

\* xor-sum of a sequence of field elements (FoldLeft has a Java implementation in TLC: linear time)
Sum(f) == SX!FoldLeft(LAMBDA a, b : AddOp(a, b), 0, f)

\* (TLCEval: TLC's function constructors are lazy and not memoised; without forcing them the
\*  chains of row operations below are re-evaluated on every access)
Times(A, B) ==
  TLCEval([i \in 1 .. Rows(A) |-> [j \in 1 .. Cols(B) |->
      Sum([k \in 1 .. Cols(A) |-> MulOp(A[i][k], B[k][j])])]])

Identity(n) == [i \in 1 .. n |-> [j \in 1 .. n |-> IF i = j THEN 1 ELSE 0]]
Zero(r, c) == [i \in 1 .. r |-> [j \in 1 .. c |-> 0]]

IsInverse(X, M) == Times(X, M) = Identity(Rows(M))

\* M * v for a column vector given as a sequence
Apply(M, v) == TLCEval([i \in 1 .. Rows(M) |-> Sum([k \in 1 .. Len(v) |-> MulOp(M[i][k], v[k])])])
IsKernelVector(M, v) ==
  /\ Len(v) = Cols(M)
  /\ \E k \in 1 .. Len(v) : v[k] # 0
  /\ \A i \in 1 .. Rows(M) : Apply(M, v)[i] = 0

Min(Sx) == CHOOSE x \in Sx : \A y \in Sx : x <= y

(***************************************************************************)
(* Determinant by elimination on the first column (char 2: no signs).      *)
(***************************************************************************)
RECURSIVE Det(_)
Det(M) ==
  IF Len(M) = 0 THEN 1
  ELSE LET n   == Len(M)
           piv == {r \in 1 .. n : M[r][1] # 0}
       IN IF piv = {} THEN 0
          ELSE LET r    == Min(piv)
                   p    == M[r][1]
                   pinv == InvOp(p)
                   rest == [i \in 1 .. (n - 1) |-> IF i < r THEN M[i] ELSE M[i + 1]]
                   red  == TLCEval([i \in 1 .. (n - 1) |->
                              LET f == MulOp(rest[i][1], pinv)
                              IN [j \in 1 .. (n - 1) |-> AddOp(rest[i][j + 1], MulOp(f, M[r][j + 1]))]])
               IN MulOp(p, Det(red))

Singular(M) == Det(M) = 0

(***************************************************************************)
(* ALGORITHM LAYER: rowReduceForInverse(m, n).  State <<m, n>>.            *)
(***************************************************************************)
SwapRows(M, i, j) == TLCEval([r \in 1 .. Len(M) |-> IF r = i THEN M[j] ELSE IF r = j THEN M[i] ELSE M[r]])
ScaleRow(M, i, c) == TLCEval([r \in 1 .. Len(M) |-> IF r = i THEN [k \in 1 .. Len(M[r]) |-> MulOp(c, M[r][k])] ELSE M[r]])
\* row dest += c * row src
AddScaledRow(M, dest, src, c) ==
  TLCEval([r \in 1 .. Len(M) |-> IF r = dest THEN [k \in 1 .. Len(M[r]) |-> AddOp(M[r][k], MulOp(c, M[src][k]))] ELSE M[r]])

\* eliminate column i from the rows in the sequence js (in order), using row i
RECURSIVE Elim(_, _, _, _)
Elim(m, n, i, js) ==
  IF js = << >> THEN << m, n >>
  ELSE LET j == Head(js)
           t == m[j][i]
       IN IF t = 0 THEN Elim(m, n, i, Tail(js))
          ELSE Elim(AddScaledRow(m, j, i, t), AddScaledRow(n, j, i, t), i, Tail(js))

Range(a, b) == [k \in 1 .. (IF b >= a THEN b - a + 1 ELSE 0) |-> a + k - 1]

RECURSIVE Forward(_, _, _)
Forward(m, n, i) ==
  IF i > Len(m) THEN [err |-> FALSE, m |-> m, n |-> n]
  ELSE LET cand == {j \in i .. Len(m) : m[j][i] # 0}
       IN IF cand = {} THEN [err |-> TRUE, m |-> m, n |-> n]
          ELSE LET j    == Min(cand)
                   m1   == SwapRows(m, i, j)
                   n1   == SwapRows(n, i, j)
                   pinv == InvOp(m1[i][i])
                   m2   == ScaleRow(m1, i, pinv)
                   n2   == ScaleRow(n1, i, pinv)
                   e    == Elim(m2, n2, i, Range(i + 1, Len(m)))
               IN Forward(e[1], e[2], i + 1)

RECURSIVE Backward(_, _, _)
Backward(m, n, i) ==
  IF i > Len(m) THEN << m, n >>
  ELSE LET e == Elim(m, n, i, Range(1, i - 1)) IN Backward(e[1], e[2], i + 1)

\* result: [err |-> TRUE] (singular) or [err |-> FALSE, n |-> reduced n, m |-> reduced m (= identity)]
RowReduce(M, N) ==
  LET f == Forward(M, N, 1)
  IN IF f.err THEN [err |-> TRUE]
     ELSE LET b == Backward(f.m, f.n, 1) IN [err |-> FALSE, m |-> b[1], n |-> b[2]]

Inverse(M) == RowReduce(M, Identity(Len(M)))
=============================================================================
