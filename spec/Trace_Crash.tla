----------------------------- MODULE Trace_Crash -----------------------------
(***************************************************************************)
(* Judge for the one observation a driver cannot record itself: the        *)
(* harness process was killed by a panic or a fatal runtime error raised   *)
(* inside the code under test, in a goroutine where no recover() of the    *)
(* harness can reach (a worker goroutine of rsec16, a deadlock of the      *)
(* decoder's own goroutines, concurrent map writes).  Every listed         *)
(* property presupposes that the operation returns; the supervisor         *)
(* (tools/vlib.py) records the event after reading the crash dump: the     *)
(* first non-runtime frame of the crashing goroutine's stack decides       *)
(* whether the code under test or the harness is to blame.                 *)
(***************************************************************************)
EXTENDS Integers, Sequences, TLC, Json
ASSUME TLCSet(1, ndJsonDeserialize("trace.ndjson"))
Trace == TLCGet(1)
VARIABLE l
Init == l = 1
Next == /\ l <= Len(Trace)
        /\ LET e == Trace[l] IN
             (e.ev = "crash" /\ e.in_code_under_test) =>
                 PrintT("VERDICT " \o ToJson([i |-> l, clause |-> e.property \o ".process_crashed_in_code_under_test"]))
        /\ l' = l + 1
AllJudged == /\ PrintT("JUDGED " \o ToJson([n |-> TLCGet("stats").diameter - 1]))
             /\ TLCGet("stats").diameter - 1 = Len(Trace)
=============================================================================
