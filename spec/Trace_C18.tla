----------------------------- MODULE Trace_C18 -----------------------------
(***************************************************************************)
(* Trace judge for C18: the real Create / Verify / Repair run on a real    *)
(* directory through an injecting file system (hook H2) that fails exactly *)
(* one call (or one call in each of two consecutive runs).  Each event has *)
(*   shape : fmt, op, n files read, m volume reads, w files to write, v    *)
(*           volumes to create -- counted by the harness on a fault-free   *)
(*           run of the same state                                         *)
(*   calls : the kinds of the calls actually issued (the call log)         *)
(*   k, fk : index and kind of the injected fault (0 = none)               *)
(*   res   : error reported?, repaired paths                               *)
(*   torn / failed path, what changed on disk, whether every changed       *)
(*           protected file equals its original                            *)
(*   rerun : result of the clean rerun, and what a fault-free run gives    *)
(* BINDING: the call log must be the operation's step language cut at the  *)
(* fault (IOFaults!Calls).  Then the four clauses of the property.         *)
(***************************************************************************)
EXTENDS Integers, Sequences, FiniteSets, TLC, Json
ASSUME TLCSet(1, ndJsonDeserialize("trace.ndjson"))
Trace == TLCGet(1)
INSTANCE IOFaults
VARIABLE l
ToSet(s) == {s[i] : i \in 1 .. Len(s)}

Verdicts(e) ==
  \* an index file that lacks mandatory packets ends the operation after it has been read (states "short-index..")
  LET full == IF e.index_usable THEN Calls(e.fmt, e.op, e.n, e.m, e.w, e.v) ELSE << "read" >> IN
  (IF ObservedOK(e.calls, full, e.k) THEN {} ELSE {"C18.call_log_is_step_language"})
  \cup (IF (e.k > 0 /\ e.k <= Len(full)) => e.res.err THEN {} ELSE {"C18.failure_is_reported"})
  \cup (IF e.k = 0 => (e.res.err = e.baseline.err) THEN {} ELSE {"C18.no_fault_no_difference"})
  \cup (IF e.failed_path # "" => e.failed_path \notin ToSet(e.res.repaired) THEN {} ELSE {"C18.failed_write_not_reported_repaired"})
  \cup (IF \A p \in ToSet(e.changed) : p = e.failed_path \/ p \in ToSet(e.completed_writes) THEN {} ELSE {"C18.only_the_written_path_changes"})
  \cup (IF e.completed_ok THEN {} ELSE {"C18.completed_writes_are_exact"})
  \* every file Repair wrote is listed in its result, also when a later step failed (C02)
  \cup (IF (e.op = "repair" /\ ~e.pair) => \A p \in ToSet(e.completed_writes) : p \in ToSet(e.res.repaired)
        THEN {} ELSE {"C02.written_files_are_listed"})
  \cup (IF e.rerun.expected_ok => (~e.rerun.err /\ e.rerun.same_as_fault_free) THEN {} ELSE {"C18.clean_rerun_as_if_no_fault"})
  \cup (IF ~e.panicked THEN {} ELSE {"C13.no_panic"})

Init == l = 1
Next == /\ l <= Len(Trace)
        /\ \A v \in Verdicts(Trace[l]) : PrintT("VERDICT " \o ToJson([i |-> l, clause |-> v]))
        /\ l' = l + 1
AllJudged == /\ PrintT("JUDGED " \o ToJson([n |-> TLCGet("stats").diameter - 1]))
             /\ TLCGet("stats").diameter - 1 = Len(Trace)
=============================================================================
