----------------------------- MODULE Par1Format -----------------------------
(***************************************************************************)
(* TRUTH LAYER: well-formedness of PAR 1.0 files over a record view        *)
(* produced by an independent tokenizer (harness/refpar1).                 *)
(*   header: "PAR\0\0\0\0\0", version 1.0 in the low half of the version   *)
(*     field, file list at 0x60, sizes and offsets consistent with the     *)
(*     file, control hash = md5 of the bytes from 0x20, set hash = md5 of  *)
(*     the concatenated file hashes of the entries saved in the parity set *)
(*   entries: size = 56 + 2 * UTF-16 code units of the name, status bit 0, *)
(*     file size, md5, md5 of the first 16 KiB                             *)
(*   volume v (v >= 1): data[k] = SUM_i i^(v-1) * file_i[k] over           *)
(*     GF(2^8)/0x11D, saved files numbered from 1, zero-padded to the      *)
(*     longest; the index volume has number 0 and carries the comment.     *)
(***************************************************************************)
EXTENDS Integers, Sequences, FiniteSets, TLC

GF8 == INSTANCE GF WITH W <- 8, Poly <- 285, Gen <- 2, Reg <- 18
SX == INSTANCE SequencesExt

RECURSIVE SumSeq(_)
SumSeq(s) == IF s = << >> THEN 0 ELSE Head(s) + SumSeq(Tail(s))

HeaderOK(f) ==
  /\ f.ok /\ f.id_ok /\ f.version_low = 65536
  /\ f.control_stored = f.control_actual
  /\ f.sethash_stored = f.sethash_saved
  /\ f.list_offset = 96
  /\ f.list_size = SumSeq([k \in 1 .. Len(f.entries) |-> f.entries[k].entry_bytes])
  /\ f.data_offset = 96 + f.list_size
  /\ f.data_offset + f.data_size = f.size
  /\ f.file_count = Len(f.entries)
  /\ f.data_len = f.data_size

\* the entries describe exactly the given inputs, in order, all saved in the parity set
EntriesAre(f, inputs) ==
  /\ Len(f.entries) = Len(inputs)
  /\ \A k \in 1 .. Len(inputs) :
        LET en == f.entries[k]
            i == inputs[k]
        IN /\ en.saved = i.saved
           /\ en.file_bytes = i.len /\ en.md5 = i.md5 /\ en.md5_16k = i.md5_16k
           /\ en.name_units = i.name_units
           /\ en.entry_bytes = 56 + 2 * Len(i.name_units)

\* parity bytes at the logged byte columns: cols are offsets, e.filecols[i][c] the (padded) byte of
\* saved file i at offset cols[c]
ParityOK(f, e) ==
  /\ f.data_size = e.maxlen
  /\ \A c \in 1 .. Len(e.cols) :
        f.datacols[c] = SX!FoldLeft(LAMBDA a, b : GF8!Add(a, b), 0,
                           [i \in 1 .. Len(e.filecols) |-> GF8!FastMul(GF8!FastPow(i, f.volume - 1), e.filecols[i][c])])

\* a whole set written for the inputs e.inputs with e.nvols parity volumes
SetVerdicts(e, prefix) ==
  LET files == e.files
      idx == {k \in 1 .. Len(files) : files[k].volume = 0}
      vols == {k \in 1 .. Len(files) : files[k].volume # 0}
  IN (IF \A k \in 1 .. Len(files) : HeaderOK(files[k]) THEN {} ELSE {prefix \o "header"})
     \cup (IF \A k \in 1 .. Len(files) : EntriesAre(files[k], e.inputs) THEN {} ELSE {prefix \o "entries"})
     \cup (IF Cardinality(idx) = 1 THEN {} ELSE {prefix \o "one_index_volume"})
     \cup (IF {files[k].volume : k \in vols} = 1 .. e.nvols /\ Cardinality(vols) = e.nvols THEN {} ELSE {prefix \o "volumes_1_to_n_once"})
     \cup (IF \A k \in vols : ParityOK(files[k], e) THEN {} ELSE {prefix \o "parity_data"})
     \cup (IF \A k \in idx : files[k].data_len = e.comment_len THEN {} ELSE {prefix \o "index_payload"})
     \cup (IF \A a, b \in 1 .. Len(files) : files[a].sethash_stored = files[b].sethash_stored THEN {} ELSE {prefix \o "set_hash_same"})
=============================================================================
