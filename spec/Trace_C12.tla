----------------------------- MODULE Trace_C12 -----------------------------
(***************************************************************************)
(* Trace judge for C12.                                                    *)
(*  sched   : one TLC-generated interleaving forced on the real goroutines *)
(*            through the gate hook.  The recorded kernel calls must be a  *)
(*            behaviour of Parallel (each call is the next call of that    *)
(*            worker: row, input, range exactly as specified), follow the  *)
(*            schedule, cover every call of every worker, and the bytes    *)
(*            after every step / at the end must equal the reference.      *)
(*  ranges  : the ranges the real code used for (len, g): exactly the      *)
(*            partition of Parallel, which satisfies StaticOK.             *)
(*  gresult : ungated results equal those of one goroutine.                *)
(*  gcompare: par2.Create / Repair outputs equal for every goroutine count *)
(*  race    : data races reported by the Go race detector (must be 0).     *)
(***************************************************************************)
EXTENDS Integers, Sequences, FiniteSets, TLC, Json

ASSUME TLCSet(1, ndJsonDeserialize("trace.ndjson"))
Trace == TLCGet(1)

P == INSTANCE Parallel WITH NBytes <- 2, G <- 1, Rows <- 1, Ins <- 1,
                            prog <- 0, fin <- 0, joined <- 0, out <- 0, acc <- 0
VARIABLE l

\* replay the recorded calls through the worker state machine; returns TRUE iff every call is
\* the specified next call of its worker and, at the end, every worker has made all its calls
RECURSIVE Replay(_, _, _)
Replay(e, k, prog) ==
  IF k > Len(e.steps)
  THEN \A w \in P!WorkersOf(e.nbytes, e.g) : prog[w] = e.rows * e.ins
  ELSE LET st == e.steps[k]
           w  == st[1]
       IN /\ w \in P!WorkersOf(e.nbytes, e.g)
          /\ prog[w] < e.rows * e.ins
          /\ st[2] = prog[w] \div e.ins                   \* row (from 0 in the code)
          /\ st[3] = prog[w] % e.ins                      \* input index
          /\ st[4] = P!LoOf(e.nbytes, e.g, w)
          /\ st[5] = P!HiOf(e.nbytes, e.g, w)
          /\ Replay(e, k + 1, [prog EXCEPT ![w] = @ + 1])

SchedFollowed(e) == Len(e.steps) = Len(e.sched) /\ \A k \in 1 .. Len(e.sched) : e.steps[k][1] = e.sched[k]
RangesDisjoint(e) ==
  \A a, b \in 1 .. Len(e.steps) :
     e.steps[a][1] # e.steps[b][1] => (e.steps[a][5] <= e.steps[b][4] \/ e.steps[b][5] <= e.steps[a][4])

AllEqual(s) == \A i \in 1 .. Len(s) : s[i] = s[1]

Clauses(e) ==
  CASE e.ev = "sched" ->
        << << "C12.not_stuck", ~e.stuck /\ e.finished >>,
           << "C12.behaviour_of_spec", Replay(e, 1, [w \in P!WorkersOf(e.nbytes, e.g) |-> 0]) >>,
           << "C12.schedule_followed", SchedFollowed(e) >>,
           << "C12.ranges_disjoint", RangesDisjoint(e) >>,
           << "C12.bytes_after_every_step", e.prefix_ok >>,
           << "C12.final_equals_reference", e.final_ok >>,
           << "C12.final_equals_single_threaded", e.single_ok >>,
           << "C12.inputs_unmodified", e.inputs_ok >> >>
    [] e.ev = "ranges" ->
        << << "C12.partition_is_spec",
              /\ Len(e.ranges) = P!NOf(e.len, e.g)
              /\ \A w \in P!WorkersOf(e.len, e.g) :
                    e.ranges[w + 1] = << P!LoOf(e.len, e.g, w), P!HiOf(e.len, e.g, w) >> >>,
           << "C12.partition_static_ok", P!StaticOK(e.len, e.g) >>,
           << "C12.params_agree", e.per = P!PerOf(e.len, e.g) /\ e.n = P!NOf(e.len, e.g) >>,
           << "C12.proof_hypotheses_hold", P!ProofHypotheses(e.len, e.g) >> >>
    [] e.ev = "gresult" ->
        << << "C12.parity_same_for_every_g", e.parity_equal >>,
           << "C12.reconstruction_same_for_every_g", e.reconstruct_equal >> >>
    [] e.ev = "gcompare" ->
        << << "C12.create_same_for_every_g", AllEqual(e.create_digests) >>,
           << "C12.repair_same_for_every_g", AllEqual(e.repair_digests) >> >>
    [] e.ev = "race" ->
        << << "C12.race_detector_clean", e.races = 0 >> >>
    [] OTHER -> << << "C12.unknown_event", FALSE >> >>

Failed(e) == LET c == Clauses(e) IN {c[i][1] : i \in {j \in 1 .. Len(c) : ~c[j][2]}}

Init == l = 1
Next == /\ l <= Len(Trace)
        /\ \A c \in Failed(Trace[l]) : PrintT("VERDICT " \o ToJson([i |-> l, clause |-> c]))
        /\ l' = l + 1
AllJudged == /\ PrintT("JUDGED " \o ToJson([n |-> TLCGet("stats").diameter - 1]))
             /\ TLCGet("stats").diameter - 1 = Len(Trace)
=============================================================================
