CONSTANT MaxD = 5
CONSTANT MaxP = 4
INIT Init
NEXT Next
CHECK_DEADLOCK FALSE
ACTION_CONSTRAINT Emit
INVARIANT C07_All
