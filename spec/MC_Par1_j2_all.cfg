CONSTANT Inst = "j2"
CONSTANT Positions = "all"
INIT Init
NEXT Next
VIEW View
CHECK_DEADLOCK FALSE
ACTION_CONSTRAINT Emit
PROPERTY P_C04a P_C04b P_C04c P_C04d P_C02a P_C02b P_C14a P_C14b P_C14c
