------------------------------ MODULE Parallel ------------------------------
(***************************************************************************)
(* The only concurrency in gopar: rsec16.applyMatrixParallelData.          *)
(*                                                                         *)
(* calculateParallelParams(len, g, 16, 16) cuts the shard length into      *)
(* ranges of Per bytes (a multiple of 16, at least 16), the last one        *)
(* clamped; one goroutine per range computes that range of EVERY output    *)
(* row: out[i][rng] := c_i0 * in[0][rng], then out[i][rng] ^= c_ij *       *)
(* in[j][rng] for j = 1..Ins-1 -- one atomic step per kernel call -- and a *)
(* WaitGroup joins them.                                                   *)
(*                                                                         *)
(* The data is abstracted: out[r][w] is the set of input indices already   *)
(* folded into bytes Rng(w) of output row r (the replayer compares the     *)
(* real bytes).  acc[w] is the last access of worker w.                    *)
(***************************************************************************)
EXTENDS Integers, Sequences, FiniteSets, TLC

CONSTANTS NBytes,   \* bytes per shard (even)
          G,        \* requested number of goroutines
          Rows,     \* output rows
          Ins       \* input shards

(**************** the partition, parameterised (also used by the judges) ***)
Max(a, b) == IF a >= b THEN a ELSE b
CeilDiv(a, b) == (a + b - 1) \div b
RoundUp16(x) == IF (x % 16) = 0 THEN x ELSE x + (16 - (x % 16))
PerOf(len, g) == RoundUp16(Max(CeilDiv(len, g), 16))
NOf(len, g) == CeilDiv(len, PerOf(len, g))
WorkersOf(len, g) == 0 .. (NOf(len, g) - 1)
LoOf(len, g, w) == w * PerOf(len, g)
HiOf(len, g, w) == IF (w + 1) * PerOf(len, g) > len THEN len ELSE (w + 1) * PerOf(len, g)
RngOf(len, g, w) == LoOf(len, g, w) .. (HiOf(len, g, w) - 1)

\* P1: the ranges are non-empty, word-aligned, pairwise disjoint, cover [0, len), at most g
StaticOK(len, g) ==
  /\ NOf(len, g) >= 1 /\ NOf(len, g) <= g
  /\ \A w \in WorkersOf(len, g) :
        /\ LoOf(len, g, w) < HiOf(len, g, w)
        /\ (LoOf(len, g, w) % 2) = 0 /\ (HiOf(len, g, w) % 2) = 0
        /\ (LoOf(len, g, w) % 16) = 0
  /\ \A v, w \in WorkersOf(len, g) : v # w => RngOf(len, g, v) \cap RngOf(len, g, w) = {}
  /\ UNION {RngOf(len, g, w) : w \in WorkersOf(len, g)} = 0 .. (len - 1)

\* the hypotheses of the TLAPS theorems in proofs/PartitionProof.tla (which hold for unbounded
\* len and g): TLC checks them for the grid, the trace judge for every recorded partition
ProofHypotheses(len, g) ==
  LET per == PerOf(len, g)
      n == NOf(len, g)
  IN /\ per >= 1 /\ per * g >= len
     /\ (n - 1) * per < len /\ len <= n * per
     /\ (per % 16) = 0

(**************** the worker pool ******************************************)
Workers == WorkersOf(NBytes, G)
Lo(w) == LoOf(NBytes, G, w)
Hi(w) == HiOf(NBytes, G, w)
Calls == Rows * Ins                       \* kernel calls per worker

VARIABLES prog,     \* prog[w]: kernel calls worker w has completed
          fin,      \* workers that have returned (wg.Done)
          joined,   \* wg.Wait has returned
          out,      \* out[r][w]: inputs folded into Rng(w) of row r
          acc       \* acc[w]: << row, lo, hi >> of the last access, or << >>
vars == << prog, fin, joined, out, acc >>

RowOf(k) == (k \div Ins) + 1             \* row of the (k+1)-th call, rows from 1
InOf(k) == k % Ins                        \* input index of the (k+1)-th call, from 0

Init == /\ prog = [w \in Workers |-> 0]
        /\ fin = {}
        /\ joined = FALSE
        /\ out = [r \in 1 .. Rows |-> [w \in Workers |-> {}]]
        /\ acc = [w \in Workers |-> << >>]

Step(w) == /\ prog[w] < Calls
           /\ LET r == RowOf(prog[w])
                  j == InOf(prog[w])
              IN /\ out' = [out EXCEPT ![r][w] = IF j = 0 THEN {0} ELSE @ \cup {j}]
                 /\ acc' = [acc EXCEPT ![w] = << r, Lo(w), Hi(w) >>]
           /\ prog' = [prog EXCEPT ![w] = @ + 1]
           /\ UNCHANGED << fin, joined >>

Finish(w) == /\ prog[w] = Calls /\ w \notin fin
             /\ fin' = fin \cup {w}
             /\ UNCHANGED << prog, joined, out, acc >>

Join == /\ fin = Workers /\ ~joined
        /\ joined' = TRUE
        /\ UNCHANGED << prog, fin, out, acc >>

Next == (\E w \in Workers : Step(w) \/ Finish(w)) \/ Join
Spec == Init /\ [][Next]_vars /\ WF_vars(Next)
FairSpec == Init /\ [][Next]_vars /\ \A w \in Workers : WF_vars(Step(w) \/ Finish(w)) /\ WF_vars(Join)

(**************** properties ***********************************************)
Static == StaticOK(NBytes, G)
\* P2: accesses of different workers to the same row never overlap
RaceFree == \A v, w \in Workers :
               (v # w /\ acc[v] # << >> /\ acc[w] # << >> /\ acc[v][1] = acc[w][1])
                  => (acc[v][3] <= acc[w][2] \/ acc[w][3] <= acc[v][2])
\* P3: at the barrier every range of every row holds the complete sum, as single-threaded
Result == joined => \A r \in 1 .. Rows : \A w \in Workers : out[r][w] = 0 .. (Ins - 1)
\* a row is never accumulated into before it has been overwritten by input 0
OverwriteFirst == \A r \in 1 .. Rows : \A w \in Workers : out[r][w] # {} => 0 \in out[r][w]
NoLostWorker == <>joined
=============================================================================
