----------------------------- MODULE Trace_C20 -----------------------------
(***************************************************************************)
(* Trace judge for C20: every event is one run of the par binary built     *)
(* from the working tree.  The harness reports what was asked (case), the  *)
(* ground truth of the directory it constructed (needed / possible /       *)
(* index_ok, derived from the bytes), the exit status, whether the process *)
(* died with a Go panic trace, and facts about the directory afterwards.   *)
(* Cli!Admissible decides.                                                 *)
(***************************************************************************)
EXTENDS Integers, Sequences, FiniteSets, TLC, Json
ASSUME TLCSet(1, ndJsonDeserialize("trace.ndjson"))
Trace == TLCGet(1)
INSTANCE Cli
VARIABLE l

Verdicts(e) ==
  LET c == [e.c EXCEPT !.needed = e.truth.needed, !.possible = e.truth.possible, !.index_ok = e.truth.index_ok,
                        !.inputs_ok = e.truth.inputs_ok, !.iofail = e.truth.iofail]
  IN (IF e.status \in Admissible(c) THEN {}
      ELSE {IF e.status = 0 THEN "C20.zero_without_success"
            ELSE IF c.usage \notin {"none", "help"} THEN "C20.usage_error_not_3"
            ELSE IF c.cmd = "verify" /\ c.index_ok /\ c.ext # "unknown" THEN "C20.verify_status"
            ELSE IF c.cmd = "repair" /\ c.index_ok /\ c.ext # "unknown" THEN "C20.repair_status"
            ELSE "C20.failure_status"})
     \cup (IF PostOK(c, e.status, e.post) THEN {} ELSE {"C20.post_state"})
     \cup (IF ~e.crashed THEN {} ELSE {"C20.crashed"})
     \cup (IF e.truth.matches_model THEN {} ELSE {"OBS.state_not_as_modelled"})

Init == l = 1
Next == /\ l <= Len(Trace)
        /\ \A v \in Verdicts(Trace[l]) : PrintT("VERDICT " \o ToJson([i |-> l, clause |-> v]))
        /\ l' = l + 1
AllJudged == /\ PrintT("JUDGED " \o ToJson([n |-> TLCGet("stats").diameter - 1]))
             /\ TLCGet("stats").diameter - 1 = Len(Trace)
=============================================================================
