CONSTANT Inst = "j2"
CONSTANT Positions = "few"
SPECIFICATION LSpec
CHECK_DEADLOCK FALSE
PROPERTY Converges
