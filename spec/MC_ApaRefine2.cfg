CONSTANT MaxVersion = 4
CONSTANT R = 3
SPECIFICATION ESpec
PROPERTY Refines
CHECK_DEADLOCK FALSE
