----------------------------- MODULE Trace_C17 -----------------------------
(***************************************************************************)
(* Trace judge for C17: a 2-safety property over recorded executions of    *)
(* Create (library and command line).  Each event carries the KEY (format, *)
(* file set, and for PAR1 the order of the inputs) and the digests of      *)
(* every file Create wrote, keyed by path relative to the index file's     *)
(* directory.  The judge remembers the first output seen for each KEY and  *)
(* requires every later one to be identical.                               *)
(***************************************************************************)
EXTENDS Integers, Sequences, FiniteSets, TLC, Json
ASSUME TLCSet(1, ndJsonDeserialize("trace.ndjson"))
Trace == TLCGet(1)
VARIABLES l, seen

Init == l = 1 /\ seen = [k \in {} |-> << >>]
Next == /\ l <= Len(Trace)
        /\ LET e == Trace[l] IN
             /\ (e.err # "" => PrintT("VERDICT " \o ToJson([i |-> l, clause |-> "C17.create_succeeds"])))
             /\ (e.outside # << >> => PrintT("VERDICT " \o ToJson([i |-> l, clause |-> "C17.writes_only_the_set"])))
             /\ IF e.err # "" THEN UNCHANGED seen
                ELSE IF e.key \in DOMAIN seen
                THEN /\ (seen[e.key] # e.digests =>
                            PrintT("VERDICT " \o ToJson([i |-> l, clause |-> "C17.same_key_same_bytes"])))
                     /\ UNCHANGED seen
                ELSE seen' = [k \in DOMAIN seen \cup {e.key} |-> IF k = e.key THEN e.digests ELSE seen[k]]
        /\ l' = l + 1
AllJudged == /\ PrintT("JUDGED " \o ToJson([n |-> TLCGet("stats").diameter - 1]))
             /\ TLCGet("stats").diameter - 1 = Len(Trace)
=============================================================================
