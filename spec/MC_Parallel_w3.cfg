CONSTANT NBytes = 40
CONSTANT G = 3
CONSTANT Rows = 2
CONSTANT Ins = 2
SPECIFICATION FairSpec
CHECK_DEADLOCK FALSE
INVARIANT Static RaceFree Result OverwriteFirst
PROPERTY NoLostWorker
ACTION_CONSTRAINT Emit
