---------------------------- MODULE Trace_FileIO ----------------------------
(***************************************************************************)
(* Trace validation for the EXTENSION X05 (spec/FileIO.tla).  The driver   *)
(* applies the same sequence of calls to the real operating-system file    *)
(* layer (par2's defaultFileIO for ReadFile / WriteFile /                  *)
(* FindWithPrefixAndSuffix, os.Remove / os.Rename / os.Mkdir for the rest) *)
(* in a sandbox directory and to a real memfs.MemFS, and logs both results *)
(* of every call.  The judge keeps the two abstract states of FileIO, and  *)
(* for every event                                                         *)
(*   X05.conf.os..  : the OS result equals the model's OS prediction,      *)
(*   X05.conf.mem.. : the MemFS result equals the model's MemFS prediction,*)
(*   X05.truth..    : with equivalent states and no named deviation the    *)
(*                    two OBSERVED results are equal (on the recorded      *)
(*                    values only),                                        *)
(* then advances both abstract states by the model.  Paths are arbitrary   *)
(* character sequences here (the operators of FileIO are generic).         *)
(***************************************************************************)
EXTENDS Integers, Sequences, FiniteSets, TLC, Json

ASSUME TLCSet(1, ndJsonDeserialize("trace.ndjson"))
Trace == TLCGet(1)

VARIABLES osf, osd, mem, last, act, l
F == INSTANCE FileIO WITH Universe <- {}, Datas <- {}, Slash <- 0, Prefixes <- {}, Suffixes <- {}

V(i, c) == PrintT("VERDICT " \o ToJson([i |-> i, clause |-> c]))
Chk(i, c, ok) == (~ok) => V(i, c)
ToSetOf(s) == {s[k] : k \in 1 .. Len(s)}

Init == F!FInit /\ l = 1

\* observed result -> the shape of the model's results
ObsVal(e, r) == IF e.op = "find" THEN ToSetOf(r.val) ELSE r.val
Obs(e, r) == [err |-> r.err, val |-> IF r.err = "" THEN ObsVal(e, r) ELSE << >>]

Judge(e, dev) ==
  /\ Chk(l, "X05.conf.os." \o e.op, Obs(e, e.os) = last'.os)
  /\ Chk(l, "X05.conf.mem." \o e.op, Obs(e, e.mem) = last'.mem)
  /\ Chk(l, "X05.truth.faithful_outside_deviations", (F!Equivalent /\ ~dev) => Obs(e, e.os) = Obs(e, e.mem))
  /\ Chk(l, "X05.truth.no_panic", e.os.err # "panic" /\ e.mem.err # "panic")

Step(e) ==
  CASE e.op = "reset" -> /\ osf' = << >> /\ osd' = {} /\ mem' = << >> /\ last' = F!NoRes
                         /\ act' = [op |-> "init", p |-> << >>, q |-> << >>, dev |-> FALSE]
    [] e.op = "read"   -> F!Read(e.p) /\ Judge(e, F!DevLookup(e.p))
    [] e.op = "write"  -> F!Write(e.p, e.d) /\ Judge(e, F!DevPath(e.p))
    [] e.op = "remove" -> F!Remove(e.p) /\ Judge(e, F!DevLookup(e.p))
    [] e.op = "move"   -> F!Move(e.p, e.q) /\ Judge(e, F!DevLookup(e.p) \/ (e.p \in DOMAIN osf /\ F!DevPath(e.q)))
    [] e.op = "find"   -> F!Find(e.p, e.q) /\ Judge(e, F!DevFind(e.p, e.q))
    [] e.op = "mkdir"  -> IF e.p \notin osd /\ e.p \notin DOMAIN osf /\ F!OSPathError(e.p) = ""
                          THEN F!Mkdir(e.p) /\ Chk(l, "X05.conf.os.mkdir", e.os.err = "")
                          ELSE /\ UNCHANGED << osf, osd, mem >> /\ last' = F!NoRes
                               /\ act' = [op |-> "mkdir", p |-> e.p, q |-> << >>, dev |-> FALSE]
                               /\ Chk(l, "X05.conf.os.mkdir", e.os.err # "")

Next == l <= Len(Trace) /\ Step(Trace[l]) /\ l' = l + 1

AllJudged == /\ PrintT("JUDGED " \o ToJson([n |-> TLCGet("stats").diameter - 1]))
             /\ TLCGet("stats").diameter - 1 = Len(Trace)
=============================================================================
