CONSTANT Sets = {1, 2, 3, 4, 5}
CONSTANT Gs = {1, 2, 3, 4, 6, 16, 0}
CONSTANT Reps = 3
INIT Init
NEXT Next
CHECK_DEADLOCK FALSE
ACTION_CONSTRAINT Emit
INVARIANT C17_KeyIgnoresIrrelevant
