------------------------------- MODULE MC_C20 -------------------------------
(***************************************************************************)
(* Design-level enumeration for C20: every combination of format x command *)
(* spelling x archive state x invocation directory x path spelling, plus   *)
(* the usage-error classes, with the admissible exit statuses from Cli.    *)
(* The model also checks that the admissible set is never empty, is {0}    *)
(* only for full success, and never mixes 0 with a failure.                *)
(***************************************************************************)
EXTENDS Integers, Sequences, FiniteSets, TLC, Json
INSTANCE Cli

Formats == {"par", "par2"}
Spellings == [create |-> {"c", "create", "C", "Create"}, verify |-> {"v", "verify", "VERIFY"}, repair |-> {"r", "repair", "Repair"}]
States == {"intact", "repairable", "atcapacity", "unrepairable", "nopar_intact", "nopar_damaged", "misplaced",
           "appended", "badindex", "noindex", "partialfail"}
\* "appended" (PAR2): zero bytes appended inside the padding of a partial last slice - every slice is still found in
\* place, only the length and the file hash tell that the file is wrong (needed, possible)
\* "partialfail" (PAR2): every protected file and the sub-directory of one of them are gone; Repair can
\* rewrite the top-level files but the write into the missing directory fails: an I/O failure after a
\* partial repair, i.e. "another failure" for repair; verify just sees missing files (needed, possible)
Cwds == {"setdir", "parent", "unrelated"}
Paths == {"rel", "abs"}

\* ground truth of each constructed state (the harness re-derives it from the bytes and reports it;
\* the trace judge uses the harness's facts, this table is what the model expects them to be)
Needed(s) == s \in {"repairable", "atcapacity", "unrepairable", "nopar_damaged", "misplaced", "appended", "partialfail"}
Possible(s) == s \in {"intact", "repairable", "atcapacity", "nopar_intact", "misplaced", "appended", "partialfail"}
IndexOK(s) == s \notin {"badindex", "noindex"}

VARIABLE c
Init == c = [kind |-> "root"]
Next ==
  /\ c.kind = "root"
  /\ \/ \E f \in Formats, cmd \in {"verify", "repair"}, s \in States, w \in Cwds, p \in Paths :
          \E sp \in Spellings[cmd] :
             /\ ~(f = "par" /\ s \in {"misplaced", "appended", "partialfail"})
             /\ ~(w = "unrelated" /\ p = "rel")
             /\ c' = [kind |-> "op", usage |-> "none", ext |-> f, cmd |-> cmd, spelling |-> sp, state |-> s, cwd |-> w, path |-> p,
                      index_ok |-> IndexOK(s), inputs_ok |-> TRUE, needed |-> Needed(s), possible |-> Possible(s),
                      iofail |-> (s = "partialfail" /\ cmd = "repair")]
     \/ \E f \in Formats \cup {"unknown"}, inp \in BOOLEAN, w \in Cwds, p \in Paths : \E sp \in Spellings["create"] :
             /\ ~(w = "unrelated" /\ p = "rel")
             /\ c' = [kind |-> "op", usage |-> "none", ext |-> f, cmd |-> "create", spelling |-> sp, state |-> "fresh", cwd |-> w, path |-> p,
                      index_ok |-> TRUE, inputs_ok |-> inp, needed |-> FALSE, possible |-> TRUE, iofail |-> FALSE]
     \/ \E cmd \in {"verify", "repair"}, w \in {"setdir"} :
             c' = [kind |-> "op", usage |-> "none", ext |-> "unknown", cmd |-> cmd, spelling |-> cmd, state |-> "intact", cwd |-> w, path |-> "rel",
                   index_ok |-> TRUE, inputs_ok |-> TRUE, needed |-> FALSE, possible |-> TRUE, iofail |-> FALSE]
     \/ \E u \in {"help", "nocommand", "badcommand", "badflag", "nooperand", "badglobalflag"}, cmd \in {"create", "verify", "repair"}, f \in Formats :
             c' = [kind |-> "op", usage |-> u, ext |-> f, cmd |-> cmd, spelling |-> cmd, state |-> "intact", cwd |-> "setdir", path |-> "rel",
                   index_ok |-> TRUE, inputs_ok |-> TRUE, needed |-> FALSE, possible |-> TRUE, iofail |-> FALSE]

     \* create with a single operand names no data file: a usage error whatever that operand looks like
     \/ \E u \in {"oneoperand", "oneoperand_noext", "oneoperand_upper", "oneoperand_noextflags"}, f \in Formats :
             c' = [kind |-> "op", usage |-> u, ext |-> f, cmd |-> "create", spelling |-> "create", state |-> "intact", cwd |-> "setdir", path |-> "rel",
                   index_ok |-> TRUE, inputs_ok |-> TRUE, needed |-> FALSE, possible |-> TRUE, iofail |-> FALSE]

IsCase == c.kind = "op"
C20_NonEmpty == IsCase => Admissible(c) # {}
C20_ZeroOnlyOnSuccess ==
  (IsCase /\ c.usage # "help") => (0 \in Admissible(c) =>
               /\ Admissible(c) = {0}
               /\ (c.usage = "none" =>
                     \/ (c.cmd = "create" /\ c.inputs_ok /\ c.ext # "unknown")
                     \/ (c.cmd = "verify" /\ c.index_ok /\ ~c.needed)
                     \/ (c.cmd = "repair" /\ c.index_ok /\ ~c.iofail /\ (~c.needed \/ c.possible))))
C20_UsageIsThree == (IsCase /\ c.usage \notin {"none", "help"}) => Admissible(c) = {3}

RECURSIVE SetToSeq(_)
SetToSeq(Sx) == IF Sx = {} THEN << >> ELSE LET m == CHOOSE x \in Sx : \A y \in Sx : x <= y IN << m >> \o SetToSeq(Sx \ {m})
Emit == IF c'.kind = "op"
        THEN PrintT("CASE " \o ToJson([c |-> c', admissible_small |-> SetToSeq(Admissible(c') \cap (0 .. 3)),
                                       other_ok |-> (Admissible(c') \cap Other) # {}]))
        ELSE TRUE
=============================================================================
