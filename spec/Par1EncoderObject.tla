------------------------ MODULE Par1EncoderObject ------------------------
(***************************************************************************)
(* EXTENSION X04 (beyond the listed properties): the typestate of the      *)
(* exported par1.Encoder object - the PAR1 analogue of Par2EncoderObject.  *)
(*                                                                         *)
(* par1.Create builds an Encoder and calls LoadFileData, ComputeParityData *)
(* and Write once, in that order.  The object is exported; a library user  *)
(* may call the methods in any order and any number of times while the     *)
(* input files change.  The input directory is abstracted to a VERSION     *)
(* number; the object holds two snapshots:                                 *)
(*                                                                         *)
(*   snap  : the version LoadFileData read (contents, hashes, longest)     *)
(*   psnap : the version whose files ComputeParityData encoded             *)
(*                                                                         *)
(* Write emits an index volume describing snap and one parity volume per   *)
(* computed parity shard (of psnap).                                       *)
(*                                                                         *)
(* ALGORITHM LAYER (what par1/encoder.go does, deviations named):          *)
(*   Compute   before any Load: ERROR (the coder refuses zero data shards) *)
(*   Write     before Load: PANICS (index out of range), nothing written   *)
(*                                                        -- WriteTooEarly *)
(*             after Load, before Compute: SUCCEEDS and writes the index   *)
(*             volume only - none of the requested parity volumes          *)
(*                                                        -- WriteNoParity *)
(*             after Load; Compute; Load': SUCCEEDS and writes an          *)
(*             INCONSISTENT set (index of the new version, parity of the   *)
(*             old one)                                     -- WriteStale   *)
(* TRUTH LAYER (E1_ clauses): the straight pipeline Load; Compute; Write   *)
(*   writes a complete, consistent set protecting the version read by      *)
(*   Load, whatever happened to the files afterwards; a Write that reports *)
(*   success has written an index describing snap; an incomplete or        *)
(*   inconsistent successful Write is possible only through one of the two *)
(*   named deviations; only Write writes; nothing modifies an input.       *)
(***************************************************************************)
EXTENDS Integers, Sequences, FiniteSets, TLC

CONSTANTS MaxVersion,   \* bound on the number of input modifications
          R             \* number of parity volumes requested (>= 1)
ASSUME R >= 1

None == 0 - 1

VARIABLES ver, enc, arch, last, act
evars == << ver, enc, arch, last, act >>
EView == << ver, enc, arch >>

NoEnc  == [alive |-> FALSE, snap |-> None, psnap |-> None]
\* on disk under the index path: which version the index describes, which version's parity the volumes hold, how many volumes
NoArch == [desc |-> None, par |-> None, nvol |-> 0]

EInit == ver = 1 /\ enc = NoEnc /\ arch = NoArch /\ last = "" /\ act = "init"

Modify == /\ ver < MaxVersion /\ ver' = ver + 1
          /\ act' = "modify" /\ last' = "" /\ UNCHANGED << enc, arch >>

ENew == /\ enc' = [alive |-> TRUE, snap |-> None, psnap |-> None]
        /\ act' = "new" /\ last' = "ok" /\ UNCHANGED << ver, arch >>

ELoad == /\ enc.alive
         /\ enc' = [enc EXCEPT !.snap = ver]
         /\ act' = "load" /\ last' = "ok" /\ UNCHANGED << ver, arch >>

ECompute == /\ enc.alive
            /\ IF enc.snap = None
               THEN last' = "error" /\ UNCHANGED enc
               ELSE last' = "ok" /\ enc' = [enc EXCEPT !.psnap = enc.snap]
            /\ act' = "compute" /\ UNCHANGED << ver, arch >>

WriteFn(e, a) ==
  IF e.snap = None THEN [out |-> "panic", arch |-> a]                                           \* WriteTooEarly
  ELSE IF e.psnap = None
       THEN [out |-> "ok", arch |-> [desc |-> e.snap, par |-> None, nvol |-> 0]]                 \* WriteNoParity
       ELSE [out |-> "ok", arch |-> [desc |-> e.snap, par |-> e.psnap, nvol |-> R]]             \* (WriteStale when they differ)

EWrite == /\ enc.alive
          /\ LET w == WriteFn(enc, arch) IN last' = w.out /\ arch' = w.arch
          /\ act' = "write" /\ UNCHANGED << ver, enc >>

ENext == Modify \/ ENew \/ ELoad \/ ECompute \/ EWrite
ESpec == EInit /\ [][ENext]_evars

(***************************** TRUTH LAYER *********************************)
Complete(a) == a.desc # None /\ a.par = a.desc /\ a.nvol = R

E1_OkWriteDescribesSnapshot ==
  (act' = "write" /\ last' = "ok") => (arch'.desc = enc.snap /\ enc.snap # None)

E1_PipelineComplete ==
  (act' = "write" /\ last' = "ok" /\ enc.psnap = enc.snap) => Complete(arch')

E1_IncompleteOnlyByNamedDeviation ==
  (act' = "write" /\ last' = "ok" /\ ~Complete(arch')) =>
     \/ enc.psnap = None                                 \* WriteNoParity
     \/ (enc.psnap # None /\ enc.psnap # enc.snap)       \* WriteStale

E1_TooEarlyNeverOk ==
  /\ (act' = "compute" /\ enc.snap = None) => last' # "ok"
  /\ (act' = "write" /\ enc.snap = None) => (last' # "ok" /\ arch' = arch)

E1_OnlyWriteWrites == (act' # "write" => arch' = arch) /\ (act' # "modify" => ver' = ver)

P_E1 == [][E1_OkWriteDescribesSnapshot]_evars
P_E2 == [][E1_PipelineComplete]_evars
P_E3 == [][E1_IncompleteOnlyByNamedDeviation]_evars
P_E4 == [][E1_TooEarlyNeverOk]_evars
P_E5 == [][E1_OnlyWriteWrites]_evars
=============================================================================
