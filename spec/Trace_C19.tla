----------------------------- MODULE Trace_C19 -----------------------------
(***************************************************************************)
(* Trace judge for C19: the real Verify and Repair on well-checksummed but *)
(* inconsistent archives, executed in batch worker processes (a panic in a *)
(* worker goroutine, a fatal out-of-memory error, the address-space limit  *)
(* or a hang are observations attributed to their case).                   *)
(***************************************************************************)
EXTENDS Integers, Sequences, FiniteSets, TLC, Json
ASSUME TLCSet(1, ndJsonDeserialize("trace.ndjson"))
Trace == TLCGet(1)
VARIABLE l

\* memory allowance in KiB: a base plus a multiple of the bytes present and the declared slice size
Allow(e) == 131072 + 64 * (e.present_kb + e.declared_kb_capped)

\* the address-space limit of the batch workers, in KiB.  Dying of memory exhaustion while staying
\* within the allowance (a huge DECLARED slice size) is the environment, not a violation.
LimitKB == 3145728
OOMWithinAllowance(e) == e.fatal /\ e.oom /\ Allow(e) >= LimitKB

Verdicts(e) ==
  (IF (~e.fatal /\ e.verify.err # "panic" /\ e.repair.err # "panic") \/ OOMWithinAllowance(e) THEN {} ELSE {"C19.terminates_without_crash"})
  \cup (IF e.rss_growth_kb <= Allow(e) THEN {} ELSE {"C19.memory_in_proportion"})
  \cup (IF \A k \in 1 .. Len(e.written) : e.written[k].matches_declared THEN {} ELSE {"C19.written_files_match_declared_hashes"})
  \cup (IF e.outside = << >> THEN {} ELSE {"C19.nothing_else_modified"})
  \* a semantically valid mutant behaves as a valid archive
  \cup (IF (e.valid /\ ~e.fatal /\ e.data = "intact") => (e.verify.err = "" /\ ~e.verify.needed) THEN {} ELSE {"C19.valid_mutant_verifies_clean"})
  \cup (IF (e.valid /\ ~e.fatal /\ e.needs <= e.nblocks) => (e.repair.err = "" /\ e.restored) THEN {} ELSE {"C19.valid_mutant_repairs"})

Init == l = 1
Next == /\ l <= Len(Trace)
        /\ \A v \in Verdicts(Trace[l]) : PrintT("VERDICT " \o ToJson([i |-> l, clause |-> v]))
        /\ l' = l + 1
AllJudged == /\ PrintT("JUDGED " \o ToJson([n |-> TLCGet("stats").diameter - 1]))
             /\ TLCGet("stats").diameter - 1 = Len(Trace)
=============================================================================
