CONSTANT Cfgs <- CfgsThorough
INIT Init
NEXT Next
CHECK_DEADLOCK FALSE
INVARIANT C11_All
