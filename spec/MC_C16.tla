------------------------------- MODULE MC_C16 -------------------------------
(***************************************************************************)
(* Design-level model checking for C16 (never reads /repo): every original *)
(* file over a small alphabet, every insertion and deletion at every       *)
(* position with every length from 1 to beyond the slice size.             *)
(*                                                                         *)
(* For every such case TLC checks                                          *)
(*   - Bounds: Survivors <= Found (greedy scan) <= Occurring               *)
(*   - every slice that the edit does not overlap still occurs in the      *)
(*     edited file (so it can only be missed through a spurious            *)
(*     overlapping match, which the small alphabet does produce and the    *)
(*     truth layer accounts for)                                           *)
(*   - a slice that does not occur anywhere is never credited              *)
(* and emits the case ("CASE ...") so that the harness runs the real       *)
(* par2.Verify and par2.Repair -- with exactly as many recovery blocks as  *)
(* non-surviving slices -- on it.                                          *)
(***************************************************************************)
EXTENDS Integers, Sequences, FiniteSets, TLC, Json

CONSTANTS SS,        \* slice size
          MinLen, MaxLen,
          Alpha,     \* alphabet of the original
          Fill,      \* bytes used for inserted material
          MaxEdit    \* maximal insertion / deletion length

SP == INSTANCE ScanP

VARIABLES orig, edited, kind, pos, len, fill
vars == << orig, edited, kind, pos, len, fill >>

Names1 == << "a" >>
ProtOf(o) == [a |-> o]
DiskOf(e) == [a |-> e]

Originals == UNION {[1 .. n -> Alpha] : n \in MinLen .. MaxLen}

Ins(d, i, n, b) == SubSeq(d, 1, i) \o [k \in 1 .. n |-> b] \o SubSeq(d, i + 1, Len(d))   \* i in 0..Len(d)
Del(d, i, n) == SubSeq(d, 1, i) \o SubSeq(d, i + n + 1, Len(d))                            \* removes d[i+1..i+n]

Init == orig = << >> /\ edited = << >> /\ kind = "root" /\ pos = 0 /\ len = 0 /\ fill = 0

Next ==
  \/ /\ kind = "root"
     /\ orig' \in Originals /\ edited' = orig' /\ kind' = "orig"
     /\ UNCHANGED << pos, len, fill >>
  \/ /\ kind = "orig"
     /\ \/ /\ kind' = "ins"
           /\ pos' \in 0 .. Len(orig) /\ len' \in 1 .. MaxEdit /\ fill' \in Fill
           /\ edited' = Ins(orig, pos', len', fill')
        \/ /\ kind' = "del"
           /\ pos' \in 0 .. (Len(orig) - 1) /\ len' \in 1 .. MaxEdit /\ pos' + len' <= Len(orig)
           /\ edited' = Del(orig, pos', len') /\ fill' = 0
     /\ UNCHANGED orig

IsCase == kind \in {"ins", "del"}
Prot == ProtOf(orig)
Disk == DiskOf(edited)
NSl == SP!NSlices(SS, orig)

\* slice k of the original ([k*SS, (k+1)*SS), the last one possibly partial and zero-padded at
\* end of file) is not overlapped by the edit and, if partial, is still at the end of the file
Untouched(k) ==
  LET lo == k * SS
      hi == IF (k + 1) * SS <= Len(orig) THEN (k + 1) * SS ELSE Len(orig)
      partial == (k + 1) * SS > Len(orig)
  IN IF kind = "ins"
     THEN (hi <= pos /\ ~partial) \/ lo >= pos
     ELSE (hi <= pos /\ ~partial) \/ lo >= pos + len

C16_Bounds == IsCase => SP!Bounds(SS, Names1, Prot, Disk)
C16_UntouchedStillOccur ==
  IsCase => \A k \in 0 .. (NSl - 1) : Untouched(k) => << "a", k >> \in SP!Occurring(SS, Names1, Prot, Disk)
\* an untouched slice is missed by the greedy scan only through a spurious overlapping match
C16_MissedOnlyIfOverlapped ==
  IsCase => \A k \in 0 .. (NSl - 1) :
     (Untouched(k) /\ << "a", k >> \notin SP!Found(SS, Names1, Prot, Disk))
        => << "a", k >> \notin SP!Survivors(SS, Names1, Prot, Disk)

RECURSIVE SetToSeq(_)
SetToSeq(Sx) == IF Sx = {} THEN << >> ELSE LET m == CHOOSE x \in Sx : \A y \in Sx : x <= y IN << m >> \o SetToSeq(Sx \ {m})

Emit ==
  IF kind' \in {"ins", "del"}
  THEN PrintT("CASE " \o ToJson([s |-> SS, orig |-> orig', edited |-> edited', kind |-> kind', pos |-> pos', len |-> len',
              nsurv |-> Cardinality(SP!Survivors(SS, Names1, ProtOf(orig'), DiskOf(edited'))),
              nfound |-> Cardinality(SP!Found(SS, Names1, ProtOf(orig'), DiskOf(edited'))),
              n |-> SP!NSlices(SS, orig')]))
  ELSE TRUE
=============================================================================
