------------------------ MODULE Par2EncoderObject ------------------------
(***************************************************************************)
(* EXTENSION X02 (beyond the listed properties): the typestate of the      *)
(* exported par2.Encoder object.                                           *)
(*                                                                         *)
(* par2.Create builds an Encoder and calls LoadFileData, ComputeParityData *)
(* and Write once, in that order.  The object is exported; a library user  *)
(* may call the methods in any order and any number of times while the     *)
(* input files change.  The input directory is abstracted to a VERSION     *)
(* number (every modification of an input file gives a new version); the   *)
(* object holds two snapshots:                                             *)
(*                                                                         *)
(*   snap  : the version LoadFileData read (file ids, hashes, slices)      *)
(*   psnap : the version whose slices ComputeParityData encoded            *)
(*                                                                         *)
(* Write emits an index file describing snap and recovery files holding    *)
(* the blocks of psnap.  The written set is CONSISTENT iff snap = psnap.   *)
(*                                                                         *)
(* ALGORITHM LAYER (what par2/encoder.go does, deviations named):          *)
(*   Load      always succeeds (input files exist here)                    *)
(*   Compute   before any Load: the coder constructor PANICS (zero data    *)
(*             shards)                                    -- ComputeTooEarly *)
(*   Write     before Load: error, nothing written (no file description)   *)
(*             after Load, before Compute: writes the index file    *)
(*             and then PANICS (index out of range)        -- WriteTooEarly *)
(*             after Load; Compute; Load': SUCCEEDS and writes an          *)
(*             INCONSISTENT set (index of the new version, recovery        *)
(*             blocks of the old one)                       -- WriteStale   *)
(* TRUTH LAYER (EO_ clauses): the straight pipeline Load; Compute; Write   *)
(*   with no reload in between writes a consistent set that protects the   *)
(*   version read by Load, whatever happened to the files afterwards; a    *)
(*   Write that reports success has written an index describing snap; no   *)
(*   call modifies an input file.                                          *)
(***************************************************************************)
EXTENDS Integers, Sequences, FiniteSets, TLC

CONSTANTS MaxVersion,   \* bound on the number of input modifications
          R             \* recovery-block count (>= 1: with 0 the coder constructor panics in ComputeParityData)
ASSUME R >= 1

None == 0 - 1

VARIABLES ver,       \* current version of the input files
          enc,       \* the object: [alive, snap, psnap]   (None = not loaded / not computed)
          arch,      \* what is on disk under the index path: [desc, par, partial]  (None = absent)
          last, act  \* outcome of the last call (output only)
evars == << ver, enc, arch, last, act >>
EView == << ver, enc, arch >>

NoEnc  == [alive |-> FALSE, snap |-> None, psnap |-> None]
NoArch == [desc |-> None, par |-> None, partial |-> FALSE]

EInit == ver = 1 /\ enc = NoEnc /\ arch = NoArch /\ last = "" /\ act = "init"

Modify == /\ ver < MaxVersion /\ ver' = ver + 1
          /\ act' = "modify" /\ last' = "" /\ UNCHANGED << enc, arch >>

ENew == /\ enc' = [alive |-> TRUE, snap |-> None, psnap |-> None]
        /\ act' = "new" /\ last' = "ok" /\ UNCHANGED << ver, arch >>

ELoad == /\ enc.alive
         /\ enc' = [enc EXCEPT !.snap = ver]
         /\ act' = "load" /\ last' = "ok" /\ UNCHANGED << ver, arch >>

ECompute == /\ enc.alive
            /\ IF enc.snap = None
               THEN last' = "panic" /\ UNCHANGED enc                 \* ComputeTooEarly
               ELSE last' = "ok" /\ enc' = [enc EXCEPT !.psnap = enc.snap]
            /\ act' = "compute" /\ UNCHANGED << ver, arch >>

\* outcome and new on-disk state of Write
WriteFn(e, a) ==
  IF e.snap = None THEN [out |-> "error", arch |-> a]
  ELSE IF e.psnap = None
       THEN [out |-> "panic", arch |-> [desc |-> e.snap, par |-> None, partial |-> TRUE]]      \* WriteTooEarly
       ELSE [out |-> "ok", arch |-> [desc |-> e.snap, par |-> e.psnap, partial |-> FALSE]]

EWrite == /\ enc.alive
          /\ LET w == WriteFn(enc, arch) IN last' = w.out /\ arch' = w.arch
          /\ act' = "write" /\ UNCHANGED << ver, enc >>

ENext == Modify \/ ENew \/ ELoad \/ ECompute \/ EWrite
ESpec == EInit /\ [][ENext]_evars

(***************************** TRUTH LAYER *********************************)
Consistent(a) == a.desc # None /\ a.par = a.desc /\ ~a.partial

\* EO1: a Write that reports success has written a complete set whose index describes the loaded version
EO_OkWriteDescribesSnapshot ==
  (act' = "write" /\ last' = "ok") => (arch'.desc = enc.snap /\ enc.snap # None /\ ~arch'.partial)

\* EO2: the straight pipeline writes a consistent set: if the parity was computed from the version that is
\*      loaded now, a successful Write is consistent -- whatever happened to the files since
EO_PipelineConsistent ==
  (act' = "write" /\ last' = "ok" /\ enc.psnap = enc.snap) => Consistent(arch')

\* EO3: the only way to a successful but inconsistent Write is a reload between Compute and Write
EO_InconsistentOnlyByReload ==
  (act' = "write" /\ last' = "ok" /\ ~Consistent(arch')) => (enc.psnap # None /\ enc.psnap # enc.snap)

\* EO4: calls made too early never report success
EO_TooEarlyNeverOk ==
  /\ (act' = "compute" /\ enc.snap = None) => last' # "ok"
  /\ (act' = "write" /\ (enc.snap = None \/ enc.psnap = None)) => last' # "ok"

\* EO5: only Write changes what is on disk, and never the input version
EO_OnlyWriteWrites == (act' # "write" => arch' = arch) /\ (act' # "modify" => ver' = ver)

P_EO1 == [][EO_OkWriteDescribesSnapshot]_evars
P_EO2 == [][EO_PipelineConsistent]_evars
P_EO3 == [][EO_InconsistentOnlyByReload]_evars
P_EO4 == [][EO_TooEarlyNeverOk]_evars
P_EO5 == [][EO_OnlyWriteWrites]_evars
=============================================================================
