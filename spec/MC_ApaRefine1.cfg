CONSTANT MaxVersion = 4
CONSTANT R = 2
SPECIFICATION ESpec
PROPERTY Refines
CHECK_DEADLOCK FALSE
