--------------------------- MODULE MC_ApaRefine2 ---------------------------
(* Every behaviour of Par2EncoderObject (X02) is a behaviour of Apa_EncoderObjects with Fmt = "par2". *)
EXTENDS Par2EncoderObject
A == INSTANCE Apa_EncoderObjects WITH Fmt <- "par2",
        arch <- [desc |-> arch.desc, par |-> arch.par, partial |-> arch.partial, nvol |-> IF arch.par # None THEN R ELSE 0]
Refines == A!ASpec
=============================================================================
