CONSTANT MaxN = 3
CONSTANT MaxM = 3
CONSTANT MaxW = 3
INIT Init
NEXT Next
CHECK_DEADLOCK FALSE
INVARIANT C18_FaultIsReported C18_WritesBeforeFaultOnly C18_OnlyWritesTear C18_ReadFaultChangesNothingMore C18_ObservedIsPrefix
