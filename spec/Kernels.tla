------------------------------ MODULE Kernels ------------------------------
(***************************************************************************)
(* The bulk multiply kernels of gf2p16 (MulByteSliceLE and                 *)
(* MulAndAddByteSliceLE): out[i] = c*in[i], resp. out[i] ^= c*in[i], on    *)
(* little-endian 16-bit words.                                             *)
(*                                                                         *)
(* TRUTH LAYER: WordsLE, MulWords, MulAddWords (element-wise GF!Mul).      *)
(* ALGORITHM LAYER: the dispatch state machine, as intervals of bytes      *)
(*   accessed per step, for the three paths:                               *)
(*     "go"    portable loop, one word per iteration, len/2 iterations     *)
(*     "asm"   scalar assembly over the whole buffer: a do-while loop over *)
(*             Count(len) words (the count is derived from the byte length *)
(*             in assembly)                                                *)
(*     "ssse3" len >= 32: len div 32 blocks of 32 bytes, then the scalar   *)
(*             assembly over the tail of len mod 32 bytes (if any)         *)
(*   Every path returns at once for len = 0.                               *)
(* Property: the steps write every byte of [0, len) exactly once, in       *)
(* order, nothing outside, and read only [0, len) of the input.            *)
(***************************************************************************)
EXTENDS Integers, Sequences, TLC

\* number of 16-bit words the scalar assembly loop processes for a byte length n
Count(n) == n \div 2

\* the sequence of byte intervals << lo, hi >> written (and read from in) by one call
Steps(path, len) ==
  IF len = 0 THEN << >>
  ELSE IF path = "go" THEN [k \in 1 .. (len \div 2) |-> << 2 * (k - 1), 2 * k >>]
  ELSE IF path = "asm" THEN << << 0, 2 * Count(len) >> >>          \* do-while: at least one word
  ELSE \* ssse3
       LET nblk  == IF len >= 32 THEN len \div 32 ELSE 0
           start == 32 * nblk
           blks  == [k \in 1 .. nblk |-> << 32 * (k - 1), 32 * k >>]
       IN IF start = len THEN blks
          ELSE blks \o << << start, start + 2 * Count(len - start) >> >>

\* the steps tile [0, len): consecutive, non-empty, start at 0, end at len
Tiles(st, len) ==
  /\ (len = 0) <=> (st = << >>)
  /\ len > 0 => /\ st[1][1] = 0
                /\ st[Len(st)][2] = len
                /\ \A k \in 1 .. Len(st) : st[k][1] < st[k][2]
                /\ \A k \in 1 .. (Len(st) - 1) : st[k][2] = st[k + 1][1]

DecompositionOK(path, len) == Tiles(Steps(path, len), len)
=============================================================================
