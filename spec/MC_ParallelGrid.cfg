CONSTANT MaxLen = 512
CONSTANT MaxG = 40
INIT Init
NEXT Next
CHECK_DEADLOCK FALSE
INVARIANT GridStatic
