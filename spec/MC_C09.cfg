CONSTANT MaxLen = 512
INIT Init
NEXT Next
CHECK_DEADLOCK FALSE
INVARIANT C09_Decomposition
