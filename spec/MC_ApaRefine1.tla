--------------------------- MODULE MC_ApaRefine1 ---------------------------
(* Every behaviour of Par1EncoderObject (X04) is a behaviour of Apa_EncoderObjects with Fmt = "par1". *)
EXTENDS Par1EncoderObject
A == INSTANCE Apa_EncoderObjects WITH Fmt <- "par1",
        arch <- [desc |-> arch.desc, par |-> arch.par, partial |-> FALSE, nvol |-> arch.nvol]
Refines == A!ASpec
=============================================================================
