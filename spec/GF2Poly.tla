------------------------------ MODULE GF2Poly ------------------------------
(***************************************************************************)
(* TRUTH LAYER: polynomials over GF(2) as finite sets of exponents         *)
(* (TLC integers are 32-bit, so a 64-bit polynomial cannot be an integer). *)
(* {0, 3} is 1 + x^3.  The empty set is the zero polynomial.               *)
(***************************************************************************)
EXTENDS Integers, FiniteSets

Plus(p, q) == (p \ q) \cup (q \ p)            \* symmetric difference

Deg(p) == IF p = {} THEN -1 ELSE CHOOSE d \in p : \A e \in p : e <= d

\* coefficient of x^k in p*q: parity of the number of (i, j) with i + j = k
Coeff(p, q, k) == (Cardinality({i \in p : (k - i) \in q}) % 2) = 1

\* the full product (no truncation)
TimesFull(p, q) ==
  IF p = {} \/ q = {} THEN {}
  ELSE {k \in 0 .. (Deg(p) + Deg(q)) : Coeff(p, q, k)}

\* the product modulo x^n
TimesMod(p, q, n) == {k \in TimesFull(p, q) : k < n}

\* Euclidean division: IsDivMod(p, d, q, r) iff q*d + r = p and deg r < deg d
IsDivMod(p, d, q, r) ==
  /\ d # {}
  /\ Plus(TimesFull(q, d), r) = p
  /\ Deg(r) < Deg(d)

\* long division, as the reference algorithm (used by the small-scope model)
RECURSIVE DivModR(_, _, _)
DivModR(r, d, q) ==
  IF Deg(r) < Deg(d) THEN << q, r >>
  ELSE LET s == Deg(r) - Deg(d)
       IN DivModR(Plus(r, {e + s : e \in d}), d, Plus(q, {s}))
DivMod(p, d) == DivModR(p, d, {})

\* integer view for small polynomials (degree < 31)
RECURSIVE ToIntR(_)
ToIntR(p) == IF p = {} THEN 0 ELSE LET e == CHOOSE x \in p : TRUE IN 2^e + ToIntR(p \ {e})
ToInt(p) == ToIntR(p)
OfInt(n, w) == {k \in 0 .. (w - 1) : ((n \div (2^k)) % 2) = 1}
=============================================================================
