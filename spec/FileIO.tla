------------------------------- MODULE FileIO -------------------------------
(***************************************************************************)
(* EXTENSION X05 (beyond the listed properties): the file layer under the  *)
(* PAR1 / PAR2 code, and the fidelity of the test double the repository's  *)
(* own tests run on.                                                       *)
(*                                                                         *)
(* par1 and par2 reach the file system only through a three-method         *)
(* interface (ReadFile, WriteFile, FindWithPrefixAndSuffix).  Two          *)
(* implementations exist: defaultFileIO (the operating system; used by     *)
(* Create / Verify / Repair and the CLI) and memfs.MemFS (an in-memory map *)
(* with a working directory; used by nearly every test of the repository,  *)
(* and exported).  This module specifies BOTH as state machines over paths *)
(* that are sequences of character codes relative to a working directory,  *)
(* and states precisely where they differ:                                 *)
(*                                                                         *)
(*   OS  : files [path -> bytes] and a set of directories; a file lives in *)
(*         an existing directory; WriteFile never creates a directory.     *)
(*   Mem : a map [path -> bytes]; no directories at all.                   *)
(*                                                                         *)
(* NAMED DEVIATIONS of the double (each is a predicate on state and call): *)
(*   ParentMissing    WriteFile below a directory that does not exist:     *)
(*                    OS fails (not-exist), Mem succeeds                   *)
(*   PathIsDirectory  ReadFile / WriteFile / Remove / Move on a path that  *)
(*                    is a directory: OS fails (other), Mem: not-exist / ok*)
(*   ParentIsFile     a proper prefix of the path is a FILE: OS fails      *)
(*                    (other: not-a-directory), Mem: not-exist / ok        *)
(*   FindNested       FindWithPrefixAndSuffix: Mem matches prefix and      *)
(*                    suffix against the whole path string and so also     *)
(*                    returns files in SUB-directories whose path begins   *)
(*                    with the prefix; OS lists one directory only         *)
(*   FindDirectory    OS returns a matching DIRECTORY entry as well        *)
(*   FindDirMissing   the directory part of the prefix does not exist:     *)
(*                    OS fails, Mem returns nothing                        *)
(*   MoveOntoDir      Move onto an existing directory: OS fails, Mem ok    *)
(*                                                                         *)
(* TRUTH LAYER (the contract tests may rely on): as long as the two states *)
(* are equivalent (same files) and a call falls under no named deviation,  *)
(* both implementations return the same result and stay equivalent; and    *)
(* each by itself is a map: read-your-writes, Remove removes, Move = Remove*)
(* then Write, Find = filter.                                              *)
(***************************************************************************)
EXTENDS Integers, Sequences, FiniteSets, TLC

CONSTANTS Universe,    \* the paths the bounded model uses (sequences of character codes)
          Datas,       \* file contents
          Slash,       \* the character code of the path separator
          Prefixes, Suffixes   \* arguments tried for FindWithPrefixAndSuffix

IsPrefixOf(s, t) == Len(s) <= Len(t) /\ SubSeq(t, 1, Len(s)) = s
IsSuffixOf(s, t) == Len(s) <= Len(t) /\ SubSeq(t, Len(t) - Len(s) + 1, Len(t)) = s
SlashPos(p) == {i \in 1 .. Len(p) : p[i] = Slash}
LastSlash(p) == IF SlashPos(p) = {} THEN 0 ELSE CHOOSE i \in SlashPos(p) : \A j \in SlashPos(p) : j <= i
DirPart(p) == SubSeq(p, 1, LastSlash(p))             \* with the trailing separator; << >> = the working directory
NamePart(p) == SubSeq(p, LastSlash(p) + 1, Len(p))
ParentDir(p) == IF LastSlash(p) = 0 THEN << >> ELSE SubSeq(p, 1, LastSlash(p) - 1)   \* without trailing separator
AncestorDirs(p) == {SubSeq(p, 1, i - 1) : i \in SlashPos(p)}                        \* every proper directory prefix
DirUniverse == UNION {AncestorDirs(p) : p \in Universe}

\* name-level match used by the OS implementation (and by the contract)
NameMatches(n, pre, suf) == Len(n) >= Len(pre) + Len(suf) /\ IsPrefixOf(pre, n) /\ IsSuffixOf(suf, n)

VARIABLES osf,     \* OS: function from the existing file paths to their bytes
          osd,     \* OS: set of existing directories (the working directory << >> always exists)
          mem,     \* MemFS: function from paths to bytes
          last,    \* [os |-> result, mem |-> result] of the last call
          act      \* the last call
fvars == << osf, osd, mem, last, act >>
FView == << osf, osd, mem >>

Ok(v) == [err |-> "", val |-> v]
Fail(e) == [err |-> e, val |-> << >>]
NoRes == [os |-> Ok(<< >>), mem |-> Ok(<< >>)]

Put(f, p, d) == [x \in (DOMAIN f) \cup {p} |-> IF x = p THEN d ELSE f[x]]
Drop(f, p) == [x \in (DOMAIN f) \ {p} |-> f[x]]

(************************ the OS implementation ****************************)
DirExists(d) == d = << >> \/ d \in osd
AncestorIsFile(p) == \E a \in AncestorDirs(p) : a \in DOMAIN osf
OSPathError(p) ==      \* the error class every OS call on p fails with, "" if the path is usable
  IF AncestorIsFile(p) THEN "other"                       \* not a directory
  ELSE IF \E a \in AncestorDirs(p) : ~DirExists(a) THEN "notexist"
  ELSE IF p \in osd THEN "other"                          \* is a directory
  ELSE ""

OSRead(p) == IF OSPathError(p) # "" THEN Fail(OSPathError(p))
             ELSE IF p \in DOMAIN osf THEN Ok(osf[p]) ELSE Fail("notexist")
OSWriteOk(p) == OSPathError(p) = ""
OSFind(pre, suf) ==
  LET d  == ParentDir(pre)
      np == NamePart(pre)
      dp == DirPart(pre)
  IN IF AncestorIsFile(pre) \/ (d # << >> /\ d \in DOMAIN osf) THEN Fail("other")
     ELSE IF ~DirExists(d) \/ (\E a \in AncestorDirs(pre) : ~DirExists(a)) THEN Fail("notexist")
     ELSE Ok({p \in (DOMAIN osf) \cup osd : DirPart(p) = dp /\ NameMatches(NamePart(p), np, suf)})

(************************ the MemFS implementation *************************)
MemRead(p) == IF p \in DOMAIN mem THEN Ok(mem[p]) ELSE Fail("notexist")
MemFind(pre, suf) ==
  Ok({p \in DOMAIN mem : Len(p) >= Len(pre) + Len(suf) /\ IsPrefixOf(pre, p) /\ IsSuffixOf(suf, p)})

(************************ named deviations *********************************)
Equivalent == mem = osf
DevPath(p) == OSPathError(p) # ""           \* ParentMissing, PathIsDirectory, ParentIsFile (a difference for WriteFile)
DevLookup(p) == OSPathError(p) = "other"    \* PathIsDirectory, ParentIsFile (a missing parent is "not exist" for both)
DevFind(pre, suf) ==
  \/ OSFind(pre, suf).err # ""                                                   \* FindDirMissing (and a file in the way)
  \/ \E p \in osd : DirPart(p) = DirPart(pre) /\ NameMatches(NamePart(p), NamePart(pre), suf)   \* FindDirectory
  \/ \E p \in DOMAIN mem : DirPart(p) # DirPart(pre) /\ Len(p) >= Len(pre) + Len(suf)
                             /\ IsPrefixOf(pre, p) /\ IsSuffixOf(suf, p)         \* FindNested

(************************ actions ******************************************)
Read(p) == /\ last' = [os |-> OSRead(p), mem |-> MemRead(p)] /\ act' = [op |-> "read", p |-> p, q |-> << >>, dev |-> DevLookup(p)]
           /\ UNCHANGED << osf, osd, mem >>

Write(p, d) ==
  /\ last' = [os |-> IF OSWriteOk(p) THEN Ok(<< >>) ELSE Fail(OSPathError(p)), mem |-> Ok(<< >>)]
  /\ osf' = IF OSWriteOk(p) THEN Put(osf, p, d) ELSE osf
  /\ mem' = Put(mem, p, d)
  /\ act' = [op |-> "write", p |-> p, q |-> << >>, dev |-> DevPath(p)]
  /\ UNCHANGED osd

Remove(p) ==
  /\ last' = [os |-> IF OSPathError(p) # "" THEN Fail(OSPathError(p)) ELSE IF p \in DOMAIN osf THEN Ok(<< >>) ELSE Fail("notexist"),
              mem |-> IF p \in DOMAIN mem THEN Ok(<< >>) ELSE Fail("notexist")]
  /\ osf' = IF OSPathError(p) = "" /\ p \in DOMAIN osf THEN Drop(osf, p) ELSE osf
  /\ mem' = IF p \in DOMAIN mem THEN Drop(mem, p) ELSE mem
  /\ act' = [op |-> "remove", p |-> p, q |-> << >>, dev |-> DevLookup(p)]
  /\ UNCHANGED osd

\* MemFS.MoveFile / os.Rename of a FILE (the driver never renames directories)
Move(p, q) ==
  LET osok == OSPathError(p) = "" /\ p \in DOMAIN osf /\ OSPathError(q) = ""
      oserr == IF OSPathError(p) # "" THEN OSPathError(p)
               ELSE IF p \notin DOMAIN osf THEN "notexist" ELSE OSPathError(q)
      memok == p \in DOMAIN mem
  IN
  /\ last' = [os |-> IF osok THEN Ok(<< >>) ELSE Fail(oserr), mem |-> IF memok THEN Ok(<< >>) ELSE Fail("notexist")]
  /\ osf' = IF osok THEN Put(Drop(osf, p), q, osf[p]) ELSE osf
  /\ mem' = IF memok THEN Put(Drop(mem, p), q, mem[p]) ELSE mem
  /\ act' = [op |-> "move", p |-> p, q |-> q, dev |-> DevLookup(p) \/ (p \in DOMAIN osf /\ DevPath(q))]
  /\ UNCHANGED osd

Find(pre, suf) ==
  /\ last' = [os |-> OSFind(pre, suf), mem |-> MemFind(pre, suf)]
  /\ act' = [op |-> "find", p |-> pre, q |-> suf, dev |-> DevFind(pre, suf)]
  /\ UNCHANGED << osf, osd, mem >>

\* the environment makes a directory (MemFS has no such notion: nothing changes there)
Mkdir(d) ==
  /\ d \notin osd /\ d \notin DOMAIN osf /\ OSPathError(d) = ""
  /\ osd' = osd \cup {d}
  /\ last' = NoRes /\ act' = [op |-> "mkdir", p |-> d, q |-> << >>, dev |-> FALSE]
  /\ UNCHANGED << osf, mem >>

FInit == osf = << >> /\ osd = {} /\ mem = << >> /\ last = NoRes /\ act = [op |-> "init", p |-> << >>, q |-> << >>, dev |-> FALSE]

FNext == \/ \E p \in Universe : Read(p) \/ Remove(p) \/ (\E d \in Datas : Write(p, d)) \/ (\E q \in Universe : Move(p, q))
         \/ \E pre \in Prefixes, suf \in Suffixes : Find(pre, suf)
         \/ \E d \in DirUniverse : Mkdir(d)
FSpec == FInit /\ [][FNext]_fvars

(************************ TRUTH LAYER **************************************)
\* F1: outside the named deviations the double is faithful: same result, and equivalence is preserved
F_FaithfulOutsideDeviations ==
  (Equivalent /\ ~act'.dev /\ act'.op # "mkdir") => (last'.os = last'.mem /\ mem' = osf')

\* F2: each implementation by itself is a map
F_ReadYourWrites ==
  (act'.op = "write") =>
     /\ (last'.os.err = "" => (act'.p \in DOMAIN osf' /\ \A x \in (DOMAIN osf') \ {act'.p} : x \in DOMAIN osf /\ osf'[x] = osf[x]))
     /\ (last'.os.err # "" => osf' = osf)
     /\ act'.p \in DOMAIN mem'
F_RemoveRemoves ==
  (act'.op = "remove") =>
     /\ (last'.os.err = "" => act'.p \notin DOMAIN osf') /\ (last'.os.err # "" => osf' = osf)
     /\ (last'.mem.err = "" => act'.p \notin DOMAIN mem') /\ (last'.mem.err # "" => mem' = mem)
F_MoveIsRemoveThenWrite ==
  (act'.op = "move" /\ last'.mem.err = "") => mem' = Put(Drop(mem, act'.p), act'.q, mem[act'.p])
F_FindIsFilter ==
  (act'.op = "find" /\ last'.os.err = "") =>
     /\ \A p \in last'.os.val : DirPart(p) = DirPart(act'.p) /\ NameMatches(NamePart(p), NamePart(act'.p), act'.q)
     /\ \A p \in DOMAIN osf : (DirPart(p) = DirPart(act'.p) /\ NameMatches(NamePart(p), NamePart(act'.p), act'.q)) => p \in last'.os.val
\* F3: the OS never holds a file outside an existing directory, nor a path that is both file and directory
F_OSWellFormed == /\ \A p \in DOMAIN osf : p \notin osd /\ \A a \in AncestorDirs(p) : a \in osd
                  /\ \A d \in osd : \A a \in AncestorDirs(d) : a \in osd
\* F4: reads and finds change nothing
F_QueriesArePure == (act'.op \in {"read", "find"}) => (osf' = osf /\ osd' = osd /\ mem' = mem)
=============================================================================
