INIT Init
NEXT Next
CHECK_DEADLOCK FALSE
POSTCONDITION AllJudged
