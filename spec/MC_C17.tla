------------------------------- MODULE MC_C17 -------------------------------
(***************************************************************************)
(* Design-level model for C17: the variation space of Create.              *)
(*                                                                         *)
(* What Create writes is a function of KEY = (format, file set [contents   *)
(* and names relative to the index file], slice size, recovery count; for  *)
(* PAR1 also the order of the input list) -- and of nothing else.  A       *)
(* configuration adds the irrelevant dimensions: the permutation of the    *)
(* input list (PAR2), the goroutine count, the current directory, the      *)
(* spelling of the paths, library versus command line, repetition, the     *)
(* kernel dispatch path, what an earlier run left in the directory.  TLC enumerates the configurations; the trace     *)
(* specification Trace_C17 states the 2-safety property over the recorded  *)
(* executions: equal KEY => equal bytes.                                   *)
(***************************************************************************)
EXTENDS Integers, Sequences, FiniteSets, TLC, Json

CONSTANTS Sets, Gs, Reps

Formats == {"par", "par2"}
Perms == {"given", "reversed", "rotated", "shuffleA", "shuffleB"}
Cwds == {"setdir", "parent", "unrelated"}
Spells == {"rel", "abs", "dotslash", "dblsep", "dotdot", "absdot", "absdblsep", "absdotdot", "mixed"}   \* mixed: every path of one command line spelled differently
Vias == {"lib", "cli"}
Kernels == {"ssse3", "scalar"}
Priors == {"fresh", "stale", "staleother"}
\* stale: the directory already holds longer files under the names Create will write;
\* staleother: it holds the complete output of an earlier Create over inputs that differed only beyond the first 16 KiB of a file

VARIABLE cfg
Init == cfg = [kind |-> "root"]
Next == /\ cfg.kind = "root"
        /\ \E f \in Formats, s \in Sets, p \in Perms, g \in Gs, w \in Cwds, sp \in Spells, v \in Vias, k \in Kernels, r \in 1 .. Reps, pr \in Priors :
              /\ ~(w = "unrelated" /\ sp \notin {"abs", "absdot", "absdblsep", "absdotdot"})
              /\ ~(p \in {"shuffleA", "shuffleB"} /\ (sp # "rel" \/ w # "setdir"))   \* further orders: plain spelling only
              /\ ~(v = "cli" /\ k = "scalar")                  \* the binary uses the CPU's dispatch
              /\ ~(r > 1 /\ (p # "given" \/ sp # "rel"))        \* repetition: the plain configuration only
              /\ ~(pr # "fresh" /\ (p # "given" \/ sp # "rel" \/ w # "setdir" \/ r > 1 \/ k = "scalar"))   \* stale output: the plain configuration only
              /\ ~(s = 4 /\ (sp # "rel" \/ w # "setdir" \/ pr # "fresh" \/ r > 1))   \* set 4 (an input that is a symbolic link to another input): orders, goroutines, kernels
              /\ ~(s = 5 /\ (f = "par" \/ p # "given" \/ pr # "fresh" \/ r > 1 \/ k = "scalar"))   \* set 5 (PAR2; the first input is listed a second time at the end): every spelling and directory
              /\ cfg' = [kind |-> "cfg", prior |-> pr, format |-> f, set |-> s, perm |-> p, g |-> g, cwd |-> w, spell |-> sp, via |-> v, kernel |-> k, rep |-> r]

\* the relevant part of a configuration
Key(c) == << c.format, c.set, IF c.format = "par" THEN c.perm ELSE "any" >>
C17_KeyIgnoresIrrelevant ==
  cfg.kind = "cfg" => Key(cfg) = Key([cfg EXCEPT !.g = 1, !.cwd = "setdir", !.spell = "rel", !.via = "lib", !.kernel = "ssse3", !.rep = 1, !.prior = "fresh"])

Emit == IF cfg'.kind = "cfg" THEN PrintT("CONFIG " \o ToJson(cfg')) ELSE TRUE
=============================================================================
