CONSTANT MaxD = 4
CONSTANT MaxP = 3
INIT Init
NEXT Next
CHECK_DEADLOCK FALSE
ACTION_CONSTRAINT Emit
INVARIANT C07_All
