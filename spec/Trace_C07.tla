----------------------------- MODULE Trace_C07 -----------------------------
(***************************************************************************)
(* Trace judge for C07: calls of the real rsec16 coder.  One event per     *)
(* GenerateParity + ReconstructData round: which shards were supplied, the *)
(* error class returned, whether the restored shards equal the originals   *)
(* byte for byte and whether the supplied ones were left alone (observed   *)
(* by the harness), and for tiny shards the words themselves.              *)
(* Solvability of the system the decoder has to solve (lowest-numbered     *)
(* available parity rows x missing columns) is decided by TLC's own        *)
(* determinant over GF(2^16) with entries from the specification           *)
(* (Cauchy 1/(x_i + y_j), PAR2 Vandermonde Const(j)^i).                    *)
(***************************************************************************)
EXTENDS Integers, Sequences, FiniteSets, TLC, Json

ASSUME TLCSet(1, ndJsonDeserialize("trace.ndjson"))
Trace == TLCGet(1)

INSTANCE RSCoder
ASSUME GF16!InitTablesp(0) /\ GF16!TablesOKp(0)
ASSUME PC!InitConstTab(0)

VARIABLE l
ToSet(s) == {s[i] : i \in 1 .. Len(s)}

Missing(e) == SortedSeq((1 .. e.d) \ ToSet(e.availd))
K(e) == e.d - Len(e.availd)
Within(e) == K(e) <= Len(e.availp)
\* entries straight from the definitions (no d x p matrix is built: the codes may be large)
Entry(e, i, j) == IF e.coder = "cauchy" THEN CauchyEntry(e.d, i - 1, j - 1) ELSE VandEntry(i - 1, j - 1)
SolvableE(e) ==
  LET miss == Missing(e)
      k == Len(miss)
      used == SubSeq(e.availp, 1, k)          \* availp is logged ascending
  IN k = 0 \/ ~M16!Singular([r \in 1 .. k |-> [c \in 1 .. k |-> Entry(e, used[r], miss[c])]])

ParityIsSpec(e) ==
  \A r \in {e.prows[k] : k \in 1 .. Len(e.prows)} : \A w \in 1 .. Len(e.pwords[r]) :
     e.pwords[r][w] = M16!Sum([j \in 1 .. e.d |-> GF16!FastMul(Entry(e, r, j), e.dwords[j][w])])

Clauses(e) ==
  << << "C07.nil_error_means_original", e.err = "" => e.restored >>,
     << "C07.too_few_iff_typed_error", (~Within(e)) <=> e.err = "notenough" >>,
     \* rounds with garbage in a SPARE parity shard (e.garbage): only the two universal clauses apply
     << "C07.error_is_typed", e.garbage \/ e.err \in {"", "notenough", "singular"} >>,
     << "C07.cauchy_within_capability", (e.coder = "cauchy" /\ Within(e) /\ ~e.garbage) => e.err = "" >>,
     << "C07.vandermonde_iff_solvable", (e.coder = "vandermonde" /\ Within(e) /\ ~e.garbage) => (e.err = "" <=> SolvableE(e)) >>,
     << "C07.supplied_shards_untouched", e.supplied_unchanged >>,
     << "C07.parity_is_specified_sum", e.haswords => ParityIsSpec(e) >> >>

Failed(e) == LET c == Clauses(e) IN {c[i][1] : i \in {j \in 1 .. Len(c) : ~c[j][2]}}
Drift(e) == e.expect # "none" /\ e.expect # e.err /\ ~e.garbage

Init == l = 1
Next == /\ l <= Len(Trace)
        /\ LET e == Trace[l] IN
             /\ \A c \in Failed(e) : PrintT("VERDICT " \o ToJson([i |-> l, clause |-> c]))
             /\ (Drift(e) => PrintT("DRIFT " \o ToJson([i |-> l])))
        /\ l' = l + 1
AllJudged == /\ PrintT("JUDGED " \o ToJson([n |-> TLCGet("stats").diameter - 1]))
             /\ TLCGet("stats").diameter - 1 = Len(Trace)
=============================================================================
