----------------------------- MODULE Trace_C10 -----------------------------
(***************************************************************************)
(* Trace judge for C10.                                                    *)
(*  p1set    : files written by the real par1.Create, tokenized by the     *)
(*             independent observer: Par1Format decides (clauses C10.writer.x)       *)
(*  p1refset : files written by the reference writer: Par1Format decides   *)
(*             (clauses OBS.ref.x: the writer is checked, not trusted)             *)
(*  p1layout : real par1.Verify / par1.Repair on a reference-written set   *)
(*             (comment, entries not saved in the parity set, surrogate    *)
(*             pairs); facts of the directory supplied by the harness.     *)
(***************************************************************************)
EXTENDS Integers, Sequences, FiniteSets, TLC, Json

ASSUME TLCSet(1, ndJsonDeserialize("trace.ndjson"))
Trace == TLCGet(1)
INSTANCE Par1Format
M8 == INSTANCE Matrix WITH MulOp <- GF8!FastMul, InvOp <- GF8!FastInv, AddOp <- GF8!Add
ASSUME GF8!InitTablesp(0) /\ GF8!TablesOKp(0)
VARIABLE l

Recon(vs, bs) == [r \in 1 .. Len(bs) |-> [c \in 1 .. Len(bs) |-> GF8!FastPow(bs[c], vs[r] - 1)]]
SingularJustified(e) == Len(e.bad) > 0 /\ Len(e.bad) <= Len(e.vols) /\ M8!Singular(Recon(SubSeq(e.vols, 1, Len(e.bad)), e.bad))

LayoutVerdicts(e) ==
  (IF e.verify.err = "" /\ e.verify.usable = e.nsaved - Len(e.bad) /\ e.verify.unusable = Len(e.bad) /\ e.verify.pusable = Len(e.vols)
   THEN {} ELSE {"C10.reader.verify_counts"})
  \cup (IF (Len(e.bad) <= Len(e.vols)) => ((e.repair.err = "" /\ e.restored) \/ (e.repair.err = "singular" /\ SingularJustified(e)))
        THEN {} ELSE {"C10.reader.repair_within_capacity"})
  \cup (IF e.repair.err = "" => e.restored THEN {} ELSE {"C10.reader.ok_means_restored"})
  \cup (IF (Len(e.bad) > Len(e.vols)) => e.repair.err = "notenough" THEN {} ELSE {"C10.reader.too_few_is_typed"})
  \cup (IF e.verify.err # "panic" /\ e.repair.err # "panic" THEN {} ELSE {"C13.no_panic"})
  \cup (IF e.outside = << >> THEN {} ELSE {"C02.nothing_else_changed"})
  \cup (IF e.changed_ok THEN {} ELSE {"C02.write_discipline"})

Verdicts(e) == CASE e.ev = "p1set" -> SetVerdicts(e, "C10.writer.")
                 [] e.ev = "p1refset" -> SetVerdicts(e, "OBS.ref.")
                 [] e.ev = "p1layout" -> LayoutVerdicts(e)
                 [] OTHER -> {"C10.unknown_event"}
Init == l = 1
Next == /\ l <= Len(Trace)
        /\ \A c \in Verdicts(Trace[l]) : PrintT("VERDICT " \o ToJson([i |-> l, clause |-> c]))
        /\ l' = l + 1
AllJudged == /\ PrintT("JUDGED " \o ToJson([n |-> TLCGet("stats").diameter - 1]))
             /\ TLCGet("stats").diameter - 1 = Len(Trace)
=============================================================================
