--------------------------- MODULE PartitionProof ---------------------------
(***************************************************************************)
(* TLAPS proof of the static partition properties of Parallel.tla for      *)
(* UNBOUNDED shard length and goroutine count (TLC checks len <= 512,      *)
(* g <= 40 in MC_ParallelGrid).                                            *)
(*                                                                         *)
(* The per-worker length Per and the worker count N are characterised by   *)
(* what calculateParallelParams guarantees:                                *)
(*     Per >= 1,  Per * g >= len          (Per >= ceil(len / g))           *)
(*     (N - 1) * Per < len <= N * Per     (N = ceil(len / Per))            *)
(* Worker w in 0..N-1 owns [w*Per, min((w+1)*Per, len)).                   *)
(***************************************************************************)
EXTENDS Integers, TLAPS

Lo(w, per) == w * per
Hi(w, per, len) == IF (w + 1) * per > len THEN len ELSE (w + 1) * per

THEOREM AtMostG ==
  ASSUME NEW len \in Nat, NEW g \in Nat, NEW per \in Nat, NEW n \in Nat,
         len >= 1, g >= 1, per >= 1, per * g >= len,
         (n - 1) * per < len, len <= n * per
  PROVE  n >= 1 /\ n <= g
<1>1. n >= 1
  BY Z3
<1>2. n <= g
  <2>1. SUFFICES ASSUME n >= g + 1 PROVE FALSE
    BY Z3
  <2>2. (n - 1) * per >= g * per
    BY <2>1, Z3
  <2>3. g * per = per * g
    BY Z3
  <2> QED BY <2>2, <2>3, Z3
<1> QED BY <1>1, <1>2

THEOREM NonEmptyAndInside ==
  ASSUME NEW len \in Nat, NEW per \in Nat, NEW n \in Nat, NEW w \in Nat,
         per >= 1, (n - 1) * per < len, len <= n * per, w <= n - 1
  PROVE  Lo(w, per) < Hi(w, per, len) /\ Hi(w, per, len) <= len /\ Lo(w, per) >= 0
<1>1. w * per <= (n - 1) * per
  BY Z3
<1>2. w * per < len
  BY <1>1, Z3
<1>3. (w + 1) * per = w * per + per
  BY Z3
<1> QED BY <1>2, <1>3, Z3 DEF Lo, Hi

THEOREM Disjoint ==
  ASSUME NEW len \in Nat, NEW per \in Nat, NEW v \in Nat, NEW w \in Nat,
         per >= 1, v < w
  PROVE  Hi(v, per, len) <= Lo(w, per)
<1>1. (v + 1) * per <= w * per
  BY Z3
<1> QED BY <1>1, Z3 DEF Lo, Hi

THEOREM Cover ==
  ASSUME NEW len \in Nat, NEW per \in Nat, NEW n \in Nat, NEW b \in Nat,
         per >= 1, (n - 1) * per < len, len <= n * per, b < len
  PROVE  \E w \in 0 .. (n - 1) : Lo(w, per) <= b /\ b < Hi(w, per, len)
<1> DEFINE w0 == b \div per
<1>1. w0 \in Nat /\ w0 * per <= b /\ b < (w0 + 1) * per
  BY Z3
<1>2. w0 <= n - 1
  <2>1. SUFFICES ASSUME w0 >= n PROVE FALSE
    BY <1>1, Z3
  <2>2. w0 * per >= n * per
    BY <2>1, <1>1, Z3
  <2> QED BY <2>2, <1>1, Z3
<1>3. b < Hi(w0, per, len)
  BY <1>1 DEF Hi
<1> QED BY <1>1, <1>2, <1>3 DEF Lo

\* word alignment: Per is a multiple of 16 and len is even
THEOREM Aligned ==
  ASSUME NEW len \in Nat, NEW k \in Nat, NEW w \in Nat, NEW h \in Nat, len = 2 * h
  PROVE  Lo(w, 16 * k) % 2 = 0 /\ Hi(w, 16 * k, len) % 2 = 0
<1>1. w * (16 * k) = 2 * (8 * w * k)
  BY Z3
<1>2. (w + 1) * (16 * k) = 2 * (8 * (w + 1) * k)
  BY Z3
<1> QED BY <1>1, <1>2, Z3 DEF Lo, Hi
=============================================================================
