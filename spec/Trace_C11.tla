----------------------------- MODULE Trace_C11 -----------------------------
(***************************************************************************)
(* Trace judge for C11: calls of the real gf2p16.Matrix over GF(2^16).     *)
(*   inv   : Inverse(M)            -> result X or "singular"               *)
(*   rr    : M.RowReduceForInverse(N) -> result R or "singular"            *)
(*   times : A.Times(B) = C                                                *)
(* A result is accepted only if TLC's own product gives X*M = I (R: M*R =  *)
(* N) -- completely for n <= Full, by seeded Freivalds vectors above; a    *)
(* "singular" verdict is accepted only with a kernel vector that TLC       *)
(* checks (M*v = 0, v # 0): the certificate is supplied by the harness and *)
(* is not trusted.  So an error on a non-singular matrix or a result for a *)
(* singular one cannot be accepted.                                        *)
(***************************************************************************)
EXTENDS Integers, Sequences, FiniteSets, TLC, Json

ASSUME TLCSet(1, ndJsonDeserialize("trace.ndjson"))
Trace == TLCGet(1)

GF16 == INSTANCE GF WITH W <- 16, Poly <- 69643, Gen <- 2, Reg <- 10
M16 == INSTANCE Matrix WITH MulOp <- GF16!FastMul, InvOp <- GF16!FastInv, AddOp <- GF16!Add
ASSUME GF16!InitTablesp(0) /\ GF16!TablesOKp(0)

Full == 40
VARIABLE l

\* A*B = C, completely or on the probe vectors (as n x 1 matrices)
Col(v) == [i \in 1 .. Len(v) |-> << v[i] >>]
ProductOK(A, B, C, probes) ==
  IF Len(A) <= Full /\ M16!Cols(B) <= Full /\ M16!Cols(A) <= Full
  THEN M16!Times(A, B) = C
  ELSE \A k \in 1 .. Len(probes) :
          M16!Times(A, M16!Times(B, Col(probes[k]))) = M16!Times(C, Col(probes[k]))

Clauses(e) ==
  CASE e.ev = "inv" ->
        << << "C11.inverse_times_m_is_identity",
              e.res = "ok" => ProductOK(e.x, e.m, M16!Identity(e.n), e.probes) >>,
           << "C11.m_times_inverse_is_identity",
              (e.res = "ok" /\ e.n <= Full) => M16!Times(e.m, e.x) = M16!Identity(e.n) >>,
           << "C11.error_only_if_singular", e.res = "singular" => M16!IsKernelVector(e.m, e.cert) >>,
           << "C11.result_is_ok_or_singular", e.res \in {"ok", "singular"} >>,
           << "C11.operands_unmodified", e.m_unchanged >>,
           << "C11.agrees_with_transcribed_algorithm",
              e.n <= 12 => LET rr == M16!Inverse(e.m) IN
                              (rr.err <=> e.res = "singular") /\ (~rr.err => rr.n = e.x) >> >>
    [] e.ev = "rr" ->
        << << "C11.row_reduce_gives_inverse_times_n", e.res = "ok" => ProductOK(e.m, e.x, e.nm, e.probes) >>,
           << "C11.error_only_if_singular", e.res = "singular" => M16!IsKernelVector(e.m, e.cert) >>,
           << "C11.result_is_ok_or_singular", e.res \in {"ok", "singular"} >>,
           << "C11.operands_unmodified", e.m_unchanged /\ e.n_unchanged >> >>
    [] e.ev = "times" ->
        << << "C11.times_is_row_by_column", ProductOK(e.a, e.b, e.c, e.probes) >>,
           << "C11.operands_unmodified", e.m_unchanged >> >>
    [] OTHER -> << << "C11.unknown_event", FALSE >> >>

Failed(e) == LET c == Clauses(e) IN {c[i][1] : i \in {j \in 1 .. Len(c) : ~c[j][2]}}

Init == l = 1
Next == /\ l <= Len(Trace)
        /\ \A c \in Failed(Trace[l]) : PrintT("VERDICT " \o ToJson([i |-> l, clause |-> c]))
        /\ l' = l + 1
AllJudged == /\ PrintT("JUDGED " \o ToJson([n |-> TLCGet("stats").diameter - 1]))
             /\ TLCGet("stats").diameter - 1 = Len(Trace)
=============================================================================
