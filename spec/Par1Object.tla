----------------------------- MODULE Par1Object -----------------------------
(***************************************************************************)
(* EXTENSION X03 (beyond the listed properties): the typestate of the      *)
(* exported par1.Decoder object, on top of the directory model of          *)
(* Par1Archive.                                                            *)
(*                                                                         *)
(* par1.Verify / par1.Repair build a Decoder and call LoadFileData,        *)
(* LoadParityData, then FileCounts / VerifyAllData / Repair, once, in that *)
(* order.  The object is exported; a library user may call the methods in  *)
(* any order, any number of times, while the directory changes in between. *)
(* The object is a state machine over two SNAPSHOTS:                       *)
(*                                                                         *)
(*   data : which data files were unusable AT THE MOMENT of LoadFileData   *)
(*          (the usable ones are held in memory, hash-checked)             *)
(*   par  : which parity volumes existed AT THE MOMENT of LoadParityData   *)
(*                                                                         *)
(* Unlike the PAR2 object (Par2Object), Repair records what it restored:   *)
(* a second Repair on the same object finds nothing missing and writes     *)
(* nothing.                                                                *)
(*                                                                         *)
(* ALGORITHM LAYER (par1/decoder.go, deviations named):                    *)
(*   FileCounts     before the loads: all four counts 0                    *)
(*                  after LoadParityData with no volume: ONE unusable      *)
(*                  parity file (a slice of length 1 is kept)  -- as VerifyFn *)
(*   VerifyAllData  before both loads, or with no volume loaded: error     *)
(*                  (the coder refuses zero shards); with an unusable file *)
(*                  or a gap in the volumes: error (shard without data)    *)
(*   Repair         nothing loaded, or no volume in the snapshot:          *)
(*                  SUCCEEDS vacuously if no file is known to be missing   *)
(*                  (also when LoadFileData was never called)              *)
(*                                                  -- RepairVacuousSuccess *)
(*                  volumes loaded, data not: error (zero data shards)     *)
(* TRUTH LAYER (OT1_ clauses): whatever the order of calls and however     *)
(*   stale the snapshots - only Repair writes, only exact originals, all   *)
(*   listed; counts are exact for the directory at the moment of the       *)
(*   loads; within the capacity of the snapshots Repair succeeds (or       *)
(*   singular); a call made too early writes nothing; a failed Repair      *)
(*   changes nothing; VerifyAllData says ok only for a snapshot that was   *)
(*   completely intact.                                                    *)
(***************************************************************************)
EXTENDS Par1Archive

VARIABLE dec
ovars == << disk, vols, last, act, dec >>
OView == << disk, vols, dec >>

NoData == [loaded |-> FALSE, bad |-> {}, at |-> [f \in NameSet |-> Absent], repaired |-> FALSE]
NoPar  == [loaded |-> FALSE, vs |-> {}, at |-> {}]
NoObj  == [alive |-> FALSE, data |-> NoData, par |-> NoPar]

(***************************** ALGORITHM LAYER *****************************)
EnvSetFile(f, v) == SetFile(f, v) /\ UNCHANGED dec
EnvDelVol(v) == DelVol(v) /\ UNCHANGED dec
EnvAddVol(v) == AddVol(v) /\ UNCHANGED dec

ObjNew == /\ dec' = [alive |-> TRUE, data |-> NoData, par |-> NoPar]
          /\ act' = "new" /\ last' = [op |-> "new", err |-> ""]
          /\ UNCHANGED << disk, vols >>

ObjLoadFileData ==
  /\ dec.alive
  /\ dec' = [dec EXCEPT !.data = [loaded |-> TRUE, bad |-> BadSet(disk), at |-> disk, repaired |-> FALSE]]
  /\ act' = "loadfile" /\ last' = [op |-> "loadfile", err |-> ""]
  /\ UNCHANGED << disk, vols >>

ObjLoadParityData ==
  /\ dec.alive
  /\ dec' = [dec EXCEPT !.par = [loaded |-> TRUE, vs |-> vols, at |-> vols]]
  /\ act' = "loadparity" /\ last' = [op |-> "loadparity", err |-> ""]
  /\ UNCHANGED << disk, vols >>

NFiles == Cardinality(NameSet)
Gapless(vs) == vs # {} /\ MaxOf(vs) = Cardinality(vs)

CountsOf(d) ==
  [op |-> "counts", err |-> "",
   usable |-> IF d.data.loaded THEN NFiles - Cardinality(d.data.bad) ELSE 0,
   unusable |-> Cardinality(d.data.bad),
   pusable |-> Cardinality(d.par.vs),
   punusable |-> IF ~d.par.loaded THEN 0 ELSE IF d.par.vs = {} THEN 1 ELSE MaxOf(d.par.vs) - Cardinality(d.par.vs)]

ObjFileCounts ==
  /\ dec.alive
  /\ last' = CountsOf(dec) /\ act' = "counts"
  /\ UNCHANGED << disk, vols, dec >>

\* VerifyAllData on the snapshots
VerifyAllOf(d) ==
  IF ~d.data.loaded \/ ~d.par.loaded THEN [op |-> "verifyall", err |-> "other", ok |-> FALSE]
  ELSE IF d.data.bad # {} \/ ~Gapless(d.par.vs) THEN [op |-> "verifyall", err |-> "other", ok |-> FALSE]
  ELSE [op |-> "verifyall", err |-> "", ok |-> TRUE]

ObjVerifyAll ==
  /\ dec.alive
  /\ last' = VerifyAllOf(dec) /\ act' = "verifyall"
  /\ UNCHANGED << disk, vols, dec >>

\* Decoder.Repair on the snapshots.  Returns [res, disk, dec].
ObjRepairFn(d, dk) ==
  LET bad == d.data.bad
      vs  == d.par.vs
      k   == Cardinality(bad)
      fail(e) == [res |-> [op |-> "repair", err |-> e, repaired |-> << >>], disk |-> dk, dec |-> d]
  IN IF vs = {}                                       \* no parity data in the object (shardByteCount = 0)
     THEN IF k > 0 THEN fail("notenough")
          ELSE [res |-> [op |-> "repair", err |-> "", repaired |-> << >>], disk |-> dk, dec |-> d]   \* RepairVacuousSuccess
     ELSE IF ~d.data.loaded THEN fail("other")       \* zero data shards
     ELSE IF k > Cardinality(vs) THEN fail("notenough")
     ELSE IF SingularFor(vs, bad) THEN fail("singular")
     ELSE [res |-> [op |-> "repair", err |-> "", repaired |-> FilterNames(1, bad)],
           disk |-> [f \in NameSet |-> IF f \in bad THEN Prot[f] ELSE dk[f]],
           dec |-> [d EXCEPT !.data.bad = {}, !.data.repaired = (d.data.repaired \/ bad # {})]]

ObjRepair(dc) ==
  /\ dec.alive
  /\ LET r == ObjRepairFn(dec, disk) IN
       /\ last' = r.res /\ disk' = r.disk /\ dec' = r.dec
  /\ act' = IF dc THEN "repairdc" ELSE "repair"
  /\ UNCHANGED vols

ObjInit == Init /\ dec = NoObj

ObjNext == \/ \E f \in NameSet : \E v \in Menu[f] : EnvSetFile(f, v)
           \/ \E v \in VolIds : EnvDelVol(v) \/ EnvAddVol(v)
           \/ ObjNew \/ ObjLoadFileData \/ ObjLoadParityData \/ ObjFileCounts \/ ObjVerifyAll
           \/ ObjRepair(FALSE) \/ ObjRepair(TRUE)

ObjSpec == ObjInit /\ [][ObjNext]_ovars

(***************************** TRUTH LAYER *********************************)
OIsRepair == act' \in {"repair", "repairdc"}

OT1_WriteDiscipline ==
  \A f \in NameSet :
     (disk'[f] # disk[f] /\ act' \notin {"damage", "restore"}) =>
        /\ OIsRepair
        /\ disk'[f] = Prot[f]
        /\ \E i \in 1 .. Len(last'.repaired) : last'.repaired[i] = f
OT1_ListedMeansWritten ==
  OIsRepair => \A i \in 1 .. Len(last'.repaired) : disk'[last'.repaired[i]] = Prot[last'.repaired[i]]
OT1_VolumesUntouched == (act' \notin {"delvol", "addvol"}) => vols' = vols

\* the counts are exact for the directory AT THE MOMENT OF THE LOADS (after a Repair that restored
\* something, the restored files count as usable)
OT1_CountsTruthfulAtLoad ==
  (act' = "counts") =>
     /\ ((dec.data.loaded /\ ~dec.data.repaired) => last'.unusable = Cardinality(BadSet(dec.data.at)))
     /\ ((dec.data.loaded /\ dec.data.repaired) => last'.unusable = 0)
     /\ (dec.data.loaded => last'.usable + last'.unusable = NFiles)
     /\ (~dec.data.loaded => (last'.usable = 0 /\ last'.unusable = 0))
     /\ last'.pusable = (IF dec.par.loaded THEN Cardinality(dec.par.at) ELSE 0)
     /\ (~dec.par.loaded => last'.punusable = 0)

\* within the capacity of the snapshots Repair succeeds, the only excuse being a singular system;
\* the first success restores every file that was unusable at load time
OT1_WithinSnapshotCapacity ==
  (OIsRepair /\ dec.data.loaded /\ ~dec.data.repaired /\ Cardinality(BadSet(dec.data.at)) <= Cardinality(dec.par.vs)) =>
        \/ (last'.err = "" /\ \A f \in BadSet(dec.data.at) : disk'[f] = Prot[f])
        \/ (last'.err = "singular" /\ SingularFor(dec.par.vs, BadSet(dec.data.at)))

\* a call made too early (no file data loaded) writes nothing - it may succeed vacuously
OT1_TooEarlyWritesNothing == (OIsRepair /\ ~dec.data.loaded) => (disk' = disk /\ last'.repaired = << >>)

OT1_FailureChangesNothing == (OIsRepair /\ last'.err # "") => (disk' = disk /\ dec' = dec)

\* success is a fixpoint for the same object: the next Repair succeeds and writes nothing
OT1_SuccessSticks ==
  (OIsRepair /\ last'.err = "" /\ dec.data.loaded) =>
     /\ ObjRepairFn(dec', disk').res.err = ""
     /\ ObjRepairFn(dec', disk').res.repaired = << >>
     /\ CountsOf(dec').unusable = 0

\* VerifyAllData answers ok only for snapshots that were completely intact (or were made so by Repair)
OT1_VerifyAllTruthful ==
  (act' = "verifyall" /\ last'.err = "" /\ last'.ok) =>
     /\ dec.data.loaded /\ dec.par.loaded
     /\ (dec.data.repaired \/ BadSet(dec.data.at) = {})
     /\ Gapless(dec.par.at)
\* and it never reports "not ok" without an error in this model (volumes are intact or absent)
OT1_VerifyAllNeverFalseNegative == (act' = "verifyall" /\ last'.err = "") => last'.ok

\* only Repair changes the directory; the read-only methods change neither directory nor (beyond their snapshot) the object
OT1_ReadOnlyCalls ==
  (act' \in {"new", "loadfile", "loadparity", "counts", "verifyall"}) => (disk' = disk /\ vols' = vols)
=============================================================================
