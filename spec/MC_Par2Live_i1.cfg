CONSTANT Inst = "i1"
CONSTANT Positions = "obj"
SPECIFICATION LSpec
CHECK_DEADLOCK FALSE
PROPERTY Converges NeverWorse
