----------------------------- MODULE Trace_C09 -----------------------------
(***************************************************************************)
(* Trace judge for C09.  Each "kern" event is one call of a bulk kernel on *)
(* one dispatch path with buffers carved from mmapped regions that end     *)
(* (or start) flush against an inaccessible page and are bracketed by      *)
(* canaries: the words before and after, whether the call faulted, whether *)
(* the canaries survived and whether the input was left alone are          *)
(* OBSERVED by the harness; TLC judges every word with GF!Mul and asserts  *)
(* the observed flags.  "sweep" events are closure sweeps run in Go (all   *)
(* constants x all word values) that only nominate.                        *)
(***************************************************************************)
EXTENDS Integers, Sequences, FiniteSets, TLC, Json

ASSUME TLCSet(1, ndJsonDeserialize("trace.ndjson"))
Trace == TLCGet(1)
GF16 == INSTANCE GF WITH W <- 16, Poly <- 69643, Gen <- 2, Reg <- 10
ASSUME GF16!InitTablesp(0) /\ GF16!TablesOKp(0)
VARIABLE l

WordsOK(e) ==
  \A i \in 1 .. Len(e.in) :
     e.out[i] = GF16!Add(IF e.op = "muladd" THEN e.old[i] ELSE 0, GF16!FastMul(e.c, e.in[i]))

Clauses(e) ==
  CASE e.ev = "kern" ->
        << << "C09.no_out_of_bounds_access", ~e.fault >>,
           << "C09.canaries_intact", e.canary_ok >>,
           << "C09.input_unmodified", e.in_unchanged >>,
           << "C09.every_word_is_field_product", (~e.fault) => (Len(e.out) = Len(e.in) /\ WordsOK(e)) >>,
           << "C09.long_buffer_rest_matches_times", e.rest_ok >> >>
    [] e.ev = "sweep" ->
        << << "C09.sweep_no_fault", e.faults = 0 >>,
           << "C09.sweep_bookkeeping", e.nominated = e.mismatches \/ e.nominated = e.cap >> >>
    [] OTHER -> << << "C09.unknown_event", FALSE >> >>

Failed(e) == LET c == Clauses(e) IN {c[i][1] : i \in {j \in 1 .. Len(c) : ~c[j][2]}}
Init == l = 1
Next == /\ l <= Len(Trace)
        /\ \A c \in Failed(Trace[l]) : PrintT("VERDICT " \o ToJson([i |-> l, clause |-> c]))
        /\ l' = l + 1
AllJudged == /\ PrintT("JUDGED " \o ToJson([n |-> TLCGet("stats").diameter - 1]))
             /\ TLCGet("stats").diameter - 1 = Len(Trace)
=============================================================================
