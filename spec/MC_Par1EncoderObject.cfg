CONSTANT MaxVersion = 4
CONSTANT R = 2
INIT EInit
NEXT ENext
VIEW EView
CHECK_DEADLOCK FALSE
PROPERTY P_E1 P_E2 P_E3 P_E4 P_E5
