---------------------------- MODULE Par2Archive ----------------------------
(***************************************************************************)
(* The PAR2 directory state machine.                                       *)
(*                                                                         *)
(* No state survives between gopar calls except the directory, so the      *)
(* system state is the directory: the protected files (disk) and which     *)
(* recovery volumes are present (vols).  The index file is always present  *)
(* and intact here (damaged archives: Par2Faults / C13, C19).              *)
(*                                                                         *)
(* ALGORITHM LAYER (shaped like par2/decoder.go):                          *)
(*   VerifyFn  : greedy scan of every protected file -> counts             *)
(*   RepairFn  : scan -> missing slices -> lowest-numbered available       *)
(*               exponents -> solve (singular?) -> re-assemble every file  *)
(*               that was not ok -> hash check -> write                    *)
(* TRUTH LAYER (what the properties demand, in terms of what is really on  *)
(*   disk): Survivors / Occurring from Par2Scan, Singular from Matrix over *)
(*   the real GF(2^16), the write discipline, truthfulness of the counts.  *)
(* TLC checks "algorithm layer |= truth layer" as action properties on     *)
(* every transition of the bounded instances (MC_Par2*.tla).               *)
(***************************************************************************)
EXTENDS Integers, Sequences, FiniteSets, TLC

CONSTANTS S,       \* slice size
          Names,   \* protected file names in recovery-set order
          Prot,    \* [name -> original bytes]
          Vols,    \* sequence of sets of exponents: the recovery volume files
          Menu     \* [name -> set of contents (or Absent) the file may be given]

Scan == INSTANCE Par2Scan
PC == INSTANCE Par2Const
GF16 == INSTANCE GF WITH W <- 16, Poly <- 69643, Gen <- 2, Reg <- 10
M16 == INSTANCE Matrix WITH MulOp <- GF16!FastMul, InvOp <- GF16!FastInv, AddOp <- GF16!Add

Absent == Scan!Absent
NameSet == Scan!NameSet
VolIds == 1 .. Len(Vols)

VARIABLES disk,    \* [name -> bytes or Absent]
          vols,    \* set of volume ids present
          last,    \* result of the last operation (output only)
          act      \* label of the last action (output only)
vars == << disk, vols, last, act >>
View == << disk, vols >>

NoResult == [op |-> "none"]

(***************************** helpers *************************************)
Exps(vs) == UNION {Vols[v] : v \in vs}
MaxOf(Sx) == CHOOSE x \in Sx : \A y \in Sx : y <= x
MinOf(Sx) == CHOOSE x \in Sx : \A y \in Sx : x <= y

RECURSIVE SortedSeq(_)
SortedSeq(Sx) == IF Sx = {} THEN << >> ELSE LET m == MinOf(Sx) IN << m >> \o SortedSeq(Sx \ {m})

\* the k lowest elements of a set of naturals, ascending
Lowest(Sx, k) == SubSeq(SortedSeq(Sx), 1, k)

\* the matrix the decoder has to invert: rows = chosen exponents, columns = missing slices
ReconMatrix(exps, missingIdx) ==
  [r \in 1 .. Len(exps) |-> [c \in 1 .. Len(missingIdx) |-> PC!Entry(exps[r], missingIdx[c])]]

MissingIdx(posSet) == SortedSeq({Scan!GIndex(p) : p \in posSet})

SingularFor(expSet, posSet) ==
  LET k == Cardinality(posSet)
  IN k > 0 /\ M16!Singular(ReconMatrix(Lowest(expSet, k), MissingIdx(posSet)))

AllIntact(d) == \A f \in NameSet : d[f] = Prot[f]
NotOK(d) == {f \in NameSet : ~Scan!FileOK(d, f)}
\* files in recovery-set order that are not ok
RECURSIVE FilterNames(_, _)
FilterNames(i, Sx) == IF i > Len(Names) THEN << >>
                      ELSE (IF Names[i] \in Sx THEN << Names[i] >> ELSE << >>) \o FilterNames(i + 1, Sx)

(***************************** ALGORITHM LAYER *****************************)
VerifyFn(d, vs) ==
  LET found == Scan!Found(d)
      ex    == Exps(vs)
  IN [op |-> "verify", err |-> "",
      usable |-> Cardinality(found), unusable |-> Scan!NTotal - Cardinality(found),
      pusable |-> Cardinality(ex),
      punusable |-> IF ex = {} THEN 0 ELSE MaxOf(ex) + 1 - Cardinality(ex)]

\* result and new directory of Repair
RepairFn(d, vs) ==
  LET found   == Scan!Found(d)
      missing == Scan!Pos \ found
      ex      == Exps(vs)
      k       == Cardinality(missing)
  IN IF k > Cardinality(ex) THEN [res |-> [op |-> "repair", err |-> "notenough", repaired |-> << >>], disk |-> d]
     ELSE IF SingularFor(ex, missing) THEN [res |-> [op |-> "repair", err |-> "singular", repaired |-> << >>], disk |-> d]
     ELSE [res |-> [op |-> "repair", err |-> "", repaired |-> FilterNames(1, NotOK(d))],
           disk |-> [f \in NameSet |-> Prot[f]]]

(***************************** ACTIONS *************************************)
Init == /\ disk = [f \in NameSet |-> Prot[f]]
        /\ vols = VolIds
        /\ last = NoResult
        /\ act = "create"

SetFile(f, v) == /\ v # disk[f]
                 /\ disk' = [disk EXCEPT ![f] = v]
                 /\ act' = IF v = Prot[f] THEN "restore" ELSE "damage"
                 /\ last' = NoResult
                 /\ UNCHANGED vols

DelVol(v) == v \in vols /\ vols' = vols \ {v} /\ act' = "delvol" /\ last' = NoResult /\ UNCHANGED disk
AddVol(v) == v \notin vols /\ vols' = vols \cup {v} /\ act' = "addvol" /\ last' = NoResult /\ UNCHANGED disk

Verify == /\ last' = VerifyFn(disk, vols)
          /\ act' = "verify"
          /\ UNCHANGED << disk, vols >>

Repair(dc) == LET r == RepairFn(disk, vols) IN
              /\ last' = r.res
              /\ disk' = r.disk
              /\ act' = IF dc THEN "repairdc" ELSE "repair"
              /\ UNCHANGED vols

Next == \/ \E f \in NameSet : \E v \in Menu[f] : SetFile(f, v)
        \/ \E v \in VolIds : DelVol(v) \/ AddVol(v)
        \/ Verify
        \/ Repair(FALSE) \/ Repair(TRUE)

Spec == Init /\ [][Next]_vars

(***************************** TRUTH LAYER: the properties *****************)
IsRepair == act' \in {"repair", "repairdc"}
IsVerify == act' = "verify"

\* C01: within capacity Repair succeeds and restores everything; the only excuse is a
\* singular system for what really had to be reconstructed; success always means restored.
C01_WithinCapacity ==
  IsRepair =>
    LET k == Scan!NTotal - Cardinality(Scan!Survivors(disk))
        ex == Exps(vols)
    IN (k <= Cardinality(ex)) =>
         \/ (last'.err = "" /\ AllIntact(disk'))
         \/ (last'.err = "singular" /\
               \E found \in SUBSET Scan!Occurring(disk) :
                   Scan!Survivors(disk) \subseteq found /\ SingularFor(ex, Scan!Pos \ found))
C01_OkMeansRestored == IsRepair => (last'.err = "" => AllIntact(disk'))

\* C02: only Repair writes; it writes only exact originals and lists them; nothing else changes.
C02_WriteDiscipline ==
  \A f \in NameSet :
     (disk'[f] # disk[f] /\ act' \notin {"damage", "restore"}) =>
        /\ IsRepair
        /\ disk'[f] = Prot[f]
        /\ \E i \in 1 .. Len(last'.repaired) : last'.repaired[i] = f
C02_VolumesUntouched == (act' \notin {"delvol", "addvol"}) => vols' = vols
C02_ListedMeansWritten ==
  IsRepair => \A i \in 1 .. Len(last'.repaired) : disk'[last'.repaired[i]] = Prot[last'.repaired[i]]

\* C03: counts are sound and complete; possible iff capacity suffices.
C03_Counts ==
  IsVerify =>
    /\ Cardinality(Scan!Survivors(disk)) <= last'.usable
    /\ last'.usable <= Cardinality(Scan!Occurring(disk))
    /\ last'.usable + last'.unusable = Scan!NTotal
    /\ last'.pusable = Cardinality(Exps(vols))
\* "clean means intact" does NOT hold for the algorithm layer (gopar counts slices, not files):
\* this is known finding D5.  What the algorithm layer does guarantee is the weaker statement
\* below; the real code is judged with the property itself (Trace_Archive, clause
\* C03.clean_implies_intact).
C03_CleanMeansAllSlicesPresent ==
  IsVerify => (last'.unusable = 0 => Scan!Occurring(disk) = Scan!Pos)
C03_CleanMeansIntact ==
  IsVerify => (last'.unusable = 0 => AllIntact(disk))

\* C14: after a successful Repair, Verify is clean and a further Repair rewrites nothing;
\* a failed Repair changes nothing; Verify never changes the state.
C14_SuccessIsFixpoint ==
  (IsRepair /\ last'.err = "") =>
     /\ VerifyFn(disk', vols').unusable = 0
     /\ RepairFn(disk', vols').res.repaired = << >>
     /\ RepairFn(disk', vols').disk = disk'
C14_FailureKeepsOrRestores ==
  (IsRepair /\ last'.err # "") => \A f \in NameSet : disk'[f] = disk[f] \/ disk'[f] = Prot[f]
\* "never increases the damage", as a statement about the set as a whole: a Repair that gives up for lack of
\* recovery blocks leaves every slice that occurred somewhere in the protected files occurring somewhere
\* (rewriting one file with its original must not wipe the only copy of another file's slices stored under
\* that name), so that the attempt after a recovery file returns starts from no less than this one did
C14_FailureLosesNoSlice ==
  (IsRepair /\ last'.err = "notenough") => Scan!Occurring(disk) \subseteq Scan!Occurring(disk')
C14_VerifyPure == IsVerify => disk' = disk /\ vols' = vols

\* C16: every slice that survives is credited (so Repair needs recovery blocks only for the rest)
C16_SurvivorsFound == IsVerify => Scan!Bounds(disk)
=============================================================================
