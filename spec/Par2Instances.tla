--------------------------- MODULE Par2Instances ---------------------------
(***************************************************************************)
(* The bounded PAR2 instances and damage menus shared by the model-checking *)
(* modules (MC_Par2, MC_Par2Object).  Bytes are 0..2 (0 matters: zero       *)
(* padding at end of file).  The order of Names is the file-id order of the *)
(* real files (it depends on MD5, which the specification does not compute);*)
(* the harness confirms it against the main packet gopar writes.            *)
(***************************************************************************)
EXTENDS Integers, Sequences, FiniteSets, TLC, Json

CONSTANTS Inst,       \* which instance
          Positions   \* "few" or "all": damage positions per file

Instances ==
  [ i1 |-> [s |-> 4, names |-> << "b", "a" >>,
            prot |-> [a |-> << 1, 2, 0, 1, 2 >>, b |-> << 2, 1, 1 >>],
            vols |-> << {0}, {1} >>],
    i2 |-> [s |-> 4, names |-> << "a", "b", "c" >>,
            prot |-> [a |-> << 1, 2, 2, 1, 0, 0, 1, 1, 2 >>, b |-> << 2, 2, 1, 0 >>, c |-> << 1 >>],
            vols |-> << {0}, {1, 2} >>],
    i3 |-> [s |-> 8, names |-> << "b", "a" >>,
            prot |-> [a |-> << 1, 2, 0, 0, 2, 1, 1, 2, 0, 1, 2, 2, 1, 0, 0, 0 >>, b |-> << 2, 1, 0, 2, 2, 1, 1 >>],
            vols |-> << {0}, {1, 2}, {3} >>],
    i4 |-> [s |-> 4, names |-> << "b", "a" >>,
            prot |-> [a |-> << 1, 1, 1, 1, 1, 1, 1, 1 >>, b |-> << 1, 1, 1, 1, 0, 0, 0, 0, 1, 1 >>],
            vols |-> << {0}, {1, 2} >>],
    \* i5: three files of two distinct slices each and ONE recovery block, for the "cyc" menu (contents rotated
    \* among the names, possibly with one slice corrupted): chains of "holds the content of" (seeded change R15-T14)
    i5 |-> [s |-> 4, names |-> << "c", "b", "a" >>,
            prot |-> [a |-> << 1, 2, 1, 2, 2, 1, 2, 1 >>, b |-> << 1, 1, 2, 2, 2, 2, 1, 1 >>, c |-> << 2, 1, 1, 1, 1, 2, 2, 2 >>],
            vols |-> << {0} >>] ]

I == Instances[Inst]
S == I.s
Names == I.names
Prot == I.prot
Vols == I.vols

AbsentV == << -1 >>
NameSetX == {Names[i] : i \in 1 .. Len(Names)}

\* ---- the damage menu ---------------------------------------------------------------------
Flip(d, i) == [d EXCEPT ![i] = (d[i] + 1) % 3]
Ins(d, i, b) == SubSeq(d, 1, i) \o << b >> \o SubSeq(d, i + 1, Len(d))         \* i in 0..Len(d)
Del(d, i) == SubSeq(d, 1, i - 1) \o SubSeq(d, i + 1, Len(d))
PosOf(d) == IF Positions = "all" THEN 1 .. Len(d)
            ELSE {1, (Len(d) + 1) \div 2, Len(d)}
InsPosOf(d) == IF Positions = "all" THEN 0 .. Len(d) ELSE {0, Len(d) \div 2, Len(d)}
MenuOf(f) ==
  LET d == Prot[f] IN
  IF Positions = "obj"      \* the small menu of the object model (MC_Par2Object): one damage of each kind
  THEN {AbsentV, d, Flip(d, 1), SubSeq(d, 1, Len(d) - 1)} \cup {Prot[g] : g \in NameSetX \ {f}}
  ELSE IF Positions = "cyc" \* whole contents of the other files, intact or with the first slice corrupted
  THEN {AbsentV, d} \cup {Prot[g] : g \in NameSetX \ {f}} \cup {Flip(Prot[g], 1) : g \in NameSetX \ {f}}
  ELSE
     {AbsentV, d, << >>}
       \cup {Flip(d, i) : i \in PosOf(d)}
       \cup {Ins(d, i, b) : i \in InsPosOf(d), b \in {0, 2}}
       \cup {Del(d, i) : i \in PosOf(d)}
       \cup {SubSeq(d, 1, m) : m \in (PosOf(d) \ {Len(d)})}
       \cup {d \o << 0 >>, d \o << 2, 0 >>}
       \cup {Prot[g] : g \in NameSetX \ {f}}
Menu == [f \in NameSetX |-> MenuOf(f)]

=============================================================================
