---------------------------- MODULE Par1Archive ----------------------------
(***************************************************************************)
(* The PAR1 directory state machine (par1/decoder.go + reedsolomon with    *)
(* the PAR1 matrix).  Whole files are the shards, zero-padded to the       *)
(* longest; parity volume v is row v of [ i^(v-1) ], files i numbered from *)
(* 1, over GF(2^8)/0x11D.                                                  *)
(*                                                                         *)
(* State: the protected files (disk) and which parity volumes exist (vols).*)
(* The index file is present and intact here (damaged archives: C13/C19).  *)
(*                                                                         *)
(* ALGORITHM LAYER: VerifyFn, RepairFn (rows used: the present data files, *)
(*   then the lowest-numbered present volumes, as reedsolomon.Reconstruct).*)
(* TRUTH LAYER: a data file is usable iff present with its original bytes, *)
(*   a volume iff present; Singular by the determinant over GF(2^8).       *)
(***************************************************************************)
EXTENDS Integers, Sequences, FiniteSets, TLC

CONSTANTS Names,    \* sequence of file names in entry order (all saved in the parity set)
          Prot,     \* [name -> original bytes]
          NVols,    \* number of parity volumes created
          Menu      \* [name -> set of contents (or Absent)]

GF8 == INSTANCE GF WITH W <- 8, Poly <- 285, Gen <- 2, Reg <- 18
M8 == INSTANCE Matrix WITH MulOp <- GF8!FastMul, InvOp <- GF8!FastInv, AddOp <- GF8!Add

Absent == << -1 >>
NameSet == {Names[i] : i \in 1 .. Len(Names)}
VolIds == 1 .. NVols
IndexOf(f) == CHOOSE i \in 1 .. Len(Names) : Names[i] = f

VARIABLES disk, vols, last, act
vars == << disk, vols, last, act >>
View == << disk, vols >>
NoResult == [op |-> "none"]

MaxOf(Sx) == CHOOSE x \in Sx : \A y \in Sx : y <= x
MinOf(Sx) == CHOOSE x \in Sx : \A y \in Sx : x <= y
RECURSIVE SortedSeq(_)
SortedSeq(Sx) == IF Sx = {} THEN << >> ELSE LET m == MinOf(Sx) IN << m >> \o SortedSeq(Sx \ {m})

(************************* TRUTH LAYER *************************************)
Usable(d, f) == d[f] # Absent /\ d[f] = Prot[f]
BadSet(d) == {f \in NameSet : ~Usable(d, f)}
AllIntact(d) == BadSet(d) = {}

\* the k x k system: rows = the k lowest present volumes, columns = the bad files
\* entry = i^(v-1), i = entry number of the file (from 1)
ReconMatrix(vseq, iseq) ==
  [r \in 1 .. Len(vseq) |-> [c \in 1 .. Len(iseq) |-> GF8!FastPow(iseq[c], vseq[r] - 1)]]
SingularFor(vs, bad) ==
  LET k == Cardinality(bad)
  IN k > 0 /\ k <= Cardinality(vs) /\
     M8!Singular(ReconMatrix(SubSeq(SortedSeq(vs), 1, k), SortedSeq({IndexOf(f) : f \in bad})))

(************************* ALGORITHM LAYER *********************************)
VerifyFn(d, vs) ==
  [op |-> "verify", err |-> "",
   usable |-> Cardinality(NameSet \ BadSet(d)), unusable |-> Cardinality(BadSet(d)),
   pusable |-> Cardinality(vs),
   punusable |-> IF vs = {} THEN 1 ELSE MaxOf(vs) - Cardinality(vs),
   \* full parity check (option -a) is run only when nothing is unusable
   alldata |-> BadSet(d) = {} /\ vs # {} /\ MaxOf(vs) = Cardinality(vs)]

RECURSIVE FilterNames(_, _)
FilterNames(i, Sx) == IF i > Len(Names) THEN << >>
                      ELSE (IF Names[i] \in Sx THEN << Names[i] >> ELSE << >>) \o FilterNames(i + 1, Sx)

RepairFn(d, vs) ==
  LET bad == BadSet(d)
      k   == Cardinality(bad)
  IN IF k > Cardinality(vs) THEN [res |-> [op |-> "repair", err |-> "notenough", repaired |-> << >>], disk |-> d]
     ELSE IF SingularFor(vs, bad) THEN [res |-> [op |-> "repair", err |-> "singular", repaired |-> << >>], disk |-> d]
     ELSE [res |-> [op |-> "repair", err |-> "", repaired |-> FilterNames(1, bad)],
           disk |-> [f \in NameSet |-> Prot[f]]]

(************************* ACTIONS *****************************************)
Init == /\ disk = [f \in NameSet |-> Prot[f]]
        /\ vols = VolIds
        /\ last = NoResult
        /\ act = "create"

SetFile(f, v) == /\ v # disk[f]
                 /\ disk' = [disk EXCEPT ![f] = v]
                 /\ act' = IF v = Prot[f] THEN "restore" ELSE "damage"
                 /\ last' = NoResult
                 /\ UNCHANGED vols
DelVol(v) == v \in vols /\ vols' = vols \ {v} /\ act' = "delvol" /\ last' = NoResult /\ UNCHANGED disk
AddVol(v) == v \notin vols /\ vols' = vols \cup {v} /\ act' = "addvol" /\ last' = NoResult /\ UNCHANGED disk
Verify == last' = VerifyFn(disk, vols) /\ act' = "verify" /\ UNCHANGED << disk, vols >>
Repair(dc) == LET r == RepairFn(disk, vols) IN
              /\ last' = r.res /\ disk' = r.disk
              /\ act' = IF dc THEN "repairdc" ELSE "repair"
              /\ UNCHANGED vols

Next == \/ \E f \in NameSet : \E v \in Menu[f] : SetFile(f, v)
        \/ \E v \in VolIds : DelVol(v) \/ AddVol(v)
        \/ Verify
        \/ Repair(FALSE) \/ Repair(TRUE)
Spec == Init /\ [][Next]_vars

(************************* the properties **********************************)
IsRepair == act' \in {"repair", "repairdc"}
IsVerify == act' = "verify"

C04_CountsAreTruth ==
  IsVerify => /\ last'.usable = Cardinality({f \in NameSet : Usable(disk, f)})
              /\ last'.unusable = Cardinality(NameSet) - last'.usable
              /\ last'.pusable = Cardinality(vols)
C04_UntouchedIsClean ==
  (IsVerify /\ AllIntact(disk) /\ vols = VolIds) => (last'.unusable = 0 /\ last'.punusable = 0 /\ last'.alldata)
C04_WithinCapacity ==
  IsRepair => (Cardinality(BadSet(disk)) <= Cardinality(vols) =>
                 \/ (last'.err = "" /\ AllIntact(disk'))
                 \/ (last'.err = "singular" /\ SingularFor(vols, BadSet(disk))))
C04_OkMeansRestored == IsRepair => (last'.err = "" => AllIntact(disk'))

C02_WriteDiscipline ==
  \A f \in NameSet :
     (disk'[f] # disk[f] /\ act' \notin {"damage", "restore"}) =>
        /\ IsRepair /\ disk'[f] = Prot[f]
        /\ \E i \in 1 .. Len(last'.repaired) : last'.repaired[i] = f
C02_VolumesUntouched == (act' \notin {"delvol", "addvol"}) => vols' = vols

C14_SuccessIsFixpoint ==
  (IsRepair /\ last'.err = "") =>
     /\ VerifyFn(disk', vols').unusable = 0
     /\ RepairFn(disk', vols').res.repaired = << >>
     /\ RepairFn(disk', vols').disk = disk'
C14_FailureKeepsOrRestores ==
  (IsRepair /\ last'.err # "") => \A f \in NameSet : disk'[f] = disk[f] \/ disk'[f] = Prot[f]
C14_VerifyPure == IsVerify => disk' = disk /\ vols' = vols
=============================================================================
