// Package refpar1 is an independent PAR 1.0 tokenizer (observer) and reference writer, written
// from the PAR 1.0 specification.  It imports nothing from gopar.  The observer reports raw
// fields and digests of the byte ranges the format designates and compares nothing.
package refpar1

import (
	"crypto/md5"
	"encoding/binary"
	"unicode/utf16"

	"verif/harness/gfref"
)

// Header is the 96-byte PAR1 header, raw.
type Header struct {
	ID            [8]byte
	Version       uint64
	ControlHash   [16]byte
	SetHash       [16]byte
	VolumeNumber  uint64
	FileCount     uint64
	ListOffset    uint64
	ListSize      uint64
	DataOffset    uint64
	DataSize      uint64
	ControlActual [16]byte // md5 of bytes from 0x20 to the end of the file
}

// Entry is one file list entry, raw.
type Entry struct {
	EntryBytes uint64
	Status     uint64
	FileBytes  uint64
	Hash       [16]byte
	Hash16k    [16]byte
	NameUnits  []uint16 // UTF-16 code units as stored
	Name       string
}

// Volume is a tokenized PAR1 file.
type Volume struct {
	OK           bool // enough bytes for header and the declared entries
	Size         int
	Header       Header
	Entries      []Entry
	ListEnd      int      // offset after the last entry actually parsed
	Data         []byte   // bytes from ListEnd to the end of the file
	SetHashSaved [16]byte // md5 of the concatenated hashes of entries with status bit 0
}

// Tokenize parses a PAR1 file following its own length fields.
func Tokenize(b []byte) Volume {
	v := Volume{Size: len(b)}
	if len(b) < 96 {
		return v
	}
	h := &v.Header
	copy(h.ID[:], b[0:8])
	h.Version = binary.LittleEndian.Uint64(b[8:])
	copy(h.ControlHash[:], b[16:32])
	copy(h.SetHash[:], b[32:48])
	h.VolumeNumber = binary.LittleEndian.Uint64(b[48:])
	h.FileCount = binary.LittleEndian.Uint64(b[56:])
	h.ListOffset = binary.LittleEndian.Uint64(b[64:])
	h.ListSize = binary.LittleEndian.Uint64(b[72:])
	h.DataOffset = binary.LittleEndian.Uint64(b[80:])
	h.DataSize = binary.LittleEndian.Uint64(b[88:])
	h.ControlActual = md5.Sum(b[32:])
	off := 96
	var saved []byte
	ok := true
	for i := uint64(0); i < h.FileCount && i < 100000; i++ {
		if off+56 > len(b) {
			ok = false
			break
		}
		var e Entry
		e.EntryBytes = binary.LittleEndian.Uint64(b[off:])
		e.Status = binary.LittleEndian.Uint64(b[off+8:])
		e.FileBytes = binary.LittleEndian.Uint64(b[off+16:])
		copy(e.Hash[:], b[off+24:off+40])
		copy(e.Hash16k[:], b[off+40:off+56])
		if e.EntryBytes < 56 || e.EntryBytes > uint64(len(b)-off) {
			ok = false
			break
		}
		nb := b[off+56 : off+int(e.EntryBytes)]
		for k := 0; k+1 < len(nb); k += 2 {
			e.NameUnits = append(e.NameUnits, uint16(nb[k])|uint16(nb[k+1])<<8)
		}
		e.Name = string(utf16.Decode(e.NameUnits))
		if e.Status&1 != 0 {
			saved = append(saved, e.Hash[:]...)
		}
		v.Entries = append(v.Entries, e)
		off += int(e.EntryBytes)
	}
	v.OK = ok
	v.ListEnd = off
	v.Data = b[off:]
	v.SetHashSaved = md5.Sum(saved)
	return v
}

// ---------------------------------------------------------------------------------------
// reference writer
// ---------------------------------------------------------------------------------------

// FileSpec describes one file list entry for the writer.
type FileSpec struct {
	Name  string
	Data  []byte
	Saved bool // status bit 0: saved in the parity volume set
}

func hash16k(d []byte) [16]byte {
	if len(d) > 16384 {
		return md5.Sum(d[:16384])
	}
	return md5.Sum(d)
}

// BuildVolume writes volume number vol (0 = index, payload = comment) for the file list.
func BuildVolume(files []FileSpec, vol uint64, payload []byte) []byte {
	var list []byte
	var saved []byte
	for _, f := range files {
		units := utf16.Encode([]rune(f.Name))
		e := make([]byte, 56+2*len(units))
		binary.LittleEndian.PutUint64(e[0:], uint64(len(e)))
		st := uint64(0)
		if f.Saved {
			st = 1
		}
		binary.LittleEndian.PutUint64(e[8:], st)
		binary.LittleEndian.PutUint64(e[16:], uint64(len(f.Data)))
		h := md5.Sum(f.Data)
		copy(e[24:], h[:])
		h16 := hash16k(f.Data)
		copy(e[40:], h16[:])
		for i, u := range units {
			e[56+2*i] = byte(u)
			e[56+2*i+1] = byte(u >> 8)
		}
		list = append(list, e...)
		if f.Saved {
			saved = append(saved, h[:]...)
		}
	}
	out := make([]byte, 96, 96+len(list)+len(payload))
	copy(out[0:], []byte{'P', 'A', 'R', 0, 0, 0, 0, 0})
	binary.LittleEndian.PutUint64(out[8:], 0x00010000|uint64(0x0BAD)<<32) // version 1.0, generator id in the high half
	sh := md5.Sum(saved)
	copy(out[32:], sh[:])
	binary.LittleEndian.PutUint64(out[48:], vol)
	binary.LittleEndian.PutUint64(out[56:], uint64(len(files)))
	binary.LittleEndian.PutUint64(out[64:], 96)
	binary.LittleEndian.PutUint64(out[72:], uint64(len(list)))
	binary.LittleEndian.PutUint64(out[80:], uint64(96+len(list)))
	binary.LittleEndian.PutUint64(out[88:], uint64(len(payload)))
	out = append(out, list...)
	out = append(out, payload...)
	ch := md5.Sum(out[32:])
	copy(out[16:], ch[:])
	return out
}

// Parity computes parity volume v (from 1) over the saved files: sum_i i^(v-1) * file_i in
// GF(2^8)/0x11D, files numbered from 1 in list order, zero-padded to the longest.
func Parity(files []FileSpec, v int) []byte {
	maxLen := 0
	var saved []FileSpec
	for _, f := range files {
		if f.Saved {
			saved = append(saved, f)
			if len(f.Data) > maxLen {
				maxLen = len(f.Data)
			}
		}
	}
	out := make([]byte, maxLen)
	for i, f := range saved {
		c := gfref.Pow8(uint8(i+1), uint64(v-1))
		for k, x := range f.Data {
			out[k] ^= gfref.Mul8(c, x)
		}
	}
	return out
}
