// Package sandbox provides scratch directories and whole-tree snapshots.
package sandbox

import (
	"crypto/sha256"
	"encoding/hex"
	"io/ioutil"
	"os"
	"path/filepath"
	"sort"
	"syscall"
)

// Entry describes one path in a snapshot.
type Entry struct {
	Size   int64  `json:"size"`
	SHA    string `json:"sha"`
	Mode   uint32 `json:"mode"`
	MTime  int64  `json:"mtime"`
	Inode  uint64 `json:"ino"`
	IsDir  bool   `json:"dir"`
	IsLink bool   `json:"link,omitempty"`
}

// Snapshot maps relative paths to entries.
type Snapshot map[string]Entry

// Take snapshots every path under root (root itself is ".").
func Take(root string) (Snapshot, error) {
	snap := Snapshot{}
	err := filepath.Walk(root, func(p string, info os.FileInfo, err error) error {
		if err != nil {
			return err
		}
		rel, _ := filepath.Rel(root, p)
		e := Entry{Size: info.Size(), Mode: uint32(info.Mode()), MTime: info.ModTime().UnixNano(), IsDir: info.IsDir()}
		if st, ok := info.Sys().(*syscall.Stat_t); ok {
			e.Inode = st.Ino
		}
		if info.Mode()&os.ModeSymlink != 0 {
			e.IsLink = true
			t, _ := os.Readlink(p)
			e.SHA = "link:" + t
		} else if info.Mode().IsRegular() {
			b, err := ioutil.ReadFile(p)
			if err != nil {
				return err
			}
			h := sha256.Sum256(b)
			e.SHA = hex.EncodeToString(h[:])
		} else if info.IsDir() {
			e.Size = 0
		}
		snap[rel] = e
		return nil
	})
	return snap, err
}

// Diff returns the relative paths created, deleted, content-changed and touched-only
// (same bytes but different inode / mtime / mode) between two snapshots, each sorted.
func Diff(a, b Snapshot) (created, deleted, changed, touched []string) {
	for p, eb := range b {
		ea, ok := a[p]
		if !ok {
			created = append(created, p)
			continue
		}
		if ea.SHA != eb.SHA || ea.Size != eb.Size || ea.IsDir != eb.IsDir {
			changed = append(changed, p)
		} else if !ea.IsDir && (ea.MTime != eb.MTime || ea.Inode != eb.Inode || ea.Mode != eb.Mode) {
			touched = append(touched, p)
		} else if ea.IsDir && ea.Mode != eb.Mode {
			touched = append(touched, p)
		}
	}
	for p := range a {
		if _, ok := b[p]; !ok {
			deleted = append(deleted, p)
		}
	}
	sort.Strings(created)
	sort.Strings(deleted)
	sort.Strings(changed)
	sort.Strings(touched)
	return
}

// WriteFile writes data creating parent directories.
func WriteFile(path string, data []byte) error {
	if err := os.MkdirAll(filepath.Dir(path), 0755); err != nil {
		return err
	}
	return ioutil.WriteFile(path, data, 0644)
}

// Fresh removes and recreates dir.
func Fresh(dir string) error {
	os.RemoveAll(dir)
	return os.MkdirAll(dir, 0755)
}

// NonNil returns s or an empty slice (JSON [] rather than null).
func NonNil(s []string) []string {
	if s == nil {
		return []string{}
	}
	return s
}
