// Package gfref is an independent, definitional implementation of GF(2^16)/0x1100B and
// GF(2^8)/0x11D (shift, xor, reduce).  It imports nothing from gopar.  It is used by the
// reference writers (materialiser) and by nomination sweeps only; it never decides a verdict.
package gfref

const Poly16 = 0x1100B
const Poly8 = 0x11D

// Mul16 is the reduced carry-less product in GF(2^16)/0x1100B.
func Mul16(a, b uint16) uint16 {
	var acc uint32
	x := uint32(a)
	y := uint32(b)
	for y != 0 {
		if y&1 != 0 {
			acc ^= x
		}
		x <<= 1
		if x&0x10000 != 0 {
			x ^= Poly16
		}
		y >>= 1
	}
	return uint16(acc)
}

// Mul8 is the reduced carry-less product in GF(2^8)/0x11D.
func Mul8(a, b uint8) uint8 {
	var acc uint16
	x := uint16(a)
	y := uint16(b)
	for y != 0 {
		if y&1 != 0 {
			acc ^= x
		}
		x <<= 1
		if x&0x100 != 0 {
			x ^= Poly8
		}
		y >>= 1
	}
	return uint8(acc)
}

// Pow16 is a^n by square and multiply (0^0 = 1).
func Pow16(a uint16, n uint64) uint16 {
	r := uint16(1)
	for n != 0 {
		if n&1 != 0 {
			r = Mul16(r, a)
		}
		a = Mul16(a, a)
		n >>= 1
	}
	return r
}

// Pow8 is a^n in GF(2^8).
func Pow8(a uint8, n uint64) uint8 {
	r := uint8(1)
	for n != 0 {
		if n&1 != 0 {
			r = Mul8(r, a)
		}
		a = Mul8(a, a)
		n >>= 1
	}
	return r
}

// Inv16 is a^(2^16-2).
func Inv16(a uint16) uint16 { return Pow16(a, 65534) }

// Inv8 is a^(2^8-2).
func Inv8(a uint8) uint8 { return Pow8(a, 254) }

// Tables for speed, built from Mul16 with generator 2.
var exp16 [65535 * 2]uint16
var log16 [65536]int

func init() {
	x := uint16(1)
	for i := 0; i < 65535; i++ {
		exp16[i] = x
		exp16[i+65535] = x
		log16[x] = i
		x = Mul16(x, 2)
	}
}

// FMul16 is a table-based product equal to Mul16.
func FMul16(a, b uint16) uint16 {
	if a == 0 || b == 0 {
		return 0
	}
	return exp16[log16[a]+log16[b]]
}

// Exp2 returns 2^n in GF(2^16).
func Exp2(n int) uint16 { return exp16[n%65535] }

// Par2Const returns the PAR2 constant of input slice i (i from 0): 2^n for the i-th n >= 1 that
// is not divisible by 3, 5, 17 or 257.
func Par2Const(i int) uint16 {
	n := 0
	for k := -1; k < i; {
		n++
		if n%3 != 0 && n%5 != 0 && n%17 != 0 && n%257 != 0 {
			k++
		}
	}
	return Exp2(n)
}

// Par2Consts returns the first count constants.
func Par2Consts(count int) []uint16 {
	out := make([]uint16, 0, count)
	for n := 1; len(out) < count; n++ {
		if n%3 != 0 && n%5 != 0 && n%17 != 0 && n%257 != 0 {
			out = append(out, Exp2(n))
		}
	}
	return out
}
