package refpar2

import (
	"verif/harness/gfref"
)

// RecoveryBlock computes recovery block exp = sum_i slice_i * Const(i)^exp on little-endian
// 16-bit words with the independent field implementation (materialiser; its output is judged
// by Par2Format before it is used against gopar).
func RecoveryBlock(slices [][]byte, exp uint32) []byte {
	if len(slices) == 0 {
		return nil
	}
	n := len(slices[0])
	out := make([]byte, n)
	consts := gfref.Par2Consts(len(slices))
	for i, sl := range slices {
		c := gfref.Pow16(consts[i], uint64(exp))
		if c == 0 {
			continue
		}
		for w := 0; w+1 < n; w += 2 {
			x := uint16(sl[w]) | uint16(sl[w+1])<<8
			if x == 0 {
				continue
			}
			y := gfref.FMul16(c, x)
			out[w] ^= byte(y)
			out[w+1] ^= byte(y >> 8)
		}
	}
	return out
}
