// Package refpar2 is an independent PAR2 tokenizer (observer) and reference writer
// (materialiser) written from the PAR 2.0 specification.  It imports nothing from gopar.
//
// The observer reports raw fields and digests of the byte ranges the format designates; it
// compares nothing.  All comparisons are made by the TLA+ specification (Par2Format.tla).
package refpar2

import (
	"bytes"
	"crypto/md5"
	"encoding/binary"
	"encoding/hex"
	"hash/crc32"
	"sort"
)

var Magic = []byte{'P', 'A', 'R', '2', 0, 'P', 'K', 'T'}

func typ(s string) [16]byte {
	var t [16]byte
	copy(t[:], "PAR 2.0\x00"+s)
	return t
}

var (
	TypeMain     = typ("Main")
	TypeFileDesc = typ("FileDesc")
	TypeIFSC     = typ("IFSC")
	TypeRecv     = typ("RecvSlic")
	TypeCreator  = typ("Creator")
)

// Packet is one framed packet as found in a byte stream.
type Packet struct {
	Off      int      // offset of the packet in the file
	Len      uint64   // length field
	MagicOK  bool     // first 8 bytes are the magic
	Complete bool     // the file holds Len bytes from Off
	Hash     [16]byte // stored packet hash
	Computed [16]byte // md5 of bytes [Off+32, Off+Len)
	SetID    [16]byte
	Type     [16]byte
	Body     []byte
}

// HashOK reports whether the stored hash equals the computed one.
func (p Packet) HashOK() bool { return p.Complete && p.Hash == p.Computed }

// TypeName returns a short name for the packet type.
func (p Packet) TypeName() string {
	switch p.Type {
	case TypeMain:
		return "main"
	case TypeFileDesc:
		return "filedesc"
	case TypeIFSC:
		return "ifsc"
	case TypeRecv:
		return "recv"
	case TypeCreator:
		return "creator"
	}
	return "unknown:" + hex.EncodeToString(p.Type[:])
}

// Tokenize splits data into packets following the length fields.  It stops at the first
// position where no well-framed packet starts (Rest = offset where it stopped).
func Tokenize(data []byte) (pkts []Packet, rest int) {
	off := 0
	for off+64 <= len(data) {
		var p Packet
		p.Off = off
		p.MagicOK = bytes.Equal(data[off:off+8], Magic)
		p.Len = binary.LittleEndian.Uint64(data[off+8:])
		copy(p.Hash[:], data[off+16:off+32])
		copy(p.SetID[:], data[off+32:off+48])
		copy(p.Type[:], data[off+48:off+64])
		if !p.MagicOK || p.Len < 64 || p.Len%4 != 0 || p.Len > uint64(len(data)-off) {
			p.Complete = false
			pkts = append(pkts, p)
			return pkts, off
		}
		p.Complete = true
		end := off + int(p.Len)
		p.Computed = md5.Sum(data[off+32 : end])
		p.Body = data[off+64 : end]
		pkts = append(pkts, p)
		off = end
	}
	return pkts, off
}

// Main is a parsed main packet body.
type Main struct {
	SliceSize uint64
	NumRecv   uint32
	IDs       [][16]byte // recovery set then non-recovery set
	BodyMD5   [16]byte   // md5 of the body = the recovery set id per the specification
}

// ParseMain parses a main packet body (no validation beyond sizes).
func ParseMain(body []byte) (m Main, ok bool) {
	if len(body) < 12 || (len(body)-12)%16 != 0 {
		return m, false
	}
	m.SliceSize = binary.LittleEndian.Uint64(body)
	m.NumRecv = binary.LittleEndian.Uint32(body[8:])
	for o := 12; o < len(body); o += 16 {
		var id [16]byte
		copy(id[:], body[o:o+16])
		m.IDs = append(m.IDs, id)
	}
	m.BodyMD5 = md5.Sum(body)
	return m, true
}

// FileDesc is a parsed file description packet body.
type FileDesc struct {
	ID       [16]byte
	Hash     [16]byte
	Hash16k  [16]byte
	Length   uint64
	NameRaw  []byte   // as stored (padded with 0..3 NULs)
	Name     string   // NULs trimmed
	Computed [16]byte // md5(Hash16k || Length LE || name without padding)
}

// ParseFileDesc parses a file description body.
func ParseFileDesc(body []byte) (f FileDesc, ok bool) {
	if len(body) < 56 {
		return f, false
	}
	copy(f.ID[:], body[0:16])
	copy(f.Hash[:], body[16:32])
	copy(f.Hash16k[:], body[32:48])
	f.Length = binary.LittleEndian.Uint64(body[48:])
	f.NameRaw = body[56:]
	name := f.NameRaw
	if i := bytes.IndexByte(name, 0); i >= 0 {
		name = name[:i]
	}
	f.Name = string(name)
	h := md5.New()
	h.Write(f.Hash16k[:])
	h.Write(body[48:56])
	h.Write(name)
	copy(f.Computed[:], h.Sum(nil))
	return f, true
}

// Pair is one slice checksum pair.
type Pair struct {
	MD5 [16]byte
	CRC uint32
}

// ParseIFSC parses an IFSC body.
func ParseIFSC(body []byte) (id [16]byte, pairs []Pair, ok bool) {
	if len(body) < 16 || (len(body)-16)%20 != 0 {
		return id, nil, false
	}
	copy(id[:], body[:16])
	for o := 16; o < len(body); o += 20 {
		var p Pair
		copy(p.MD5[:], body[o:o+16])
		p.CRC = binary.LittleEndian.Uint32(body[o+16:])
		pairs = append(pairs, p)
	}
	return id, pairs, true
}

// ParseRecv parses a recovery slice body.
func ParseRecv(body []byte) (exp uint32, data []byte, ok bool) {
	if len(body) < 4 {
		return 0, nil, false
	}
	return binary.LittleEndian.Uint32(body), body[4:], true
}

// IDLess is the specification's order of file ids: as little-endian 128-bit integers.
func IDLess(a, b [16]byte) bool {
	for i := 15; i >= 0; i-- {
		if a[i] != b[i] {
			return a[i] < b[i]
		}
	}
	return false
}

// ---------------------------------------------------------------------------------------
// facts about input files, computed with the Go standard library
// ---------------------------------------------------------------------------------------

// Hash16k is the MD5 of the first 16 KiB.
func Hash16k(data []byte) [16]byte {
	if len(data) > 16384 {
		return md5.Sum(data[:16384])
	}
	return md5.Sum(data)
}

// FileID computes the file id of a file.
func FileID(data []byte, name string) [16]byte {
	h16 := Hash16k(data)
	var l [8]byte
	binary.LittleEndian.PutUint64(l[:], uint64(len(data)))
	h := md5.New()
	h.Write(h16[:])
	h.Write(l[:])
	h.Write([]byte(name))
	var id [16]byte
	copy(id[:], h.Sum(nil))
	return id
}

// PadSlice returns slice k of data zero-padded to size s.
func PadSlice(data []byte, k, s int) []byte {
	out := make([]byte, s)
	lo := k * s
	hi := lo + s
	if hi > len(data) {
		hi = len(data)
	}
	if lo < hi {
		copy(out, data[lo:hi])
	}
	return out
}

// NumSlices is ceil(len/s).
func NumSlices(n, s int) int { return (n + s - 1) / s }

// SlicePairs returns the checksum pairs of the slices of data.
func SlicePairs(data []byte, s int) []Pair {
	var out []Pair
	for k := 0; k < NumSlices(len(data), s); k++ {
		sl := PadSlice(data, k, s)
		out = append(out, Pair{md5.Sum(sl), crc32.ChecksumIEEE(sl)})
	}
	return out
}

// ---------------------------------------------------------------------------------------
// reference writer
// ---------------------------------------------------------------------------------------

// Frame builds one packet: header + body (body must already be a multiple of 4 long).
func Frame(setID [16]byte, t [16]byte, body []byte) []byte {
	out := make([]byte, 64+len(body))
	copy(out, Magic)
	binary.LittleEndian.PutUint64(out[8:], uint64(64+len(body)))
	copy(out[32:], setID[:])
	copy(out[48:], t[:])
	copy(out[64:], body)
	h := md5.Sum(out[32:])
	copy(out[16:], h[:])
	return out
}

func pad4(b []byte) []byte {
	for len(b)%4 != 0 {
		b = append(b, 0)
	}
	return b
}

// InFile is one protected file for the reference writer.
type InFile struct {
	Name string
	Data []byte
}

// Set holds everything needed to emit packets of one recovery set.
type Set struct {
	SliceSize int
	Files     []InFile // sorted by file id
	IDs       [][16]byte
	SetID     [16]byte
	MainBody  []byte
	NRFiles   []InFile // non-recovery set (sorted by file id); empty for ordinary sets
	NRIDs     [][16]byte
}

// NewSet computes ids, sorts the files by id and derives the set id.
func NewSet(files []InFile, sliceSize int) *Set {
	s := &Set{SliceSize: sliceSize}
	type fi struct {
		f  InFile
		id [16]byte
	}
	var fis []fi
	for _, f := range files {
		fis = append(fis, fi{f, FileID(f.Data, f.Name)})
	}
	sort.Slice(fis, func(i, j int) bool { return IDLess(fis[i].id, fis[j].id) })
	for _, x := range fis {
		s.Files = append(s.Files, x.f)
		s.IDs = append(s.IDs, x.id)
	}
	body := make([]byte, 12)
	binary.LittleEndian.PutUint64(body, uint64(sliceSize))
	binary.LittleEndian.PutUint32(body[8:], uint32(len(s.IDs)))
	for _, id := range s.IDs {
		body = append(body, id[:]...)
	}
	s.MainBody = body
	s.SetID = md5.Sum(body)
	return s
}

// WithNonRecovery returns a copy of the set whose main packet also lists the given files in the NON-recovery set
// (their checksums are recorded, they are not protected): the main packet body, and with it the recovery-set id,
// change; the recovery-set files and their slices do not.
func (s *Set) WithNonRecovery(nr []InFile) *Set {
	t := &Set{SliceSize: s.SliceSize, Files: s.Files, IDs: s.IDs}
	type fi struct {
		f  InFile
		id [16]byte
	}
	var fis []fi
	for _, f := range nr {
		fis = append(fis, fi{f, FileID(f.Data, f.Name)})
	}
	sort.Slice(fis, func(i, j int) bool { return IDLess(fis[i].id, fis[j].id) })
	for _, x := range fis {
		t.NRFiles = append(t.NRFiles, x.f)
		t.NRIDs = append(t.NRIDs, x.id)
	}
	body := make([]byte, 12)
	binary.LittleEndian.PutUint64(body, uint64(s.SliceSize))
	binary.LittleEndian.PutUint32(body[8:], uint32(len(t.IDs)))
	for _, id := range t.IDs {
		body = append(body, id[:]...)
	}
	for _, id := range t.NRIDs {
		body = append(body, id[:]...)
	}
	t.MainBody = body
	t.SetID = md5.Sum(body)
	return t
}

// NRFileDescPacket / NRIFSCPacket: the packets of non-recovery file i.
func (s *Set) NRFileDescPacket(i int) []byte {
	u := &Set{SliceSize: s.SliceSize, Files: s.NRFiles, IDs: s.NRIDs, SetID: s.SetID}
	return u.FileDescPacket(i)
}

func (s *Set) NRIFSCPacket(i int) []byte {
	u := &Set{SliceSize: s.SliceSize, Files: s.NRFiles, IDs: s.NRIDs, SetID: s.SetID}
	return u.IFSCPacket(i)
}

// MainPacket returns the framed main packet.
func (s *Set) MainPacket() []byte { return Frame(s.SetID, TypeMain, s.MainBody) }

// CreatorPacket returns a framed creator packet.
func (s *Set) CreatorPacket(client string) []byte {
	return Frame(s.SetID, TypeCreator, pad4([]byte(client)))
}

// FileDescPacket returns the framed file description packet of file i.
func (s *Set) FileDescPacket(i int) []byte {
	f := s.Files[i]
	body := make([]byte, 0, 56+len(f.Name)+3)
	body = append(body, s.IDs[i][:]...)
	h := md5.Sum(f.Data)
	body = append(body, h[:]...)
	h16 := Hash16k(f.Data)
	body = append(body, h16[:]...)
	var l [8]byte
	binary.LittleEndian.PutUint64(l[:], uint64(len(f.Data)))
	body = append(body, l[:]...)
	body = append(body, []byte(f.Name)...)
	return Frame(s.SetID, TypeFileDesc, pad4(body))
}

// IFSCPacket returns the framed IFSC packet of file i.
func (s *Set) IFSCPacket(i int) []byte {
	body := append([]byte{}, s.IDs[i][:]...)
	for _, p := range SlicePairs(s.Files[i].Data, s.SliceSize) {
		body = append(body, p.MD5[:]...)
		var c [4]byte
		binary.LittleEndian.PutUint32(c[:], p.CRC)
		body = append(body, c[:]...)
	}
	return Frame(s.SetID, TypeIFSC, body)
}

// AllSlices returns the padded input slices in recovery-set order.
func (s *Set) AllSlices() [][]byte {
	var out [][]byte
	for _, f := range s.Files {
		for k := 0; k < NumSlices(len(f.Data), s.SliceSize); k++ {
			out = append(out, PadSlice(f.Data, k, s.SliceSize))
		}
	}
	return out
}

// RecvPacketWithData frames a recovery packet with the given data.
func (s *Set) RecvPacketWithData(exp uint32, data []byte) []byte {
	body := make([]byte, 4, 4+len(data))
	binary.LittleEndian.PutUint32(body, exp)
	body = append(body, data...)
	return Frame(s.SetID, TypeRecv, body)
}

// ScanPackets finds every intact packet (magic, plausible length, matching hash) at any byte
// offset, as a robust reader would after damage.
func ScanPackets(data []byte) []Packet {
	var out []Packet
	for off := 0; off+64 <= len(data); off++ {
		if data[off] != 'P' || !bytes.Equal(data[off:off+8], Magic) {
			continue
		}
		l := binary.LittleEndian.Uint64(data[off+8:])
		if l < 64 || l%4 != 0 || l > uint64(len(data)-off) {
			continue
		}
		end := off + int(l)
		var p Packet
		p.Off, p.Len, p.MagicOK, p.Complete = off, l, true, true
		copy(p.Hash[:], data[off+16:off+32])
		copy(p.SetID[:], data[off+32:off+48])
		copy(p.Type[:], data[off+48:off+64])
		p.Computed = md5.Sum(data[off+32 : end])
		if p.Hash != p.Computed {
			continue
		}
		p.Body = data[off+64 : end]
		out = append(out, p)
		off = end - 1
	}
	return out
}
