// Package tracelog writes ndjson event traces.
package tracelog

import (
	"bufio"
	"encoding/json"
	"os"
	"sync"
)

// Log is an ndjson writer safe for concurrent use.
type Log struct {
	mu sync.Mutex
	f  *os.File
	w  *bufio.Writer
	N  int
}

// Create opens path for writing.
func Create(path string) (*Log, error) {
	f, err := os.Create(path)
	if err != nil {
		return nil, err
	}
	return &Log{f: f, w: bufio.NewWriterSize(f, 1<<20)}, nil
}

// Emit writes one event.
func (l *Log) Emit(v interface{}) {
	b, err := json.Marshal(v)
	if err != nil {
		panic(err)
	}
	l.mu.Lock()
	l.w.Write(b)
	l.w.WriteByte('\n')
	l.N++
	l.mu.Unlock()
}

// Close flushes and closes the log.
func (l *Log) Close() error {
	l.mu.Lock()
	defer l.mu.Unlock()
	if err := l.w.Flush(); err != nil {
		return err
	}
	return l.f.Close()
}

// M is a convenient event type.
type M map[string]interface{}

// Wrap builds a Log on an already open file.
func Wrap(f *os.File) *Log {
	return &Log{f: f, w: bufio.NewWriterSize(f, 1<<16)}
}

// Flush writes buffered events to the file.
func (l *Log) Flush() {
	l.mu.Lock()
	l.w.Flush()
	l.mu.Unlock()
}
