module verif/harness

go 1.21

require (
	github.com/akalin/gopar v0.0.0
	github.com/klauspost/cpuid/v2 v2.0.2
	github.com/klauspost/reedsolomon v1.9.11
)

replace github.com/akalin/gopar => /repo
