module verif/harness

go 1.21

require github.com/akalin/gopar v0.0.0

require github.com/klauspost/cpuid/v2 v2.0.2 // indirect

replace github.com/akalin/gopar => /repo
