package main

import (
	"bufio"
	"bytes"
	"encoding/json"
	"fmt"
	"hash/crc32"
	"math/rand"
	"os"
	"path/filepath"
	"sort"

	"verif/harness/sandbox"
	"verif/harness/tracelog"
)

func init() {
	register("c16a", "run TLC-enumerated edit cases (insert/delete at every position) on the real par2.Verify/Repair", runC16A)
	register("c16b", "seeded edits on random content for many slice sizes, with exactly as many recovery blocks as touched slices", runC16B)
}

type c16Case struct {
	S      int    `json:"s"`
	Orig   []int  `json:"orig"`
	Edited []int  `json:"edited"`
	Kind   string `json:"kind"`
	Pos    int    `json:"pos"`
	Len    int    `json:"len"`
	NSurv  int    `json:"nsurv"`
	NFound int    `json:"nfound"`
	N      int    `json:"n"`
}

func volSets(a *arch) ([][]int, []int) {
	var sets [][]int
	var ids []int
	for i, v := range a.VolFiles {
		sets = append(sets, a.VolExps[v])
		ids = append(ids, i+1)
	}
	if sets == nil {
		sets = [][]int{}
		ids = []int{}
	}
	return sets, ids
}

func runC16A(args []string) error {
	c := newCommon("c16a")
	c.fs.Parse(args)
	f, err := os.Open(c.in)
	if err != nil {
		return err
	}
	defer f.Close()
	lg, err := tracelog.Create(c.out)
	if err != nil {
		return err
	}
	defer lg.Close()
	cache := map[string]*arch{}
	work := filepath.Join(c.dir, "c16a")
	sc := bufio.NewScanner(f)
	sc.Buffer(make([]byte, 1<<20), 1<<24)
	ci := 0
	for sc.Scan() {
		var cs c16Case
		if err := json.Unmarshal(sc.Bytes(), &cs); err != nil {
			return err
		}
		ci++
		k := cs.N - cs.NSurv // recovery blocks granted: exactly the non-surviving slices
		r := k
		if r == 0 {
			r = 1
		}
		orig := intsToBytes(cs.Orig)
		key := fmt.Sprintf("%v/%d/%d", cs.Orig, cs.S, r)
		a := cache[key]
		if a == nil {
			if len(cache) > 4000 {
				cache = map[string]*arch{}
			}
			a, err = buildArch(filepath.Join(c.dir, "c16a-pristine"), []string{"a"}, map[string][]byte{"a": orig}, cs.S, r, 1+ci%3, "e")
			if err != nil {
				return err
			}
			cache[key] = a
		}
		sets, ids := volSets(a)
		vols := a.VolFiles
		if k == 0 {
			vols, ids = nil, []int{}
		}
		pre := map[string][]byte{"a": intsToBytes(cs.Edited)}
		if pre["a"] == nil {
			pre["a"] = []byte{}
		}
		ps := &protSet{S: cs.S, Order: []string{"a"}, Data: map[string][]byte{"a": orig}}
		tr := computeTruth(ps, pre)
		index := filepath.Join(work, a.Index)
		g := 1 + ci%4
		for _, op := range []string{"verify", "repair"} {
			if err := a.materialise(work, pre, vols); err != nil {
				return err
			}
			before, _ := sandbox.Take(work)
			lio := newLogIO()
			ev := tracelog.M{"ev": "op", "op": op, "g": g, "hook": true, "s": cs.S, "names": []string{"a"}, "prot": map[string][]int{"a": cs.Orig},
				"vols": sets, "pre": map[string][]int{"a": cs.Edited}, "prevols": ids, "obs": tracelog.M{"nsurv": tr.NSurv, "nocc": tr.NOcc},
				"case": tracelog.M{"kind": cs.Kind, "pos": cs.Pos, "len": cs.Len, "blocks": k}}
			aft := tracelog.M{"verify": tracelog.M{"err": "", "needed": false, "unusable": 0},
				"repair": tracelog.M{"err": "", "repaired": []string{}, "writes": []string{}, "outside": []string{}}}
			if op == "verify" {
				vo := runVerify(index, g, true, lio)
				ev["res"] = tracelog.M{"err": vo.Err, "errtext": vo.ErrText + vo.Panic, "usable": vo.Usable, "unusable": vo.Unusable,
					"pusable": vo.PUsable, "punusable": vo.PUnusable, "needed": vo.Needed, "possible": vo.Possible, "repaired": []string{}}
				pu := 0
				ev["model"] = tracelog.M{"err": "", "usable": cs.NFound, "unusable": cs.N - cs.NFound, "pusable": len(flatten(sets, ids)), "punusable": pu,
					"repaired": []string{}, "post": map[string][]int{"a": cs.Edited}}
			} else {
				ro := runRepair(index, g, ci%2 == 0, true, lio)
				ev["res"] = tracelog.M{"err": ro.Err, "errtext": ro.ErrText + ro.Panic, "repaired": ro.Repaired,
					"usable": 0, "unusable": 0, "pusable": 0, "punusable": 0, "needed": false, "possible": false}
				rep := []string{}
				if !bytes.Equal(pre["a"], orig) {
					rep = []string{"a"}
				}
				ev["model"] = tracelog.M{"err": "", "usable": 0, "unusable": 0, "pusable": 0, "punusable": 0, "repaired": rep,
					"post": map[string][]int{"a": cs.Orig}}
			}
			after, _ := sandbox.Take(work)
			d := a.diffOp(work, before, after, lio)
			ev["post"] = diskToJSON(a.readDisk(work))
			ev["postvols"] = ids
			ev["writes"], ev["outside"] = d.Writes, d.Outside
			ev["after"] = aft
			lg.Emit(ev)
		}
	}
	return sc.Err()
}

func flatten(sets [][]int, ids []int) []int {
	var out []int
	for _, id := range ids {
		out = append(out, sets[id-1]...)
	}
	return out
}

// runC16B: random content (so that spurious matches do not occur and Survivors = untouched slices),
// every residue of the file length modulo the slice size, edit positions across the file, edit
// lengths 1..S+3, a second file to which content is moved; Repair gets exactly as many recovery
// blocks as slices that do not survive.
func runC16B(args []string) error {
	c := newCommon("c16b")
	c.fs.Parse(args)
	lg, err := tracelog.Create(c.out)
	if err != nil {
		return err
	}
	defer lg.Close()
	rng := rand.New(rand.NewSource(c.seed*31337 + 5))
	thorough := c.tier == "thorough"
	ss := []int{4, 8, 12, 16, 20, 64, 100, 2000}
	// every slice size that is a multiple of 4 up to 320 (and a seeded few above), with a light load each
	light := map[int]bool{}
	for s := 24; s <= 320; s += 4 {
		if s != 64 && s != 100 {
			ss = append(ss, s)
			light[s] = true
		}
	}
	for k := 0; k < 4; k++ {
		s := 4 * (81 + rng.Intn(400))
		ss = append(ss, s)
		light[s] = true
	}
	// large slice sizes (the rolling-checksum window tables are built differently above a few KiB)
	for _, s := range []int{4092, 4096, 4100, 16384, 65536} {
		ss = append(ss, s)
		light[s] = true
	}
	idx := 0
	for _, s := range ss {
		residues := []int{}
		for r := 0; r < s; r++ {
			residues = append(residues, r)
		}
		if light[s] {
			residues = []int{rng.Intn(s), 0}
			if thorough {
				residues = append(residues, s-1, rng.Intn(s))
			}
		} else if len(residues) > 12 && !thorough {
			rng.Shuffle(len(residues), func(i, j int) { residues[i], residues[j] = residues[j], residues[i] })
			residues = append(residues[:10], 0, s-1)
		} else if len(residues) > 64 {
			rng.Shuffle(len(residues), func(i, j int) { residues[i], residues[j] = residues[j], residues[i] })
			residues = append(residues[:62], 0, s-1)
		}
		for _, res := range residues {
			n := 3*s + res
			orig := make([]byte, n)
			rng.Read(orig)
			other := make([]byte, 2*s+1+rng.Intn(s))
			rng.Read(other)
			names := []string{"main.bin", "other.bin"}
			prot := map[string][]byte{"main.bin": orig, "other.bin": other}
			// edit positions: all for small s, sampled otherwise
			var positions []int
			if light[s] {
				positions = []int{0, s + 1, 2*s - 1, n - 1, rng.Intn(n + 1)}
			} else if n <= 80 || thorough && n <= 400 {
				for p := 0; p <= n; p++ {
					positions = append(positions, p)
				}
			} else {
				positions = []int{0, 1, s - 1, s, s + 1, 2*s - 1, 2 * s, 3*s - 1, 3 * s, n - 1, n}
				for k := 0; k < 6; k++ {
					positions = append(positions, rng.Intn(n+1))
				}
			}
			nedit := 2
			if thorough {
				nedit = 5
			}
			for _, p := range positions {
				for e := 0; e < nedit; e++ {
					l := 1 + rng.Intn(s+3)
					if e == 0 {
						l = []int{1, s - 1, s, s + 1, s + 3}[rng.Intn(5)]
						if l < 1 {
							l = 1
						}
					}
					disk := map[string][]byte{"main.bin": orig, "other.bin": other}
					var desc string
					switch rng.Intn(5) {
					case 0, 1: // insert
						ins := make([]byte, l)
						rng.Read(ins)
						disk["main.bin"] = append(append(append([]byte{}, orig[:p]...), ins...), orig[p:]...)
						desc = fmt.Sprintf("insert@%d+%d", p, l)
					case 2, 3: // delete
						if p+l > n {
							l = n - p
						}
						if l <= 0 {
							continue
						}
						disk["main.bin"] = append(append([]byte{}, orig[:p]...), orig[p+l:]...)
						desc = fmt.Sprintf("delete@%d+%d", p, l)
					case 4: // content turns up under the other name, the original place is lost
						disk["other.bin"] = append([]byte{}, orig...)
						disk["main.bin"] = nil
						desc = "moved to other name"
					}
					if idx%4 == 1 && disk["main.bin"] != nil {
						// a second file edited in the same state: an insertion inside the other file's last FULL slice,
						// so that its short final slice survives, displaced, at the new end of file
						q := s + rng.Intn(s)
						ins := []byte{byte(rng.Intn(256)), byte(rng.Intn(256))}
						disk["other.bin"] = append(append(append([]byte{}, other[:q]...), ins...), other[q:]...)
						desc += fmt.Sprintf(" + other insert@%d+2", q)
					}
					idx++
					if err := c16bCase(c, lg, idx, names, prot, disk, s, desc, rng); err != nil {
						return err
					}
				}
			}
		}
	}
	// slices with special CRC-32 values: the first survivor behind the edit has CRC-32 0, and two different slices share
	// one CRC-32 (forged: for every prefix exactly one four-byte suffix gives a wanted CRC-32)
	for _, s := range []int{8, 64, 4092} {
		orig := make([]byte, 4*s+s/2)
		rng.Read(orig)
		if !forgeCRC32(orig[2*s:3*s], 0) || !forgeCRC32(orig[3*s:4*s], crc32.ChecksumIEEE(orig[0:s])) {
			return fmt.Errorf("c16b: could not forge the checksums")
		}
		other := make([]byte, 2*s+3)
		rng.Read(other)
		names := []string{"main.bin", "other.bin"}
		prot := map[string][]byte{"main.bin": orig, "other.bin": other}
		for _, p := range []int{s + 1, 2*s - 1} {
			for _, del := range []bool{false, true} {
				disk := map[string][]byte{"other.bin": other}
				desc := fmt.Sprintf("crc0 insert@%d+1", p)
				if del {
					disk["main.bin"] = append(append([]byte{}, orig[:p]...), orig[p+1:]...)
					desc = fmt.Sprintf("crc0 delete@%d+1", p)
				} else {
					disk["main.bin"] = append(append(append([]byte{}, orig[:p]...), 0x5A), orig[p:]...)
				}
				idx++
				if err := c16bCase(c, lg, idx, names, prot, disk, s, desc, rng); err != nil {
					return err
				}
			}
		}
	}
	return nil
}

func c16bCase(c *common, lg *tracelog.Log, idx int, names []string, prot, disk map[string][]byte, s int, desc string, rng *rand.Rand) error {
	dir := filepath.Join(c.dir, "c16b")
	// order: both possible orders give the same truth counts; take gopar's
	probe, err := buildArch(dir, names, prot, s, 1, 1, "arch")
	if err != nil {
		return err
	}
	ps := &protSet{S: s, Order: probe.Order, Data: prot}
	tr := computeTruth(ps, disk)
	k := tr.N - tr.NSurv
	a := probe
	if k > 1 {
		a, err = buildArch(dir, names, prot, s, k, 1+idx%3, "arch")
		if err != nil {
			return err
		}
	}
	vols := a.VolFiles
	if k == 0 {
		vols = nil
	}
	if err := a.materialise(dir, disk, vols); err != nil {
		return err
	}
	exps := []int{}
	for _, v := range vols {
		exps = append(exps, a.VolExps[v]...)
	}
	sort.Ints(exps)
	missingSure := []int{}
	amb := 0
	for g := 0; g < tr.N; g++ {
		if !tr.Occ[g] {
			missingSure = append(missingSure, g)
		} else if !tr.Surv[g] {
			amb++
		}
	}
	intact := true
	for _, n := range names {
		if disk[n] == nil || !bytes.Equal(disk[n], prot[n]) {
			intact = false
		}
	}
	g := []int{1, 2, 5}[idx%3]
	index := filepath.Join(dir, a.Index)
	base := tracelog.M{"ev": "bigop", "scn": idx, "desc": fmt.Sprintf("S=%d len=%d %s", s, len(prot["main.bin"]), desc), "damage": []string{desc},
		"volloss": "exact", "s": s, "r": k, "g": g, "n": tr.N, "nsurv": tr.NSurv, "nocc": tr.NOcc, "intact": intact, "exps": exps,
		"missing_sure": missingSure, "nmissing_sure": tr.N - tr.NOcc, "ambiguous": amb}
	noAfter := tracelog.M{"verify": tracelog.M{"err": "", "needed": false, "unusable": 0},
		"repair": tracelog.M{"err": "", "repaired": []string{}, "writes": []string{}, "outside": []string{}}}
	emit := func(op string, extra tracelog.M) {
		ev := tracelog.M{}
		for k, v := range base {
			ev[k] = v
		}
		ev["op"] = op
		for k, v := range extra {
			ev[k] = v
		}
		lg.Emit(ev)
	}
	vo := runVerify(index, g, false, nil)
	emit("verify", tracelog.M{"res": tracelog.M{"err": vo.Err, "errtext": vo.ErrText + vo.Panic, "usable": vo.Usable, "unusable": vo.Unusable,
		"pusable": vo.PUsable, "punusable": vo.PUnusable, "needed": vo.Needed, "possible": vo.Possible, "repaired": []string{}},
		"writes": []string{}, "outside": []string{}, "restored": intact, "changed_ok": true, "listed_ok": true, "kept_or_restored": true, "stale": false, "after": noAfter})
	ro := runRepair(index, g, idx%2 == 0, false, nil)
	post := a.readDisk(dir)
	restored := true
	for _, n := range names {
		if post[n] == nil || !bytes.Equal(post[n], prot[n]) {
			restored = false
		}
	}
	emit("repair", tracelog.M{"res": tracelog.M{"err": ro.Err, "errtext": ro.ErrText + ro.Panic, "repaired": ro.Repaired,
		"usable": 0, "unusable": 0, "pusable": 0, "punusable": 0, "needed": false, "possible": false},
		"writes": []string{}, "outside": []string{}, "restored": restored, "changed_ok": true, "listed_ok": true, "kept_or_restored": true, "stale": false, "after": noAfter})
	return nil
}
