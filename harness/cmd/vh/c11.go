package main

import (
	"fmt"
	"math/rand"
	"runtime"

	"github.com/akalin/gopar/gf2p16"

	"verif/harness/gfref"
	"verif/harness/tracelog"
)

func init() {
	register("c11", "drive gf2p16.Matrix Inverse / RowReduceForInverse / Times on structured and random matrices", runC11)
}

type mat [][]uint16

func newMat(r, c int) mat {
	m := make(mat, r)
	for i := range m {
		m[i] = make([]uint16, c)
	}
	return m
}

func (m mat) toGopar() gf2p16.Matrix {
	r, c := len(m), len(m[0])
	el := make([]gf2p16.T, 0, r*c)
	for i := range m {
		for j := range m[i] {
			el = append(el, gf2p16.T(m[i][j]))
		}
	}
	return gf2p16.NewMatrixFromSlice(r, c, el)
}

func fromGopar(g gf2p16.Matrix, r, c int) mat {
	m := newMat(r, c)
	for i := 0; i < r; i++ {
		for j := 0; j < c; j++ {
			m[i][j] = uint16(g.At(i, j))
		}
	}
	return m
}

func (m mat) equal(o mat) bool {
	if len(m) != len(o) {
		return false
	}
	for i := range m {
		for j := range m[i] {
			if m[i][j] != o[i][j] {
				return false
			}
		}
	}
	return true
}

func (m mat) ints() [][]int {
	out := make([][]int, len(m))
	for i := range m {
		out[i] = make([]int, len(m[i]))
		for j := range m[i] {
			out[i][j] = int(m[i][j])
		}
	}
	return out
}

func refTimes(a, b mat) mat {
	out := newMat(len(a), len(b[0]))
	for i := range a {
		for k := range b {
			if a[i][k] == 0 {
				continue
			}
			for j := range b[k] {
				out[i][j] ^= gfref.FMul16(a[i][k], b[k][j])
			}
		}
	}
	return out
}

// nullVector returns a non-zero v with m*v = 0 if one exists (untrusted certificate; TLC checks it).
func nullVector(m mat) []int {
	n := len(m)
	a := newMat(n, n)
	for i := range m {
		copy(a[i], m[i])
	}
	pivCol := make([]int, 0, n)
	row := 0
	isPiv := make([]bool, n)
	for col := 0; col < n && row < n; col++ {
		p := -1
		for r := row; r < n; r++ {
			if a[r][col] != 0 {
				p = r
				break
			}
		}
		if p < 0 {
			continue
		}
		a[row], a[p] = a[p], a[row]
		inv := gfref.Inv16(a[row][col])
		for j := range a[row] {
			a[row][j] = gfref.FMul16(a[row][j], inv)
		}
		for r := 0; r < n; r++ {
			if r != row && a[r][col] != 0 {
				f := a[r][col]
				for j := range a[r] {
					a[r][j] ^= gfref.FMul16(f, a[row][j])
				}
			}
		}
		pivCol = append(pivCol, col)
		isPiv[col] = true
		row++
	}
	free := -1
	for c := 0; c < n; c++ {
		if !isPiv[c] {
			free = c
			break
		}
	}
	v := make([]int, n)
	if free < 0 {
		return v // non-singular: no certificate exists (all zeros will be rejected by TLC)
	}
	v[free] = 1
	for r, c := range pivCol {
		v[c] = int(a[r][free])
	}
	return v
}

func randMat(rng *rand.Rand, r, c int) mat {
	m := newMat(r, c)
	for i := range m {
		for j := range m[i] {
			m[i][j] = uint16(rng.Intn(65536))
		}
	}
	return m
}

func genMatrix(rng *rand.Rand, n int, kind int) (mat, string) {
	m := newMat(n, n)
	switch kind {
	case 0:
		return randMat(rng, n, n), "random"
	case 1: // Vandermonde a_j^i with distinct a_j
		perm := rng.Perm(65535)
		for i := 0; i < n; i++ {
			for j := 0; j < n; j++ {
				m[i][j] = gfref.Pow16(uint16(perm[j]+1), uint64(i))
			}
		}
		return m, "vandermonde"
	case 2: // Cauchy 1/(x_i + y_j), x and y disjoint
		for i := 0; i < n; i++ {
			for j := 0; j < n; j++ {
				m[i][j] = gfref.Inv16(uint16(n+i) ^ uint16(j))
			}
		}
		return m, "cauchy"
	case 3: // permutation
		p := rng.Perm(n)
		for i := range m {
			m[i][p[i]] = 1
		}
		return m, "permutation"
	case 4: // upper triangular, non-zero diagonal
		for i := 0; i < n; i++ {
			for j := i; j < n; j++ {
				m[i][j] = uint16(rng.Intn(65536))
			}
			m[i][i] = uint16(1 + rng.Intn(65535))
		}
		return m, "upper"
	case 5: // lower triangular
		for i := 0; i < n; i++ {
			for j := 0; j <= i; j++ {
				m[i][j] = uint16(rng.Intn(65536))
			}
			m[i][i] = uint16(1 + rng.Intn(65535))
		}
		return m, "lower"
	case 6: // needs a row swap at every pivot: cyclic shift of rows of an upper triangular matrix
		u, _ := genMatrix(rng, n, 4)
		for i := 0; i < n; i++ {
			m[(i+1)%n] = u[i]
		}
		return m, "swap-every-pivot"
	case 7, 8, 9: // rank deficient by construction: one row is a combination of others,
		// placed so that the deficiency shows at the first / a middle / the last pivot
		b := randMat(rng, n, n)
		target := []int{0, n / 2, n - 1}[kind-7]
		if n == 1 {
			b[0][0] = 0
			return b, "rank-deficient"
		}
		if kind == 7 {
			for i := range b {
				b[i][0] = 0 // first column zero: no pivot at the first position
			}
			return b, "rank-deficient-first"
		}
		for j := range b[target] {
			b[target][j] = 0
		}
		for r := 0; r < n; r++ {
			if r == target {
				continue
			}
			f := uint16(rng.Intn(65536))
			for j := range b[r] {
				b[target][j] ^= gfref.FMul16(f, b[r][j])
			}
		}
		return b, "rank-deficient"
	case 10: // low rank: outer products
		rk := 1 + rng.Intn(max(1, n-1))
		if rk >= n {
			rk = n - 1
		}
		if rk < 1 {
			return newMat(n, n), "zero"
		}
		a := randMat(rng, n, rk)
		b := randMat(rng, rk, n)
		return refTimes(a, b), "low-rank"
	case 11: // zero / identity-like with a zero on the diagonal in the last position
		for i := 0; i < n; i++ {
			m[i][i] = 1
		}
		m[n-1][n-1] = 0
		return m, "late-singular"
	}
	return randMat(rng, n, n), "random"
}

func max(a, b int) int {
	if a > b {
		return a
	}
	return b
}

func probes(rng *rand.Rand, n int) [][]int {
	out := make([][]int, 3)
	for k := range out {
		out[k] = make([]int, n)
		for i := range out[k] {
			out[k][i] = rng.Intn(65536)
		}
	}
	return out
}

func runC11(args []string) error {
	c := newCommon("c11")
	mode := c.fs.String("mode", "full", "full | procs (small matrices whose elimination factors are the constants a GOMAXPROCS-dependent table initialisation would get wrong)")
	c.fs.Parse(args)
	lg, err := tracelog.Create(c.out)
	if err != nil {
		return err
	}
	defer lg.Close()
	rng := rand.New(rand.NewSource(c.seed*41 + 9))
	thorough := c.tier == "thorough"
	if *mode == "procs" {
		np := runtime.GOMAXPROCS(0)
		cs := []int{1, 2, 0x8000}
		for k := 0; k < 32; k++ {
			cs = append(cs, 0xFFFF-k)
		}
		for w := 1; w < np; w++ {
			for _, per := range []int{65536 / np, 65535 / np} {
				cs = append(cs, w*per-1, w*per, w*per+1)
			}
		}
		for k := 0; k < 8; k++ {
			cs = append(cs, 1+rng.Intn(65535))
		}
		for _, cst := range cs {
			if cst <= 0 || cst > 65535 {
				continue
			}
			ci := int(gf2p16.T(cst).Inverse())
			// factor cst when eliminating below and above the pivot; pivot whose inverse is cst (row scaling by cst)
			for _, mm := range [][][]int{
				{{1, 0, 7}, {cst, 1, 0}, {0, cst, 1}},
				{{ci, 3, 1}, {0, 1, cst}, {0, 0, 1}},
				{{1, cst}, {0, 1}},
			} {
				n := len(mm)
				m := newMat(n, n)
				for i := range mm {
					for j := range mm[i] {
						m[i][j] = uint16(mm[i][j])
					}
				}
				gm := m.toGopar()
				inv, err := func() (r gf2p16.Matrix, e error) {
					defer func() {
						if x := recover(); x != nil {
							e = fmt.Errorf("panic: %v", x)
						}
					}()
					return gm.Inverse()
				}()
				ev := tracelog.M{"ev": "inv", "n": n, "kind": "procs", "m": m.ints(), "probes": probes(rng, n), "procs": np}
				ev["m_unchanged"] = fromGopar(gm, n, n).equal(m)
				if err != nil {
					ev["res"] = "singular"
					if err.Error() != "singular matrix" {
						ev["res"] = "other:" + err.Error()
					}
					ev["cert"] = nullVector(m)
					ev["x"] = [][]int{}
				} else {
					ev["res"] = "ok"
					ev["x"] = fromGopar(inv, n, n).ints()
					ev["cert"] = []int{}
				}
				lg.Emit(ev)
			}
		}
		return nil
	}
	var dims []int
	if thorough {
		for n := 1; n <= 40; n++ {
			dims = append(dims, n)
		}
		dims = append(dims, 64, 100, 200, 257, 300, 520)
	} else {
		for n := 1; n <= 20; n++ {
			dims = append(dims, n)
		}
		dims = append(dims, 24, 31, 32, 33, 40, 64, 100, 150, 257, 300)
	}
	for _, n := range dims {
		kinds := []int{0, 1, 2, 3, 4, 5, 6, 7, 8, 9, 10, 11}
		if n > 40 {
			kinds = []int{0, 1, 6, 8, 10}
		}
		if n > 256 && !thorough {
			kinds = []int{0, 6} // quick: random, and one that needs a row exchange at every pivot (rows longer than 256 elements)
		}
		if !thorough && n > 12 && n <= 40 {
			// quick: a seeded half of the kinds for mid sizes
			rng.Shuffle(len(kinds), func(i, j int) { kinds[i], kinds[j] = kinds[j], kinds[i] })
			kinds = kinds[:6]
		}
		for _, kind := range kinds {
			m, kname := genMatrix(rng, n, kind)
			gm := m.toGopar()
			// Inverse (a panic inside the code under test is an observation, not a harness failure)
			inv, err := func() (r gf2p16.Matrix, e error) {
				defer func() {
					if x := recover(); x != nil {
						e = fmt.Errorf("panic: %v", x)
					}
				}()
				return gm.Inverse()
			}()
			ev := tracelog.M{"ev": "inv", "n": n, "kind": kname, "m": m.ints(), "probes": probes(rng, n)}
			ev["m_unchanged"] = fromGopar(gm, n, n).equal(m)
			if err != nil {
				ev["res"] = "singular"
				if err.Error() != "singular matrix" {
					ev["res"] = "other:" + err.Error()
				}
				ev["cert"] = nullVector(m)
				ev["x"] = [][]int{}
			} else {
				ev["res"] = "ok"
				ev["x"] = fromGopar(inv, n, n).ints()
				ev["cert"] = []int{}
			}
			lg.Emit(ev)
			// RowReduceForInverse with a non-identity right-hand side
			for variant := 0; variant < 2 && n <= 64; variant++ {
				cols := 1 + rng.Intn(n+2)
				nm := randMat(rng, n, cols)
				if variant == 1 {
					// the shape the coder passes: N = (N_L | I) with a few dense columns on the left
					l := 1 + rng.Intn(3)
					cols = l + n
					nm = randMat(rng, n, cols)
					for i := 0; i < n; i++ {
						for j := 0; j < n; j++ {
							nm[i][l+j] = 0
						}
						nm[i][l+i] = 1
					}
				}
				gn := nm.toGopar()
				res, err := func() (r gf2p16.Matrix, e error) {
					defer func() {
						if x := recover(); x != nil {
							e = fmt.Errorf("panic: %v", x)
						}
					}()
					return gm.RowReduceForInverse(gn)
				}()
				ev := tracelog.M{"ev": "rr", "n": n, "cols": cols, "kind": kname, "m": m.ints(), "nm": nm.ints(), "probes": probes(rng, cols)}
				ev["m_unchanged"] = fromGopar(gm, n, n).equal(m)
				ev["n_unchanged"] = fromGopar(gn, n, cols).equal(nm)
				if err != nil {
					ev["res"] = "singular"
					if err.Error() != "singular matrix" {
						ev["res"] = "other:" + err.Error()
					}
					ev["cert"] = nullVector(m)
					ev["x"] = [][]int{}
				} else {
					ev["res"] = "ok"
					ev["x"] = fromGopar(res, n, cols).ints()
					ev["cert"] = []int{}
				}
				lg.Emit(ev)
			}
		}
		// Times
		if n <= 100 {
			r2, c2 := 1+rng.Intn(n+3), 1+rng.Intn(n+3)
			a := randMat(rng, r2, n)
			b := randMat(rng, n, c2)
			ga, gb := a.toGopar(), b.toGopar()
			gc := ga.Times(gb)
			lg.Emit(tracelog.M{"ev": "times", "n": n, "a": a.ints(), "b": b.ints(), "c": fromGopar(gc, r2, c2).ints(), "probes": probes(rng, c2),
				"m_unchanged": fromGopar(ga, r2, n).equal(a) && fromGopar(gb, n, c2).equal(b)})
		}
	}
	return nil
}
