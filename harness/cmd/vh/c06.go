package main

import (
	"bufio"
	"bytes"
	"encoding/json"
	"fmt"
	"io/ioutil"
	"os"
	"path/filepath"

	"verif/harness/refpar2"
	"verif/harness/sandbox"
	"verif/harness/tracelog"
)

func init() {
	register("c06", "materialise TLC-generated PAR2 layouts with the reference writer and run the real Verify/Repair on them", runC06)
}

type c06Tok struct {
	Set  string `json:"set"`
	Type string `json:"type"`
	K    int    `json:"k"`
}

type c06Layout struct {
	Index   []c06Tok `json:"index"`
	Exps    []int    `json:"exps"`
	Part    [][]int  `json:"part"`
	Style   string   `json:"style"`
	VolName string   `json:"volname"`
	Base    string   `json:"base"`
	Dir     string   `json:"dir"`
	ID      []int    `json:"id"`
}

var c06Files = []refpar2.InFile{
	{Name: "a.dat", Data: []byte{1, 2, 3, 4, 5}},
	{Name: "sub/b.bin", Data: []byte{9, 8, 7}},
}

const c06S = 4

// a file listed in the non-recovery set of every third layout
var c06NRFile = refpar2.InFile{Name: "nr/extra.bin", Data: []byte("not protected, only described")}

// counts the uninterpreted packets written so far (selects their type in turn)
var optCounter int

var unknownType = func() [16]byte {
	var t [16]byte
	copy(t[:], "PAR 2.0\x00Unknown!")
	return t
}()

type c06World struct {
	ownNR      *refpar2.Set // the own set with one file in the NON-recovery set (another main packet, another set id)
	useNR      bool
	own, other *refpar2.Set
	slices     [][]byte
	otherSl    [][]byte
}

func (w *c06World) packet(t c06Tok) []byte {
	s := w.own
	sl := w.slices
	if w.useNR && t.Set != "other" {
		s = w.ownNR
		if t.Type == "creator" {
			// wherever the creator packet goes, the non-recovery file's description and checksum packets go too
			b := append([]byte{}, s.CreatorPacket("refwriter")...)
			b = append(b, s.NRFileDescPacket(0)...)
			return append(b, s.NRIFSCPacket(0)...)
		}
	}
	if t.Set == "other" {
		s = w.other
		sl = w.otherSl
	}
	switch t.Type {
	case "creator":
		return s.CreatorPacket("refwriter")
	case "creator2":
		// a second client touched the file and left its own creator packet (different text): legal, and harmless
		return s.CreatorPacket("another client 2.0 (appended these blocks)")
	case "main":
		return s.MainPacket()
	case "fd":
		k := t.K
		if k < 1 {
			k = 1
		}
		return s.FileDescPacket(k - 1)
	case "ifsc":
		k := t.K
		if k < 1 {
			k = 1
		}
		return s.IFSCPacket(k - 1)
	case "recv":
		return s.RecvPacketWithData(uint32(t.K), refpar2.RecoveryBlock(sl, uint32(t.K)))
	case "unknown":
		if t.K == 1 {
			return refpar2.Frame(s.SetID, unknownType, nil) // empty body: length exactly 64
		}
		optCounter++
		if pk := optionalPacket(s.SetID, s.IDs[0], s.Files[0].Name, s.SliceSize, optCounter%16); pk != nil {
			return pk
		}
		return refpar2.Frame(s.SetID, unknownType, []byte("whatever"))
	}
	panic("unknown token " + t.Type)
}

func volTokens(style string, exps []int) []c06Tok {
	own := func(t string, k int) c06Tok { return c06Tok{"own", t, k} }
	oth := func(t string) c06Tok { return c06Tok{"other", t, 0} }
	var rs []c06Tok
	for _, e := range exps {
		rs = append(rs, own("recv", e))
	}
	full := []c06Tok{own("creator", 0), own("main", 0), own("fd", 1), own("ifsc", 1), own("fd", 2), own("ifsc", 2)}
	switch style {
	case "full":
		return append(full, rs...)
	case "lean":
		return append(append(rs, own("creator", 0)), own("creator2", 0))
	case "main":
		return append(append([]c06Tok{own("main", 0)}, rs...), own("creator", 0))
	case "noisy":
		out := append([]c06Tok{oth("recv")}, rs...)
		out = append(out, own("unknown", 0), own("ifsc", 2), own("fd", 2), oth("creator"), own("unknown", 1), own("main", 0), own("creator", 0), own("ifsc", 1), own("creator2", 0), own("fd", 1))
		return append(out, rs...)
	}
	panic("style " + style)
}

var baseMap = map[string]string{"plain": "set", "[x]": "se[x]t", "a*b": "a*b", "sp ace": "sp ace"}
var dirMap = map[string]string{"plain": "arch", "d[1]": "d[1]", "d*": "d*"}

func (w *c06World) write(root string, l c06Layout) (dir, index string, err error) {
	dir = filepath.Join(root, dirMap[l.Dir])
	if err = sandbox.Fresh(root); err != nil {
		return
	}
	if err = os.MkdirAll(dir, 0755); err != nil {
		return
	}
	base := baseMap[l.Base]
	var buf bytes.Buffer
	for _, t := range l.Index {
		buf.Write(w.packet(t))
	}
	index = filepath.Join(dir, base+".par2")
	if err = ioutil.WriteFile(index, buf.Bytes(), 0644); err != nil {
		return
	}
	for i, part := range l.Part {
		var exps []int
		for _, p := range part {
			exps = append(exps, l.Exps[p-1])
		}
		var vb bytes.Buffer
		for _, t := range volTokens(l.Style, exps) {
			vb.Write(w.packet(t))
		}
		name := fmt.Sprintf("%s.%s%d.par2", base, l.VolName, i)
		if i == 0 {
			name = fmt.Sprintf("%s.%s.par2", base, l.VolName)
		}
		if err = ioutil.WriteFile(filepath.Join(dir, name), vb.Bytes(), 0644); err != nil {
			return
		}
	}
	// a file of another set under a matching name, and decoys whose names do not match
	var ob bytes.Buffer
	for _, t := range []c06Tok{{"other", "creator", 0}, {"other", "main", 0}, {"other", "recv", 0}} {
		ob.Write(w.packet(t))
	}
	ioutil.WriteFile(filepath.Join(dir, base+".zz-other.par2"), ob.Bytes(), 0644)
	var d1, d2 bytes.Buffer
	d1.Write(w.packet(c06Tok{"own", "creator", 0}))
	d1.Write(w.packet(c06Tok{"own", "recv", 9999}))
	d2.Write(w.packet(c06Tok{"own", "creator", 0}))
	d2.Write(w.packet(c06Tok{"own", "recv", 9998}))
	ioutil.WriteFile(filepath.Join(dir, base+".decoy.par3"), d1.Bytes(), 0644)      // prefix only
	ioutil.WriteFile(filepath.Join(dir, "zz"+base+".decoy.par2"), d2.Bytes(), 0644) // suffix only
	return
}

func (w *c06World) placeData(dir string, damage string) error {
	for _, f := range w.own.Files {
		p := filepath.Join(dir, filepath.FromSlash(f.Name))
		os.MkdirAll(filepath.Dir(p), 0755)
		d := append([]byte{}, f.Data...)
		switch damage {
		case "A": // one slice of the first file (in set order) is wrong
			if f.Name == w.own.Files[0].Name {
				d[0] ^= 0x10
			}
		case "B": // the first file is gone
			if f.Name == w.own.Files[0].Name {
				continue
			}
		}
		if err := ioutil.WriteFile(p, d, 0644); err != nil {
			return err
		}
	}
	return nil
}

func (w *c06World) restored(dir string) bool {
	for _, f := range w.own.Files {
		b, err := ioutil.ReadFile(filepath.Join(dir, filepath.FromSlash(f.Name)))
		if err != nil || !bytes.Equal(b, f.Data) {
			return false
		}
	}
	return true
}

func runC06(args []string) error {
	c := newCommon("c06")
	c.fs.Parse(args)
	f, err := os.Open(c.in)
	if err != nil {
		return err
	}
	defer f.Close()
	lg, err := tracelog.Create(c.out)
	if err != nil {
		return err
	}
	defer lg.Close()
	w := &c06World{own: refpar2.NewSet(c06Files, c06S),
		other: refpar2.NewSet([]refpar2.InFile{{Name: "foreign.bin", Data: []byte("foreign data!")}}, c06S)}
	w.slices = w.own.AllSlices()
	w.otherSl = w.other.AllSlices()
	w.ownNR = w.own.WithNonRecovery([]refpar2.InFile{c06NRFile})
	var facts []inputFact
	for _, fl := range c06Files {
		facts = append(facts, inputFacts(fl.Name, fl.Data, c06S))
	}
	root := filepath.Join(c.dir, "c06")
	cwd, _ := os.Getwd()
	defer os.Chdir(cwd)

	// canonical expectations: gopar's own output for the same data and damage
	canon := map[string]tracelog.M{}
	{
		cdir := filepath.Join(c.dir, "c06canon")
		names := []string{}
		prot := map[string][]byte{}
		for _, fl := range c06Files {
			names = append(names, fl.Name)
			prot[fl.Name] = fl.Data
		}
		a, err := buildArch(cdir, names, prot, c06S, 3, 1, "set")
		if err != nil {
			return err
		}
		for _, dmg := range []string{"A", "B"} {
			a.materialise(cdir, map[string][]byte{}, a.VolFiles)
			w.placeData(cdir, dmg)
			vo := runVerify(filepath.Join(cdir, a.Index), 2, false, nil)
			ro := runRepair(filepath.Join(cdir, a.Index), 2, false, false, nil)
			canon[dmg] = tracelog.M{"verify": tracelog.M{"err": vo.Err, "usable": vo.Usable, "unusable": vo.Unusable, "needed": vo.Needed},
				"repair": tracelog.M{"err": ro.Err}, "restored": w.restored(cdir)}
		}
		os.RemoveAll(cdir)
	}
	seenRef := map[string]bool{}
	sc := bufio.NewScanner(f)
	sc.Buffer(make([]byte, 1<<20), 1<<24)
	li := 0
	for sc.Scan() {
		var l c06Layout
		if err := json.Unmarshal(sc.Bytes(), &l); err != nil {
			return err
		}
		li++
		// every third layout describes the same protected files in a set that also lists a file in its non-recovery
		// set (checksums recorded, not protected; present on disk for some layouts, absent for others)
		w.useNR = li%3 == 2
		for di, dmg := range []string{"A", "B"} {
			dir, index, err := w.write(root, l)
			if err != nil {
				return err
			}
			// the reference writer's output is judged by Par2Format once per (index order, scheme, partition, style)
			key := fmt.Sprint(l.ID[0], l.ID[1], l.ID[2], l.ID[3])
			if !seenRef[key] && !w.useNR {
				seenRef[key] = true
				ents, _ := ioutil.ReadDir(dir)
				files := []tracelog.M{}
				cols := []int{0, 1}
				for _, e := range ents {
					if e.IsDir() {
						continue
					}
					b, _ := ioutil.ReadFile(filepath.Join(dir, e.Name()))
					pk, stop := observePackets(b, cols)
					files = append(files, tracelog.M{"name": e.Name(), "size": len(b), "stop": stop, "kind": "any", "packets": pk})
				}
				srt := []tracelog.M{}
				for _, ff := range sortFacts(facts) {
					srt = append(srt, ff.Record)
				}
				sw := [][]int{}
				for _, sl := range w.slices {
					sw = append(sw, words(sl))
				}
				lg.Emit(tracelog.M{"ev": "refset", "id": l.ID, "s": c06S, "r": 65536, "setid": hx(w.own.SetID), "sorted": srt, "cols": cols,
					"slicewords": sw, "files": files})
			}
			if err := w.placeData(dir, dmg); err != nil {
				return err
			}
			if w.useNR && li%2 == 0 {
				sandbox.WriteFile(filepath.Join(dir, "nr", "extra.bin"), c06NRFile.Data)
			}
			pathmode := "abs"
			idx := index
			if (li+di)%2 == 0 {
				pathmode = "rel"
				os.Chdir(dir)
				idx = filepath.Base(index)
			}
			before, _ := sandbox.Take(root)
			vo := runVerify(idx, 1+li%3, false, nil)
			mid, _ := sandbox.Take(root)
			ro := runRepair(idx, 1+li%3, li%2 == 0, false, nil)
			after, _ := sandbox.Take(root)
			os.Chdir(cwd)
			// anything changed besides the protected files?
			outside := []string{}
			protRel := map[string]bool{}
			for _, fl := range w.own.Files {
				protRel[filepath.Join(dirMap[l.Dir], filepath.FromSlash(fl.Name))] = true
			}
			cr, del, chg, tch := sandbox.Diff(before, mid)
			for _, p := range append(append(append(cr, del...), chg...), tch...) {
				if e, ok := mid[p]; ok && e.IsDir {
					continue
				}
				outside = append(outside, "verify:"+p)
			}
			cr, del, chg, tch = sandbox.Diff(mid, after)
			for _, p := range append(append(append(cr, del...), chg...), tch...) {
				if e, ok := after[p]; ok && e.IsDir {
					continue
				}
				if !protRel[p] {
					outside = append(outside, "repair:"+p)
				}
			}
			nexps := map[int]bool{}
			for _, e := range l.Exps {
				nexps[e] = true
			}
			lg.Emit(tracelog.M{"ev": "layout", "id": l.ID, "damage": dmg, "pathmode": pathmode, "nexps": len(nexps), "style": l.Style,
				"volname": l.VolName, "base": l.Base, "dir": l.Dir, "exps": l.Exps,
				"verify":   tracelog.M{"err": vo.Err, "errtext": vo.ErrText + vo.Panic, "usable": vo.Usable, "unusable": vo.Unusable, "pusable": vo.PUsable, "needed": vo.Needed},
				"repair":   tracelog.M{"err": ro.Err, "errtext": ro.ErrText + ro.Panic, "repaired": ro.Repaired},
				"restored": w.restored(dir), "canon": canon[dmg], "outside": outside})
		}
	}
	os.RemoveAll(root)
	return sc.Err()
}
