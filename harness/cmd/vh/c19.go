package main

import (
	"bufio"
	"bytes"
	"crypto/md5"
	"encoding/binary"
	"encoding/json"
	"fmt"
	"io/ioutil"
	"math/rand"
	"os"
	"path/filepath"
	"sort"
	"strconv"
	"strings"
	"time"

	"verif/harness/refpar1"
	"verif/harness/refpar2"
	"verif/harness/sandbox"
	"verif/harness/tracelog"
)

func init() {
	register("c19", "well-checksummed but inconsistent PAR1/PAR2 archives (field x boundary value grid) through the real Verify/Repair", runC19)
}

type c19Mut struct {
	Kind  string `json:"kind"`
	Fmt   string `json:"fmt"`
	Field string `json:"field"`
	Value string `json:"value"`
	Where string `json:"where"`
}

type c19Case struct {
	Muts  []c19Mut `json:"muts"`
	Valid bool     `json:"valid"`
	Data  string   `json:"data"` // "intact" | "one" (one data file deleted)
	Big   bool     `json:"big"`  // PAR2 world with a slice size of 4096 instead of 16
}

func valueOf(v string, f uint64, rem uint64) uint64 {
	switch v {
	case "0":
		return 0
	case "1":
		return 1
	case "f-1":
		return f - 1
	case "f+1":
		return f + 1
	case "f-4":
		return f - 4
	case "f+4":
		return f + 4
	case "2^31":
		return 1 << 31
	case "2^32":
		return 1 << 32
	case "2^62":
		return 1 << 62
	case "2^63":
		return 1 << 63
	case "2^64-1":
		return ^uint64(0)
	case "2^64-2":
		return ^uint64(0) - 1
	case "2^63+f":
		return f | 1<<63 // the genuine value with the top bit set
	case "2^20":
		return 1 << 20
	case "2^28":
		return 1 << 28
	case "2^28+1":
		return 1<<28 + 1
	case "2^32-1":
		return 1<<32 - 1
	case "rem-1":
		return rem - 1
	case "rem+1":
		return rem + 1
	case "256":
		return 256
	case "65535":
		return 65535
	case "2^40":
		return 1 << 40
	}
	return f
}

var c19Names = []string{"a.bin", "b.bin", "c.bin"}

// content of the file listed in the non-recovery set by the nonrecv.* mutations (it is present on disk)
var c19NRData = []byte("this file is only described, not protected: 70 bytes of text........")

func c19Data() map[string][]byte {
	rng := rand.New(rand.NewSource(1919))
	out := map[string][]byte{}
	for i, n := range c19Names {
		d := make([]byte, []int{40, 25, 16}[i])
		rng.Read(d)
		out[n] = d
	}
	return out
}

// the PAR2 world's slice size: 16 by default, 4096 for the cases marked "big" (an allocation proportional to an
// exponent or a count times the slice size only becomes visible with a slice size of some kilobytes)
var c19S = 16

// ---- PAR2 mutant builder -------------------------------------------------------------------

type p2file struct {
	name    string
	data    []byte
	hash    [16]byte
	hash16k [16]byte
	length  uint64
	fdName  string
	pairs   []refpar2.Pair
}

func (f *p2file) id() [16]byte {
	var l [8]byte
	binary.LittleEndian.PutUint64(l[:], f.length)
	h := md5.New()
	h.Write(f.hash16k[:])
	h.Write(l[:])
	h.Write([]byte(f.fdName))
	var id [16]byte
	copy(id[:], h.Sum(nil))
	return id
}

type p2variant struct {
	sliceSize uint64
	nrecv     uint32
	files     []*p2file
	idsOp     string
	remove    map[string]bool
	dup       map[string]bool
	recvExp   map[int]uint32 // original exponent -> written exponent
	recvLen   int            // -1 = unchanged
	recvWrong bool
	nonrecv   string // "" = none; "ok" = one consistent file in the non-recovery set; "short_ifsc" / "long_ifsc" = its checksum count disagrees with its length; "no_packets" = listed but not described
	optional  int    // > 0: an optional packet of that shape (optionalPacket) follows the creator packet in every file
	creator   string // "" = normal client id, "empty" = empty body, "padding" = NUL bytes only, "blank" = blanks and NULs
}

func baseVariant(prot map[string][]byte) *p2variant {
	v := &p2variant{sliceSize: uint64(c19S), remove: map[string]bool{}, dup: map[string]bool{}, recvExp: map[int]uint32{}, recvLen: -1}
	for _, n := range c19Names {
		d := prot[n]
		v.files = append(v.files, &p2file{name: n, data: d, hash: md5.Sum(d), hash16k: refpar2.Hash16k(d), length: uint64(len(d)), fdName: n,
			pairs: refpar2.SlicePairs(d, c19S)})
	}
	sort.Slice(v.files, func(i, j int) bool { return refpar2.IDLess(v.files[i].id(), v.files[j].id()) })
	v.nrecv = uint32(len(v.files))
	return v
}

func (v *p2variant) apply(m c19Mut) {
	if strings.HasPrefix(m.Field, "nonrecv.") {
		v.nonrecv = strings.TrimPrefix(m.Field, "nonrecv.")
		return
	}
	if strings.HasPrefix(m.Field, "opt.") {
		v.optional, _ = strconv.Atoi(strings.TrimPrefix(m.Field, "opt."))
		return
	}
	f0 := v.files[0]
	nsl := uint64(len(f0.pairs))
	switch m.Field {
	case "main.slice_size":
		v.sliceSize = valueOf(m.Value, uint64(c19S), 0)
	case "main.slice_size_1pair":
		v.sliceSize = valueOf(m.Value, 64, 0) // f+4 -> 68: larger than every file
		for _, f := range v.files {
			if len(f.pairs) > 1 {
				f.pairs = f.pairs[:1]
			}
		}
	case "main.nrecv":
		v.nrecv = uint32(valueOf(m.Value, uint64(len(v.files)), 0))
	case "fd.length":
		f0.length = valueOf(m.Value, uint64(len(f0.data)), nsl*uint64(c19S))
	case "ifsc.npairs":
		switch m.Value {
		case "0":
			f0.pairs = nil
		case "f-1":
			if len(f0.pairs) > 0 {
				f0.pairs = f0.pairs[:len(f0.pairs)-1]
			}
		case "f+1":
			if len(f0.pairs) > 0 {
				f0.pairs = append(f0.pairs, f0.pairs[0])
			}
		}
	case "recv.exp":
		v.recvExp[0] = uint32(valueOf(m.Value, 0, 0))
		if m.Value == "f+1" {
			v.recvExp[0] = 3 // next free exponent
		}
		if m.Value == "1" {
			v.recvExp[0] = 1 // collides with block 1 (different content under the same exponent)
		}
		if m.Value == "65535" {
			v.recvExp[0] = 65535
		}
	case "recv.exps_vdm_singular":
		// the blocks are relabelled with exponents 0, 65535/3 and 2*65535/3: with the slices 0 and 2 missing (constants
		// 2^1 and 2^4, ratio of order 21845) the two lowest rows form a singular system - the format's own flaw
		v.recvExp[1] = 21845
		v.recvExp[2] = 43690
	case "recv.datalen":
		v.recvLen = int(valueOf(m.Value, uint64(c19S), 0))
	case "fd.hash":
		f0.hash[3] ^= 0x40
	case "fd.hash16k":
		f0.hash16k[5] ^= 0x02
	case "creator.body_empty":
		v.creator = "empty"
	case "creator.body_padding":
		v.creator = "padding"
	case "creator.body_blank":
		v.creator = "blank"
	case "fd.name_empty":
		f0.fdName = ""
	case "fd.name_long":
		f0.fdName = string(bytes.Repeat([]byte("n"), 5000))
	case "recv.data_short":
		v.recvLen = c19S - 4
	case "recv.data_long":
		v.recvLen = c19S + 8
	case "recv.data_wrong":
		v.recvWrong = true
	case "ids.dup", "ids.unsorted", "ids.extra", "ids.missing":
		v.idsOp = m.Field
	default:
		if len(m.Field) > 7 && m.Field[:7] == "remove." {
			v.remove[m.Field[7:]] = true
		} else if len(m.Field) > 4 && m.Field[:4] == "dup." {
			v.dup[m.Field[4:]] = true
		}
	}
}

// build returns index, vol1, vol2 bytes and the set id.
func (v *p2variant) build(prot map[string][]byte) (map[string][]byte, [16]byte, []*p2file) {
	files := append([]*p2file{}, v.files...)
	sort.SliceStable(files, func(i, j int) bool { return refpar2.IDLess(files[i].id(), files[j].id()) })
	var ids [][16]byte
	for _, f := range files {
		ids = append(ids, f.id())
	}
	switch v.idsOp {
	case "ids.dup":
		ids = append(ids[:1], ids...)
	case "ids.unsorted":
		ids[0], ids[len(ids)-1] = ids[len(ids)-1], ids[0]
	case "ids.extra":
		ids = append(ids, [16]byte{0xff, 0xee, 0xdd, 0xff, 0xff, 0xff, 0xff, 0xff, 0xff, 0xff, 0xff, 0xff, 0xff, 0xff, 0xff, 0xff})
	case "ids.missing":
		ids = ids[1:]
	}
	nrecv := v.nrecv
	if v.idsOp == "ids.dup" || v.idsOp == "ids.extra" {
		nrecv = uint32(len(ids))
	}
	if v.idsOp == "ids.missing" {
		nrecv = uint32(len(ids))
	}
	main := make([]byte, 12)
	binary.LittleEndian.PutUint64(main, v.sliceSize)
	binary.LittleEndian.PutUint32(main[8:], nrecv)
	for _, id := range ids {
		main = append(main, id[:]...)
	}
	// a file in the NON-recovery set (ids after the recovery set's): described, not protected, present on disk
	var nrFile *p2file
	if v.nonrecv != "" {
		d := c19NRData
		nrFile = &p2file{name: "nonrecovery.bin", data: d, hash: md5.Sum(d), hash16k: refpar2.Hash16k(d), length: uint64(len(d)), fdName: "nonrecovery.bin",
			pairs: refpar2.SlicePairs(d, c19S)}
		switch v.nonrecv {
		case "short_ifsc":
			nrFile.pairs = nrFile.pairs[:2]
		case "long_ifsc":
			nrFile.pairs = append(nrFile.pairs, nrFile.pairs[0], nrFile.pairs[1])
		}
		id := nrFile.id()
		main = append(main, id[:]...)
	}
	setID := md5.Sum(main)
	pad4 := func(b []byte) []byte {
		for len(b)%4 != 0 {
			b = append(b, 0)
		}
		return b
	}
	creatorBody := pad4([]byte("refmut"))
	switch v.creator {
	case "empty":
		creatorBody = []byte{}
	case "padding":
		creatorBody = []byte{0, 0, 0, 0}
	case "blank":
		creatorBody = []byte{' ', ' ', 0, 0}
	}
	creator := refpar2.Frame(setID, refpar2.TypeCreator, creatorBody)
	mainP := refpar2.Frame(setID, refpar2.TypeMain, main)
	var fds, ifscs [][]byte
	descr := files
	if nrFile != nil && v.nonrecv != "no_packets" {
		descr = append(append([]*p2file{}, files...), nrFile)
	}
	for _, f := range descr {
		id := f.id()
		body := append([]byte{}, id[:]...)
		body = append(body, f.hash[:]...)
		body = append(body, f.hash16k[:]...)
		var l [8]byte
		binary.LittleEndian.PutUint64(l[:], f.length)
		body = append(body, l[:]...)
		body = append(body, []byte(f.fdName)...)
		fds = append(fds, refpar2.Frame(setID, refpar2.TypeFileDesc, pad4(body)))
		ib := append([]byte{}, id[:]...)
		for _, p := range f.pairs {
			ib = append(ib, p.MD5[:]...)
			var c [4]byte
			binary.LittleEndian.PutUint32(c[:], p.CRC)
			ib = append(ib, c[:]...)
		}
		ifscs = append(ifscs, refpar2.Frame(setID, refpar2.TypeIFSC, ib))
	}
	// recovery data from the true slices in the (mutated) id order
	var slices [][]byte
	for _, f := range files {
		for k := 0; k < refpar2.NumSlices(len(f.data), c19S); k++ {
			slices = append(slices, refpar2.PadSlice(f.data, k, c19S))
		}
	}
	recv := func(e int) []byte {
		d := refpar2.RecoveryBlock(slices, uint32(e))
		if v.recvWrong && e == 0 {
			d[2] ^= 0x11
		}
		if v.recvLen >= 0 && e == 0 {
			if v.recvLen <= len(d) {
				d = d[:v.recvLen]
			} else {
				d = append(d, make([]byte, v.recvLen-len(d))...)
			}
		}
		we := uint32(e)
		if x, ok := v.recvExp[e]; ok {
			we = x
		}
		body := make([]byte, 4, 4+len(d))
		binary.LittleEndian.PutUint32(body, we)
		return refpar2.Frame(setID, refpar2.TypeRecv, append(body, d...))
	}
	common := func() []byte {
		var b bytes.Buffer
		rep := func(kind string, p []byte) {
			if v.remove[kind] {
				return
			}
			b.Write(p)
			if v.dup[kind] {
				b.Write(p)
			}
		}
		rep("creator", creator)
		if v.optional > 0 && len(files) > 0 {
			if pk := optionalPacket(setID, files[0].id(), files[0].fdName, int(v.sliceSize), v.optional); pk != nil {
				b.Write(pk)
			}
		}
		rep("main", mainP)
		for i := range fds {
			if i == 0 {
				rep("fd", fds[i])
				rep("ifsc", ifscs[i])
			} else {
				b.Write(fds[i])
				b.Write(ifscs[i])
			}
		}
		return b.Bytes()
	}
	out := map[string][]byte{}
	out["index"] = common()
	mk := func(exps []int) []byte {
		var b bytes.Buffer
		b.Write(common())
		for _, e := range exps {
			if v.remove["recv"] {
				continue
			}
			p := recv(e)
			b.Write(p)
			if v.dup["recv"] {
				b.Write(p)
			}
		}
		return b.Bytes()
	}
	out["vol1"] = mk([]int{0})
	out["vol2"] = mk([]int{1, 2})
	return out, setID, files
}

// ---- PAR1 mutant builder (patch fields, then recompute set hash and control hash) -------------

func patchPar1(b []byte, muts []c19Mut, isVolume bool, volNo int) []byte {
	out := append([]byte{}, b...)
	put := func(off int, v uint64) {
		if off+8 <= len(out) {
			binary.LittleEndian.PutUint64(out[off:], v)
		}
	}
	get := func(off int) uint64 { return binary.LittleEndian.Uint64(out[off:]) }
	for _, m := range muts {
		if m.Fmt != "par1" {
			continue
		}
		if (m.Where == "index" && isVolume) || (m.Where == "volume" && !isVolume) {
			continue
		}
		rem := uint64(len(out))
		switch m.Field {
		case "hdr.volume":
			put(48, valueOf(m.Value, get(48), rem))
		case "hdr.file_count":
			put(56, valueOf(m.Value, get(56), rem))
		case "hdr.list_offset":
			put(64, valueOf(m.Value, get(64), rem))
		case "hdr.list_bytes":
			put(72, valueOf(m.Value, get(72), rem))
		case "hdr.data_offset":
			put(80, valueOf(m.Value, get(80), rem))
		case "hdr.data_bytes":
			put(88, valueOf(m.Value, get(88), rem))
		case "hdr.version":
			put(8, valueOf(m.Value, get(8), rem))
		case "ent.entry_bytes":
			put(96, valueOf(m.Value, get(96), rem-96))
		case "ent.status":
			put(96+8, valueOf(m.Value, get(96+8), rem))
		case "ent.file_bytes":
			// rem = size of the parity data (the shard size)
			shard := uint64(0)
			v := refpar1.Tokenize(b)
			if isVolume {
				shard = uint64(len(v.Data))
			} else {
				for _, e := range v.Entries {
					if e.FileBytes > shard {
						shard = e.FileBytes
					}
				}
			}
			put(96+16, valueOf(m.Value, get(96+16), shard))
		case "ent.name_lone_surrogate":
			// the last UTF-16 code unit of the first entry's name becomes an unpaired high surrogate
			if eb := get(96); eb >= 58 && len(out) >= 96 && eb <= uint64(len(out)-96) { // eb may itself be a mutated, huge value
				out[96+int(eb)-2], out[96+int(eb)-1] = 0x00, 0xD8
			}
		case "ent.name_lone_low_surrogate":
			if eb := get(96); eb >= 58 && len(out) >= 96 && eb <= uint64(len(out)-96) { // eb may itself be a mutated, huge value
				out[96+int(eb)-2], out[96+int(eb)-1] = 0x00, 0xDC
			}
		case "ent.hash":
			out[96+24+2] ^= 0x08
		case "ent.hash16k":
			out[96+40+1] ^= 0x80
		case "vol.data_short":
			if isVolume {
				out = out[:len(out)-3]
				put(88, get(88)-3)
			}
		case "vol.data_long":
			if isVolume {
				out = append(out, 1, 2, 3, 4, 5)
				put(88, get(88)+5)
			}
		case "vol.number_swapped":
			if isVolume {
				put(48, uint64(3-volNo))
			}
		}
	}
	// consistent re-checksumming: set hash over the saved entries' hashes, then the control hash
	v := refpar1.Tokenize(out)
	if v.OK || len(v.Entries) > 0 {
		copy(out[32:48], v.SetHashSaved[:])
	}
	ch := md5.Sum(out[32:])
	copy(out[16:32], ch[:])
	return out
}

func loadC19Cases(path string) ([]c19Case, error) {
	f, err := os.Open(path)
	if err != nil {
		return nil, err
	}
	defer f.Close()
	var out []c19Case
	sc := bufio.NewScanner(f)
	sc.Buffer(make([]byte, 1<<20), 1<<24)
	for sc.Scan() {
		var c c19Case
		if err := json.Unmarshal(sc.Bytes(), &c); err != nil {
			return nil, err
		}
		out = append(out, c)
	}
	return out, sc.Err()
}

func crashText(verr, vtext, rerr, rtext string) string {
	if verr == "panic" {
		return tail(vtext, 60)
	}
	if rerr == "panic" {
		return tail(rtext, 60)
	}
	return ""
}

func needs(fmtName, data string, prot map[string][]byte) int {
	if data == "two02" {
		return 2
	}
	if data != "one" {
		return 0
	}
	if fmtName == "par1" {
		return 1
	}
	return refpar2.NumSlices(len(baseVariant(prot).files[0].data), c19S)
}

func rssKB() int64 {
	b, err := ioutil.ReadFile("/proc/self/statm")
	if err != nil {
		return 0
	}
	var size, res int64
	fmt.Sscanf(string(b), "%d %d", &size, &res)
	return res * 4
}

func runC19Case(dir string, cs c19Case, prot map[string][]byte, a1 *arch1) (tracelog.M, error) {
	c19S = 16
	if cs.Big {
		c19S = 4096
	}
	if err := sandbox.Fresh(dir); err != nil {
		return nil, err
	}
	fmtName := cs.Muts[0].Fmt
	disk := map[string][]byte{}
	for _, n := range c19Names {
		disk[n] = prot[n]
	}
	if cs.Data == "one" {
		// the file whose fields are mutated is the one that has to be reconstructed
		victim := "a.bin"
		if fmtName == "par2" {
			victim = baseVariant(prot).files[0].name
		}
		disk[victim] = nil
	}
	if cs.Data == "two02" && fmtName == "par2" {
		// damage the slices with global indices 0 and 2 (recovery-set order)
		g := 0
		for _, f := range baseVariant(prot).files {
			for k := 0; k < refpar2.NumSlices(len(f.data), c19S); k++ {
				if g == 0 || g == 2 {
					d := append([]byte{}, disk[f.name]...)
					d[k*c19S] ^= 0x5A
					disk[f.name] = d
				}
				g++
			}
		}
	}
	for _, m := range cs.Muts {
		if strings.HasPrefix(m.Field, "nonrecv.") {
			ioutil.WriteFile(filepath.Join(dir, "nonrecovery.bin"), c19NRData, 0644)
		}
	}
	for _, n := range c19Names {
		if disk[n] != nil {
			ioutil.WriteFile(filepath.Join(dir, n), disk[n], 0644)
		}
	}
	declared := map[string]tracelog.M{}
	present := 0
	var declaredSlice uint64 = uint64(c19S)
	nblocks := 0
	var index string
	if fmtName == "par2" {
		// three variants: as mutated for the places named by "where", pristine elsewhere
		mutated := baseVariant(prot)
		for _, m := range cs.Muts {
			mutated.apply(m)
		}
		mb, _, mfiles := mutated.build(prot)
		pb, _, _ := baseVariant(prot).build(prot)
		where := cs.Muts[0].Where
		files := map[string][]byte{}
		for _, k := range []string{"index", "vol1", "vol2"} {
			useMut := where == "all" || (where == "index" && k == "index") || (where == "volume" && k != "index")
			if useMut {
				files[k] = mb[k]
			} else {
				files[k] = pb[k]
			}
		}
		real := map[string]string{"index": "set.par2", "vol1": "set.vol00+01.par2", "vol2": "set.vol01+02.par2"}
		for k, b := range files {
			ioutil.WriteFile(filepath.Join(dir, real[k]), b, 0644)
			present += len(b)
		}
		// what the index declares (for "written files match the archive's own hashes")
		idxPk, _ := refpar2.Tokenize(files["index"])
		var idxSet [16]byte
		for _, p := range idxPk {
			if p.Type == refpar2.TypeMain {
				if mm, ok := refpar2.ParseMain(p.Body); ok {
					declaredSlice = mm.SliceSize
					idxSet = p.SetID
				}
			}
			if p.Type == refpar2.TypeFileDesc {
				if fd, ok := refpar2.ParseFileDesc(p.Body); ok {
					declared[fd.Name] = tracelog.M{"md5": hx(fd.Hash), "len": fmt.Sprint(fd.Length)}
				}
			}
		}
		seen := map[uint32]bool{}
		for _, k := range []string{"vol1", "vol2"} {
			for _, p := range refpar2.ScanPackets(files[k]) {
				if p.Type == refpar2.TypeRecv && p.SetID == idxSet {
					if e, d, ok := refpar2.ParseRecv(p.Body); ok && uint64(len(d)) == declaredSlice && e < 65536 && !seen[e] {
						seen[e] = true
						nblocks++
					}
				}
			}
		}
		_ = mfiles
		index = filepath.Join(dir, "set.par2")
	} else if strings.HasPrefix(cs.Muts[0].Field, "set.") && strings.HasSuffix(cs.Muts[0].Field, "_entries") {
		// a genuine set with 255 / 256 entries (3 real files + tiny ones), written by the reference writer;
		// 257 and 300 entries: more files than PAR 1.0 can protect (must be refused, not crash)
		n := 255
		fmt.Sscanf(cs.Muts[0].Field, "set.%d_entries", &n)
		var specs []refpar1.FileSpec
		for _, nm := range c19Names {
			specs = append(specs, refpar1.FileSpec{Name: nm, Data: prot[nm], Saved: true})
		}
		for k := len(specs); k < n; k++ {
			nm := fmt.Sprintf("t%03d", k)
			d := []byte{byte(k), byte(k >> 8)}
			specs = append(specs, refpar1.FileSpec{Name: nm, Data: d, Saved: true})
			ioutil.WriteFile(filepath.Join(dir, nm), d, 0644)
			present += 2
		}
		idx := refpar1.BuildVolume(specs, 0, nil)
		ioutil.WriteFile(filepath.Join(dir, "set.par"), idx, 0644)
		present += len(idx)
		nblocks = 0
		if n == 255 {
			vb := refpar1.BuildVolume(specs, 1, refpar1.Parity(specs, 1))
			ioutil.WriteFile(filepath.Join(dir, "set.p01"), vb, 0644)
			present += len(vb)
			nblocks = 1
		}
		for _, e := range refpar1.Tokenize(idx).Entries {
			declared[e.Name] = tracelog.M{"md5": hx(e.Hash), "len": fmt.Sprint(e.FileBytes)}
		}
		index = filepath.Join(dir, "set.par")
	} else {
		files := map[string][]byte{"index": patchPar1(a1.IndexB, cs.Muts, false, 0), "vol1": patchPar1(a1.VolB[1], cs.Muts, true, 1), "vol2": patchPar1(a1.VolB[2], cs.Muts, true, 2)}
		real := map[string]string{"index": "set.par", "vol1": "set.p01", "vol2": "set.p02"}
		for k, b := range files {
			ioutil.WriteFile(filepath.Join(dir, real[k]), b, 0644)
			present += len(b)
		}
		v := refpar1.Tokenize(files["index"])
		for _, e := range v.Entries {
			declared[e.Name] = tracelog.M{"md5": hx(e.Hash), "len": fmt.Sprint(e.FileBytes)}
		}
		nblocks = 2
		index = filepath.Join(dir, "set.par")
	}
	for _, n := range c19Names {
		if disk[n] != nil {
			present += len(disk[n])
		}
	}
	before, _ := sandbox.Take(dir)
	rss0 := rssKB()
	peak0 := peakRSSKB()
	t0 := time.Now()
	var verr, rerr, vtext, rtext string
	var needed bool
	var repaired []string
	if fmtName == "par2" {
		vo := runVerify(index, 2, false, nil)
		ro := runRepair(index, 2, false, false, nil)
		verr, rerr, vtext, rtext, needed, repaired = vo.Err, ro.Err, vo.ErrText+vo.Panic, ro.ErrText+ro.Panic, vo.Needed, ro.Repaired
	} else {
		// the full parity check (-a) is requested only when a parity volume exists to check against
		vo := runVerify1(index, nblocks > 0, false, nil)
		ro := runRepair1(index, false, false, nil)
		verr, rerr, vtext, rtext, needed, repaired = vo.Err, ro.Err, vo.ErrText+vo.Panic, ro.ErrText+ro.Panic, vo.Needed, ro.Repaired
	}
	ms := time.Since(t0).Milliseconds()
	growth := peakRSSKB() - peak0
	if g2 := rssKB() - rss0; g2 > growth {
		growth = g2
	}
	after, _ := sandbox.Take(dir)
	cr, del, chg, tch := sandbox.Diff(before, after)
	written := []tracelog.M{}
	outside := []string{}
	for _, l := range [][]string{cr, chg, tch} {
		for _, p := range l {
			if e, ok := after[p]; ok && e.IsDir {
				continue
			}
			if dcl, ok := declared[p]; ok {
				b, _ := ioutil.ReadFile(filepath.Join(dir, p))
				written = append(written, tracelog.M{"name": p, "matches_declared": hx(md5.Sum(b)) == dcl["md5"] && fmt.Sprint(len(b)) == dcl["len"]})
			} else {
				outside = append(outside, p)
			}
		}
	}
	for _, p := range del {
		outside = append(outside, "deleted:"+p)
	}
	restored := true
	for _, n := range c19Names {
		b, err := ioutil.ReadFile(filepath.Join(dir, n))
		if err != nil || !bytes.Equal(b, prot[n]) {
			restored = false
		}
	}
	dkb := declaredSlice / 1024
	if dkb > 1<<20 {
		dkb = 1 << 20
	}
	if repaired == nil {
		repaired = []string{}
	}
	return tracelog.M{"ev": "mutant", "fmt": fmtName, "muts": cs.Muts, "valid": cs.Valid, "data": cs.Data, "present_kb": present/1024 + 1, "declared_slice": fmt.Sprint(declaredSlice),
		"declared_kb_capped": int64(dkb), "nblocks": nblocks, "needs": needs(fmtName, cs.Data, prot), "oom": false,
		"verify": tracelog.M{"err": verr, "errtext": tail(vtext, 120), "needed": needed}, "repair": tracelog.M{"err": rerr, "errtext": tail(rtext, 120), "repaired": repaired},
		"written": written, "outside": outside, "restored": restored, "fatal": false, "ms": ms, "rss_growth_kb": growth,
		"crash_text": crashText(verr, vtext, rerr, rtext)}, nil
}

// declaredKBOf: the slice size a case declares (KiB, capped at 2^20), for cases that killed their worker
func declaredKBOf(cs c19Case) int64 {
	c19S = 16
	if cs.Big {
		c19S = 4096
	}
	kb := uint64(c19S) / 1024
	for _, m := range cs.Muts {
		if m.Field == "main.slice_size" || m.Field == "main.slice_size_1pair" {
			kb = valueOf(m.Value, uint64(c19S), 0) / 1024
		}
	}
	if kb > 1<<20 {
		kb = 1 << 20
	}
	return int64(kb)
}

func runC19(args []string) error {
	c := newCommon("c19")
	worker := c.fs.Bool("worker", false, "batch worker mode")
	from := c.fs.Int("from", 0, "first case")
	to := c.fs.Int("to", 0, "one past the last case")
	c.fs.Parse(args)
	cases, err := loadC19Cases(c.in)
	if err != nil {
		return err
	}
	prot := c19Data()
	if *worker {
		workerSetup()
		lg, err := tracelog.Create(c.out)
		if err != nil {
			return err
		}
		defer lg.Close()
		a1, err := buildArch1(filepath.Join(c.dir, fmt.Sprintf("c19w1-%d", os.Getpid())), c19Names, prot, 2, "set")
		if err != nil {
			return err
		}
		dir := filepath.Join(c.dir, fmt.Sprintf("c19run-%d", os.Getpid()))
		defer os.RemoveAll(dir)
		for i := *from; i < *to && i < len(cases); i++ {
			fmt.Printf("START %d\n", i)
			ev, err := runC19Case(dir, cases[i], prot, a1)
			if err != nil {
				return err
			}
			ev["case"] = i
			lg.Emit(ev)
			lg.Flush()
			fmt.Printf("DONE %d\n", i)
		}
		return nil
	}
	parts, res, err := superviseBatch("c19", []string{"-in", c.in, "-dir", c.dir, "-seed", fmt.Sprint(c.seed), "-tier", c.tier}, len(cases), 20*time.Second, 3072, c.out+".part")
	if err != nil {
		return err
	}
	if len(res.harness) > 0 {
		return fmt.Errorf("batch worker died in harness code (not in the code under test): %v", res.harness)
	}
	lg, err := tracelog.Create(c.out)
	if err != nil {
		return err
	}
	defer lg.Close()
	seen := map[int]bool{}
	appendParts(lg, parts, func(line []byte) {
		var m tracelog.M
		if json.Unmarshal(line, &m) == nil {
			if ci, ok := m["case"].(float64); ok {
				if seen[int(ci)] {
					return
				}
				seen[int(ci)] = true
			}
			lg.Emit(m)
		}
	})
	for i, detail := range res.fatal {
		lg.Emit(tracelog.M{"ev": "mutant", "fmt": cases[i].Muts[0].Fmt, "muts": cases[i].Muts, "valid": cases[i].Valid, "data": cases[i].Data, "case": i,
			"fatal": true, "fatal_detail": detail, "timeout": res.timeout[i], "present_kb": 1, "declared_slice": "?", "declared_kb_capped": declaredKBOf(cases[i]),
			"oom": strings.Contains(detail, "out of memory") || strings.Contains(detail, "cannot allocate"), "nblocks": 0, "needs": 0,
			"verify": tracelog.M{"err": "fatal", "errtext": detail, "needed": false}, "repair": tracelog.M{"err": "fatal", "errtext": detail, "repaired": []string{}},
			"written": []string{}, "outside": []string{}, "restored": false, "ms": 0, "rss_growth_kb": 0, "crash_text": "fatal"})
	}
	if len(res.flaky) > 0 {
		fmt.Fprintf(os.Stderr, "note: %d case(s) killed a batch worker once but passed alone: %v\n", len(res.flaky), res.flaky)
	}
	return nil
}
