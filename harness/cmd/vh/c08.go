package main

import (
	"math/bits"
	"math/rand"
	"runtime"
	"sync"
	"sync/atomic"
	"time"

	"github.com/akalin/gopar/gf2"
	"github.com/akalin/gopar/gf2p16"

	"verif/harness/gfref"
	"verif/harness/tracelog"
)

func init() {
	register("c08", "record gf2p16 / gf2 calls (and closure sweeps) for the C08 trace judge", runC08)
}

func polyExps(p uint64) []int {
	out := []int{}
	for i := 0; i < 64; i++ {
		if p&(1<<uint(i)) != 0 {
			out = append(out, i)
		}
	}
	return out
}

// divGuarded runs Poly64.Div with a watchdog: a call that does not return is an observation.
func divGuarded(p, d uint64) (q, r uint64, timedOut bool) {
	type res struct{ q, r gf2.Poly64 }
	ch := make(chan res, 1)
	go func() {
		qq, rr := gf2.Poly64(p).Div(gf2.Poly64(d))
		ch <- res{qq, rr}
	}()
	select {
	case x := <-ch:
		return uint64(x.q), uint64(x.r), false
	case <-time.After(3 * time.Second):
		return 0, 0, true
	}
}

func runC08(args []string) error {
	c := newCommon("c08")
	mode := c.fs.String("mode", "full", "full | procs (reduced list, run under several GOMAXPROCS values: the tables built at package initialisation must not depend on it)")
	c.fs.Parse(args)
	lg, err := tracelog.Create(c.out)
	if err != nil {
		return err
	}
	defer lg.Close()
	rng := rand.New(rand.NewSource(c.seed))
	thorough := c.tier == "thorough"

	// ---- recorded calls: Times on all a x (basis, 0, 1, 0xFFFF, seeded / structured values)
	bs := []int{0, 1, 0xFFFF}
	for k := 0; k < 16; k++ {
		bs = append(bs, 1<<uint(k))
	}
	nrand := 4
	if thorough {
		nrand = 40
	}
	for i := 0; i < nrand; i++ {
		bs = append(bs, rng.Intn(65536))
	}
	logT, expT := gf2p16.VerifTables()
	procsMode := *mode == "procs"
	nprocs := runtime.GOMAXPROCS(0)
	for a := 0; a < 65536; a++ {
		if procsMode {
			// elements a chunked / parallel table initialisation would get wrong: chunk boundaries, the remainder at the top
			keep := a < 64 || a >= 65536-64 || a%61 == 0
			for w := 1; w < nprocs && !keep; w++ {
				for _, per := range []int{65536 / nprocs, 65535 / nprocs} {
					if d := a - w*per; d >= -2 && d <= 2 {
						keep = true
					}
				}
			}
			if !keep {
				continue
			}
		}
		b := append([]int{}, bs...)
		if a != 0 {
			// structured partners: log sums that land exactly on 65534, 65535, 65536
			la := int(logT[a-1])
			for _, tgt := range []int{65534, 65535, 65536, 0, 1} {
				lb := ((tgt-la)%65535 + 65535) % 65535
				b = append(b, int(expT[lb]))
			}
		}
		r := make([]int, len(b))
		for k, bb := range b {
			r[k] = int(gf2p16.T(a).Times(gf2p16.T(bb)))
		}
		lg.Emit(tracelog.M{"ev": "times", "a": a, "b": b, "r": r})
		// Div: same partners, zero removed
		var db, dr []int
		for _, bb := range b {
			if bb == 0 {
				continue
			}
			db = append(db, bb)
			dr = append(dr, int(gf2p16.T(a).Div(gf2p16.T(bb))))
		}
		lg.Emit(tracelog.M{"ev": "div", "a": a, "b": db, "r": dr})
	}
	if procsMode {
		for base := 1; base < 65536; base += 1024 {
			var as, rs []int
			for a := base; a < base+1024 && a < 65536; a++ {
				as = append(as, a)
				rs = append(rs, int(gf2p16.T(a).Inverse()))
			}
			lg.Emit(tracelog.M{"ev": "inv", "a": as, "r": rs})
		}
		return nil
	}
	// definitional sample (judged with the shift-xor product itself, not the tables)
	for i := 0; i < 200; i++ {
		a := rng.Intn(65536)
		b := make([]int, 8)
		r := make([]int, 8)
		for k := range b {
			b[k] = rng.Intn(65536)
			r[k] = int(gf2p16.T(a).Times(gf2p16.T(b[k])))
		}
		lg.Emit(tracelog.M{"ev": "timesdef", "a": a, "b": b, "r": r})
	}
	// ---- all inverses
	for base := 1; base < 65536; base += 1024 {
		var as, rs []int
		for a := base; a < base+1024 && a < 65536; a++ {
			as = append(as, a)
			rs = append(rs, int(gf2p16.T(a).Inverse()))
		}
		lg.Emit(tracelog.M{"ev": "inv", "a": as, "r": rs})
	}
	// ---- Pow: bases x exponent classes (p = hi*65536 + lo)
	exps := []uint32{0, 1, 2, 3, 65534, 65535, 65536, 65537, 2*65535 - 1, 2 * 65535, 2*65535 + 1,
		1<<31 - 1, 1 << 31, 1<<31 + 1, 1<<32 - 1, 1<<32 - 2, 65535 * 65537, 65535*65537 - 1, 3 * 65535, 0x10000 * 3}
	for i := 0; i < 6; i++ {
		exps = append(exps, rng.Uint32())
	}
	nb := 512
	if thorough {
		nb = 8192
	}
	bases := []int{0, 1, 2, 3, 0x8000, 0xFFFF, 0x100B}
	for len(bases) < nb {
		bases = append(bases, rng.Intn(65536))
	}
	if thorough {
		// every base with the boundary exponents
		bases = bases[:0]
		for a := 0; a < 65536; a++ {
			bases = append(bases, a)
		}
	}
	for _, a := range bases {
		hi := make([]int, len(exps))
		lo := make([]int, len(exps))
		r := make([]int, len(exps))
		for k, p := range exps {
			hi[k] = int(p >> 16)
			lo[k] = int(p & 0xFFFF)
			r[k] = int(gf2p16.T(a).Pow(p))
		}
		lg.Emit(tracelog.M{"ev": "pow", "a": a, "hi": hi, "lo": lo, "r": r})
	}
	for i := 0; i < 64; i++ {
		a := rng.Intn(65536)
		if i < 4 {
			a = i
		}
		ps := []int{0, 1, 2, 3, 4, 5, 7, 12, 31}
		r := make([]int, len(ps))
		for k, p := range ps {
			r[k] = int(gf2p16.T(a).Pow(uint32(p)))
		}
		lg.Emit(tracelog.M{"ev": "powsmall", "a": a, "p": ps, "r": r})
	}
	// ---- GF(2)[x]: structured and random 64-bit polynomials
	var polys []uint64
	polys = append(polys, 0, 1, 2, 3, 0x1100b, 1<<63, 1<<63|1, ^uint64(0), 1<<32, 1<<32-1, 0x8000000000000001, 0xAAAAAAAAAAAAAAAA, 0x5555555555555555)
	for k := 0; k < 64; k += 7 {
		polys = append(polys, 1<<uint(k), (1<<uint(k))-1)
	}
	np := 12
	if thorough {
		np = 60
	}
	for i := 0; i < np; i++ {
		v := rng.Uint64()
		polys = append(polys, v, v>>uint(rng.Intn(64)))
	}
	for _, p := range polys {
		for _, q := range polys {
			r := gf2.Poly64(p).Times(gf2.Poly64(q))
			lg.Emit(tracelog.M{"ev": "ptimes", "p": polyExps(p), "q": polyExps(q), "r": polyExps(uint64(r))})
			if q != 0 {
				qq, rr, to := divGuarded(p, q)
				lg.Emit(tracelog.M{"ev": "pdiv", "p": polyExps(p), "d": polyExps(q), "q": polyExps(qq), "r": polyExps(rr), "timeout": to})
			}
		}
	}
	// all polynomials of degree < 6 exhaustively
	for p := uint64(0); p < 64; p++ {
		for q := uint64(0); q < 64; q++ {
			r := gf2.Poly64(p).Times(gf2.Poly64(q))
			lg.Emit(tracelog.M{"ev": "ptimes", "p": polyExps(p), "q": polyExps(q), "r": polyExps(uint64(r))})
			if q != 0 {
				qq, rr, to := divGuarded(p, q)
				lg.Emit(tracelog.M{"ev": "pdiv", "p": polyExps(p), "d": polyExps(q), "q": polyExps(qq), "r": polyExps(rr), "timeout": to})
			}
		}
	}

	// ---- closure sweeps over all 2^32 pairs (nomination only; TLC judges what they nominate)
	//  times: Times(a,b) = Times(a, b without its lowest bit) xor Times(a, lowest bit of b)
	//  div:   Div(a,b)   = Times(a, Inverse(b))
	// Together with the basis products and all inverses judged by TLC above, closure implies
	// every product and quotient.  Additionally compared with the independent reference.
	const cap = 200
	var mism, mismDiv int64
	var mu sync.Mutex
	nominate := func(ev string, a, b int) {
		mu.Lock()
		defer mu.Unlock()
		if ev == "timesdef" {
			lg.Emit(tracelog.M{"ev": "timesdef", "a": a, "b": []int{b}, "r": []int{int(gf2p16.T(a).Times(gf2p16.T(b)))}, "nominated": true})
		} else {
			lg.Emit(tracelog.M{"ev": "div", "a": a, "b": []int{b}, "r": []int{int(gf2p16.T(a).Div(gf2p16.T(b)))}, "nominated": true})
		}
	}
	var wg sync.WaitGroup
	nw := runtime.GOMAXPROCS(0)
	for w := 0; w < nw; w++ {
		wg.Add(1)
		go func(w int) {
			defer wg.Done()
			for a := w; a < 65536; a += nw {
				ta := gf2p16.T(a)
				for b := 1; b < 65536; b++ {
					low := b & -b
					rest := b &^ low
					t := ta.Times(gf2p16.T(b))
					bad := false
					if rest != 0 && t != ta.Times(gf2p16.T(rest))^ta.Times(gf2p16.T(low)) {
						bad = true
					}
					if bits.OnesCount(uint(b)) <= 2 || (a^b)&0x3ff == 0 {
						// sampled direct comparison with the independent reference
						if uint16(t) != gfref.FMul16(uint16(a), uint16(b)) {
							bad = true
						}
					}
					if bad {
						if atomic.AddInt64(&mism, 1) <= cap {
							nominate("timesdef", a, b)
							nominate("timesdef", a, rest)
							nominate("timesdef", a, low)
						}
					}
					if ta.Div(gf2p16.T(b)) != ta.Times(gf2p16.T(b).Inverse()) {
						if atomic.AddInt64(&mismDiv, 1) <= cap {
							nominate("div", a, b)
						}
					}
				}
				if ta.Times(0) != 0 {
					if atomic.AddInt64(&mism, 1) <= cap {
						nominate("timesdef", a, 0)
					}
				}
			}
		}(w)
	}
	wg.Wait()
	nom := func(m int64) int64 {
		if m > cap {
			return cap
		}
		return m
	}
	// ---- Pow: every base with a few dozen LARGE exponents (generic 32-bit values and large multiples of 65535 plus a
	// small offset), compared with the independent square-and-multiply; mismatches are nominated as "pow" events
	var mismPow int64
	{
		var pexps []uint32
		for k := 0; k < 16; k++ {
			pexps = append(pexps, rng.Uint32()|0x80000000)
		}
		for k := 0; k < 12; k++ {
			pexps = append(pexps, uint32(40000+rng.Intn(25535))*65535+uint32(rng.Intn(7))-3)
		}
		pexps = append(pexps, 65535*65535+2, 65534*65535-1, 3122993826, 0xfffffffe, 0xffff0001)
		var wgp sync.WaitGroup
		for w := 0; w < nw; w++ {
			wgp.Add(1)
			go func(w int) {
				defer wgp.Done()
				for a := w; a < 65536; a += nw {
					for _, pe := range pexps {
						if uint16(gf2p16.T(a).Pow(pe)) != gfref.Pow16(uint16(a), uint64(pe)) {
							if atomic.AddInt64(&mismPow, 1) <= cap {
								mu.Lock()
								lg.Emit(tracelog.M{"ev": "pow", "a": a, "hi": []int{int(pe >> 16)}, "lo": []int{int(pe & 0xFFFF)}, "r": []int{int(gf2p16.T(a).Pow(pe))}, "nominated": true})
								mu.Unlock()
							}
						}
					}
				}
			}(w)
		}
		wgp.Wait()
		lg.Emit(tracelog.M{"ev": "sweep", "op": "pow_all_bases_large_exponents", "pairs_hi": 65536, "pairs_lo": len(pexps), "mismatches": mismPow, "nominated": nom(mismPow), "cap": cap})
	}
	lg.Emit(tracelog.M{"ev": "sweep", "op": "times_bilinear_closure", "pairs_hi": 65536, "pairs_lo": 65535, "mismatches": mism, "nominated": nom(mism), "cap": cap})
	lg.Emit(tracelog.M{"ev": "sweep", "op": "div_is_times_inverse", "pairs_hi": 65536, "pairs_lo": 65535, "mismatches": mismDiv, "nominated": nom(mismDiv), "cap": cap})
	return nil
}
