package main

import (
	"bytes"
	"fmt"
	"math/rand"
	"runtime"
	"runtime/debug"
	"sync"
	"sync/atomic"
	"syscall"

	"github.com/akalin/gopar/gf2p16"

	"verif/harness/gfref"
	"verif/harness/tracelog"
)

func init() {
	register("c09", "drive the bulk kernels on every dispatch path with guard-paged, canary-bracketed buffers", runC09)
}

const pageSize = 4096
const canaryLen = 160 * 1024 // larger than the largest overrun the 16-bit count bug can produce for the lengths used

// region is an mmapped area: [guard page][canary][payload window][canary][guard page].
type region struct {
	mem []byte
}

func newRegion(payload int) (*region, error) {
	size := pageSize + canaryLen + payload + canaryLen + pageSize
	size = (size + pageSize - 1) / pageSize * pageSize
	m, err := syscall.Mmap(-1, 0, size+2*pageSize, syscall.PROT_READ|syscall.PROT_WRITE, syscall.MAP_ANON|syscall.MAP_PRIVATE)
	if err != nil {
		return nil, err
	}
	return &region{mem: m}, nil
}

// guarded buffer layouts.  "end": the slice ends flush against an inaccessible page (canary before
// it).  "start": the slice starts flush after an inaccessible page (canary after it).
type gbuf struct {
	mem      []byte
	data     []byte
	canaryLo []byte
	canaryHi []byte
}

func allocGuarded(n int, layout string, off int) (*gbuf, error) {
	// total = guard | area | guard, area = canary + slack + n
	area := canaryLen + n + 64
	area = (area + pageSize - 1) / pageSize * pageSize
	m, err := syscall.Mmap(-1, 0, area+2*pageSize, syscall.PROT_READ|syscall.PROT_WRITE, syscall.MAP_ANON|syscall.MAP_PRIVATE)
	if err != nil {
		return nil, err
	}
	if err := syscall.Mprotect(m[:pageSize], syscall.PROT_NONE); err != nil {
		return nil, err
	}
	if err := syscall.Mprotect(m[pageSize+area:], syscall.PROT_NONE); err != nil {
		return nil, err
	}
	g := &gbuf{mem: m}
	inner := m[pageSize : pageSize+area]
	for i := range inner {
		inner[i] = 0xC5
	}
	if layout == "end" {
		// data ends exactly at the guard page when off == 0; off shifts it back (alignment variety)
		end := len(inner) - off
		g.data = inner[end-n : end : end]
		g.canaryLo = inner[:end-n]
		g.canaryHi = inner[end:]
	} else {
		g.data = inner[off : off+n : off+n]
		g.canaryLo = inner[:off]
		g.canaryHi = inner[off+n:]
	}
	return g, nil
}

func (g *gbuf) canariesOK() bool {
	for _, b := range g.canaryLo {
		if b != 0xC5 {
			return false
		}
	}
	for _, b := range g.canaryHi {
		if b != 0xC5 {
			return false
		}
	}
	return true
}

func (g *gbuf) free() { syscall.Munmap(g.mem) }

var pathNames = []string{"go", "asm", "ssse3", "goT", "exported-ssse3", "exported-nossse3"}

func callKernel(path int, op string, c gf2p16.T, in, out []byte) (fault bool, msg string) {
	defer func() {
		if r := recover(); r != nil {
			fault = true
			msg = fmt.Sprint(r)
		}
	}()
	debug.SetPanicOnFault(true)
	switch path {
	case 0, 1, 2, 3:
		vp := []gf2p16.VerifPath{gf2p16.VerifPathGeneric, gf2p16.VerifPathScalarAsm, gf2p16.VerifPathSSSE3, gf2p16.VerifPathGenericT}[path]
		if op == "mul" {
			gf2p16.VerifMulByteSliceLE(vp, c, in, out)
		} else {
			gf2p16.VerifMulAndAddByteSliceLE(vp, c, in, out)
		}
	case 4, 5:
		old := gf2p16.VerifSetSSSE3(path == 4)
		defer gf2p16.VerifSetSSSE3(old)
		if op == "mul" {
			gf2p16.MulByteSliceLE(c, in, out)
		} else {
			gf2p16.MulAndAddByteSliceLE(c, in, out)
		}
	}
	return false, ""
}

func runC09(args []string) error {
	c := newCommon("c09")
	mode := c.fs.String("mode", "full", "full | procs (reduced case list, run under several GOMAXPROCS values: package initialisation must not depend on it)")
	c.fs.Parse(args)
	lg, err := tracelog.Create(c.out)
	if err != nil {
		return err
	}
	defer lg.Close()
	rng := rand.New(rand.NewSource(c.seed*59 + 1))
	thorough := c.tier == "thorough"
	if !gf2p16.VerifCPUHasSSSE3() {
		return fmt.Errorf("CPU without SSSE3: the ssse3 path cannot be driven here")
	}
	var lens []int
	for l := 0; l <= 320; l += 2 {
		lens = append(lens, l)
	}
	big := []int{65534, 65536, 65538, 131070, 131072, 131074}
	// >= 65536 SIMD blocks of 32 bytes in one call (a 16-bit loop counter would wrap): 2 MiB and beyond
	huge := []int{2097152, 2097152 + 70, 4194304 + 34}
	consts := []int{0, 1, 2, 3, 0x8000, 0xFFFF}
	caseNo := 0
	oneCase := func(path int, op string, cst, n, inOff, outOff int, layout string) error {
		var gin, gout *gbuf
		if layout == "inplace" {
			// in and out are the SAME slice (Matrix.scaleRow multiplies a row in place): out[i] = c * (old in[i])
			g1, err := allocGuarded(n, "end", inOff&^1)
			if err != nil {
				return err
			}
			defer g1.free()
			gin, gout = g1, g1
		} else if layout == "adj" || layout == "adjrev" {
			// the two buffers TOUCH: consecutive halves of one allocation (rows of a flat matrix, the two halves of a
			// work buffer) - disjoint, so neither may be treated as the other's alias
			g2, err := allocGuarded(2*n, "end", inOff&^1)
			if err != nil {
				return err
			}
			defer g2.free()
			a, b := g2.data[:n:n], g2.data[n:2*n:2*n]
			if layout == "adjrev" {
				a, b = b, a
			}
			gin = &gbuf{data: a, canaryLo: g2.canaryLo, canaryHi: g2.canaryHi}
			gout = &gbuf{data: b, canaryLo: g2.canaryLo, canaryHi: g2.canaryHi}
		} else {
			var err error
			if gin, err = allocGuarded(n, layout, inOff); err != nil {
				return err
			}
			if gout, err = allocGuarded(n, layout, outOff); err != nil {
				return err
			}
			defer gin.free()
			defer gout.free()
		}
		rng.Read(gin.data)
		rng.Read(gout.data)
		// structured inputs (every third case): zero words, zero 8-byte fields inside 16-byte records, zero half-blocks,
		// runs of 0x0001 / 0xFFFF - a kernel must not treat "looks empty" as "is empty"
		caseNo++
		switch caseNo % 9 {
		case 0: // sparse: most words zero
			for i := 0; i+1 < n; i += 2 {
				if rng.Intn(4) != 0 {
					gin.data[i], gin.data[i+1] = 0, 0
				}
			}
		case 3: // 16-byte records whose first 8 bytes are zero
			for i := 0; i < n; i++ {
				if i%16 < 8 {
					gin.data[i] = 0
				}
			}
		case 6: // 16-byte records whose last 8 bytes are zero; words 0x0001 and 0xFFFF sprinkled in
			for i := 0; i < n; i++ {
				if i%16 >= 8 {
					gin.data[i] = 0
				}
			}
			for k := 0; k < 4 && n >= 2; k++ {
				i := 2 * rng.Intn(n/2)
				if k%2 == 0 {
					gin.data[i], gin.data[i+1] = 1, 0
				} else {
					gin.data[i], gin.data[i+1] = 0xFF, 0xFF
				}
			}
		}
		inCopy := append([]byte{}, gin.data...)
		old := words(gout.data)
		fault, msg := callKernel(path, op, gf2p16.T(cst), gin.data, gout.data)
		win, wold, wout := words(inCopy), old, words(gout.data)
		restOK := true
		if n > 4096 {
			// long buffers: TLC judges three windows (start, around the 64 KiB boundary, end); the
			// rest is compared here with T.Times (bound to the field by C08) and reported as a flag
			nw := n / 2
			keep := map[int]bool{}
			for _, ctr := range []int{0, 32768, nw - 1, nw / 2, 1 << 20, 1<<20 + 35, 1 << 21} {
				for k := ctr - 40; k <= ctr+40; k++ {
					if k >= 0 && k < nw {
						keep[k] = true
					}
				}
			}
			var a, b, cc []int
			for k := 0; k < nw; k++ {
				if keep[k] {
					a, b, cc = append(a, win[k]), append(b, wold[k]), append(cc, wout[k])
					continue
				}
				want := int(gf2p16.T(cst).Times(gf2p16.T(win[k])))
				if op == "muladd" {
					want ^= wold[k]
				}
				if !fault && want != wout[k] {
					restOK = false
				}
			}
			win, wold, wout = a, b, cc
		}
		ev := tracelog.M{"ev": "kern", "path": pathNames[path], "op": op, "c": cst, "len": n, "inoff": inOff, "outoff": outOff, "layout": layout,
			"fault": fault, "faultmsg": msg, "canary_ok": gin.canariesOK() && gout.canariesOK(), "in_unchanged": layout == "inplace" || bytes.Equal(inCopy, gin.data),
			"in": win, "old": wold, "out": wout, "rest_ok": restOK, "procs": runtime.GOMAXPROCS(0)}
		lg.Emit(ev)
		return nil
	}
	if *mode == "procs" {
		// the constants a GOMAXPROCS-dependent (chunked, parallel) table initialisation would get wrong are at the
		// chunk boundaries and in the remainder at the top; plus the usual suspects and seeded ones
		pc := []int{0, 1, 2, 3, 0x8000}
		for k := 0; k < 32; k++ {
			pc = append(pc, 0xFFFF-k)
		}
		np := runtime.GOMAXPROCS(0)
		for w := 1; w < np; w++ {
			b := w * (65536 / np)
			pc = append(pc, b-1, b, b+1)
		}
		for k := 0; k < 8; k++ {
			pc = append(pc, rng.Intn(65536))
		}
		for path := 0; path < 6; path++ {
			for _, op := range []string{"mul", "muladd"} {
				for ci, cst := range pc {
					n := []int{2, 30, 32, 34, 64, 66, 320, 16}[ci%8]
					if err := oneCase(path, op, cst, n, ci%3, (ci/3)%3, []string{"end", "start"}[ci%2]); err != nil {
						return err
					}
				}
			}
		}
		return nil
	}
	for path := 0; path < 6; path++ {
		for _, op := range []string{"mul", "muladd"} {
			for _, n := range lens {
				// all 256 offset pairs around the SIMD block boundaries in the thorough tier, a seeded 16 otherwise
				var pairs [][2]int
				nearBlock := n%32 <= 2 || n%32 >= 30 || n <= 4
				if thorough && nearBlock && path <= 2 {
					for a := 0; a < 16; a++ {
						for b := 0; b < 16; b++ {
							pairs = append(pairs, [2]int{a, b})
						}
					}
				} else {
					k := 4
					if nearBlock {
						k = 10
					}
					if path >= 3 {
						k = 2
					}
					pairs = append(pairs, [2]int{0, 0})
					for i := 0; i < k; i++ {
						pairs = append(pairs, [2]int{rng.Intn(16), rng.Intn(16)})
					}
				}
				for pi, pr := range pairs {
					cst := consts[(pi+n/2)%len(consts)]
					if pi%2 == 1 {
						cst = rng.Intn(65536)
					}
					layout := []string{"end", "start"}[(pi+n/2)%2]
					if err := oneCase(path, op, cst, n, pr[0], pr[1], layout); err != nil {
						return err
					}
				}
			}
			// touching buffers, in both orders, at every length up to 320 and at the big ones
			for _, n := range lens {
				for li, layout := range []string{"adj", "adjrev"} {
					if n == 0 {
						continue
					}
					if err := oneCase(path, op, []int{3, 0xFFFF, 1 + rng.Intn(65535)}[(n/2+li)%3], n, 2*((n/2)%8), 0, layout); err != nil {
						return err
					}
				}
			}
			if op == "mul" {
				// in place, at every length (the way the matrix code scales a row)
				for _, n := range append(append([]int{}, lens...), big...) {
					if n == 0 {
						continue
					}
					if err := oneCase(path, op, []int{2, 0xFFFF, 1 + rng.Intn(65535)}[(n/2)%3], n, 2*((n/2)%8), 0, "inplace"); err != nil {
						return err
					}
				}
			}
			for _, n := range big {
				for _, layout := range []string{"end", "start", "adj", "adjrev"} {
					if err := oneCase(path, op, 1+rng.Intn(65535), n, 0, 0, layout); err != nil {
						return err
					}
				}
			}
			if path <= 2 || thorough {
				for hi, n := range huge {
					if hi < 2 || thorough {
						if err := oneCase(path, op, 1+rng.Intn(65535), n, 0, 0, []string{"end", "start"}[hi%2]); err != nil {
							return err
						}
					}
				}
			}
		}
	}
	// ---- closure sweep: every constant x every word value, every lane position, on every path,
	// against T.Times (itself bound by C08) and the independent reference; nominates only.
	const cap = 100
	in, err := allocGuarded(131072, "end", 0)
	if err != nil {
		return err
	}
	for i := 0; i < 65536; i++ {
		in.data[2*i] = byte(i)
		in.data[2*i+1] = byte(i >> 8)
	}
	for path := 0; path < 3; path++ {
		for _, op := range []string{"mul", "muladd"} {
			var mism, faults int64
			var mu sync.Mutex
			var wg sync.WaitGroup
			nw := runtime.GOMAXPROCS(0)
			stride := 1
			if !thorough {
				stride = 4 // quick: every 4th constant (seeded phase), all word values
			}
			phase := int(c.seed) % stride
			for w := 0; w < nw; w++ {
				wg.Add(1)
				go func(w int) {
					defer wg.Done()
					out, err := allocGuarded(131072, "end", 0)
					if err != nil {
						return
					}
					defer out.free()
					for cst := phase + w*stride; cst < 65536; cst += nw * stride {
						for i := range out.data {
							out.data[i] = 0x5A
						}
						fault, _ := callKernel(path, op, gf2p16.T(cst), in.data, out.data)
						if fault {
							atomic.AddInt64(&faults, 1)
							continue
						}
						for v := 0; v < 65536; v++ {
							got := uint16(out.data[2*v]) | uint16(out.data[2*v+1])<<8
							want := uint16(gf2p16.T(cst).Times(gf2p16.T(v)))
							if op == "muladd" {
								want ^= 0x5A5A
							}
							if got != want || (v&0xff == cst&0xff && gfref.FMul16(uint16(cst), uint16(v)) != uint16(gf2p16.T(cst).Times(gf2p16.T(v)))) {
								if atomic.AddInt64(&mism, 1) <= cap {
									mu.Lock()
									old := 0
									if op == "muladd" {
										old = 0x5A5A
									}
									lg.Emit(tracelog.M{"ev": "kern", "path": pathNames[path], "op": op, "c": cst, "len": 2, "inoff": 0, "outoff": 0,
										"layout": "sweep", "fault": false, "faultmsg": "", "canary_ok": true, "in_unchanged": true,
										"in": []int{v}, "old": []int{old}, "out": []int{int(got)}, "rest_ok": true, "nominated": true})
									mu.Unlock()
								}
							}
						}
					}
				}(w)
			}
			wg.Wait()
			nom := mism
			if nom > cap {
				nom = cap
			}
			lg.Emit(tracelog.M{"ev": "sweep", "path": pathNames[path], "op": op, "constants": 65536 / stride, "words": 65536,
				"mismatches": mism, "nominated": nom, "cap": cap, "faults": faults})
		}
	}
	in.free()
	// ---- light closure sweep over EVERY constant (both tiers): 1024 word values per constant - every word with only a
	// low byte, every word with only a high byte, and 512 seeded ones - on the three kernel paths; a kernel that treats
	// particular constants specially is seen whatever the seed; nominates only.
	{
		lin, err := allocGuarded(2048, "end", 0)
		if err != nil {
			return err
		}
		for i := 0; i < 256; i++ {
			lin.data[2*i], lin.data[2*i+1] = byte(i), 0
			lin.data[512+2*i], lin.data[512+2*i+1] = 0, byte(i)
		}
		rng.Read(lin.data[1024:])
		for path := 0; path < 3; path++ {
			for _, op := range []string{"mul", "muladd"} {
				var mism int64
				var mu sync.Mutex
				var wg sync.WaitGroup
				nw := runtime.GOMAXPROCS(0)
				for w := 0; w < nw; w++ {
					wg.Add(1)
					go func(w int) {
						defer wg.Done()
						out, err := allocGuarded(2048, "end", 0)
						if err != nil {
							return
						}
						defer out.free()
						for cst := w; cst < 65536; cst += nw {
							for i := range out.data {
								out.data[i] = 0xA5
							}
							if fault, _ := callKernel(path, op, gf2p16.T(cst), lin.data, out.data); fault {
								atomic.AddInt64(&mism, 1)
								continue
							}
							for v := 0; v < 1024; v++ {
								x := uint16(lin.data[2*v]) | uint16(lin.data[2*v+1])<<8
								got := uint16(out.data[2*v]) | uint16(out.data[2*v+1])<<8
								want := uint16(gf2p16.T(cst).Times(gf2p16.T(x)))
								if op == "muladd" {
									want ^= 0xA5A5
								}
								if got != want {
									if atomic.AddInt64(&mism, 1) <= cap {
										mu.Lock()
										old := 0
										if op == "muladd" {
											old = 0xA5A5
										}
										lg.Emit(tracelog.M{"ev": "kern", "path": pathNames[path], "op": op, "c": cst, "len": 2, "inoff": 0, "outoff": 0,
											"layout": "sweep-light", "fault": false, "faultmsg": "", "canary_ok": true, "in_unchanged": true,
											"in": []int{int(x)}, "old": []int{old}, "out": []int{int(got)}, "rest_ok": true, "nominated": true})
										mu.Unlock()
									}
								}
							}
						}
					}(w)
				}
				wg.Wait()
				nom := mism
				if nom > cap {
					nom = cap
				}
				lg.Emit(tracelog.M{"ev": "sweep", "path": pathNames[path], "op": op, "constants": 65536, "words": 1024,
					"mismatches": mism, "nominated": nom, "cap": cap, "faults": 0})
			}
		}
		lin.free()
	}
	return nil
}
