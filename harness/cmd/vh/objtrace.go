package main

// objtrace: EXTENSION X01 - the typestate of the exported par2.Decoder object.
//
// Drives the real par2.Decoder (public API, real directory) through seeded random and
// systematic call sequences - methods in any order, any number of times, with the
// directory changing between the calls - and records one event per call (at its return:
// the linearisation point of a sequential library) with its result and the projected
// directory state.  spec/Trace_Object.tla replays the events through the actions of
// spec/Par2Object.tla.  Nothing is decided here.

import (
	"fmt"
	"math/rand"
	"os"
	"path/filepath"
	"sort"

	"github.com/akalin/gopar/par2"

	"verif/harness/sandbox"
	"verif/harness/tracelog"
)

func init() {
	register("objtrace", "random / systematic call sequences on the real par2.Decoder object (extension X01)", runObjTrace)
}

// the damage menu (same shapes as MC_Par2's, plus random ones)
func objMenu(rng *rand.Rand, a *arch, f string) []byte {
	d := a.Prot[f]
	cp := append([]byte{}, d...)
	switch rng.Intn(10) {
	case 0:
		return nil // absent
	case 1:
		return []byte{}
	case 2:
		if len(cp) > 0 {
			i := rng.Intn(len(cp))
			cp[i] = (cp[i] + 1) % 3
		}
		return cp
	case 3: // insert
		i := rng.Intn(len(cp) + 1)
		return append(append(append([]byte{}, cp[:i]...), byte(rng.Intn(3))), cp[i:]...)
	case 4: // delete
		if len(cp) > 0 {
			i := rng.Intn(len(cp))
			return append(append([]byte{}, cp[:i]...), cp[i+1:]...)
		}
		return cp
	case 5: // truncate
		if len(cp) > 0 {
			return cp[:rng.Intn(len(cp))]
		}
		return cp
	case 6:
		return append(cp, 0)
	case 7: // another file's content
		o := a.Names[rng.Intn(len(a.Names))]
		return append([]byte{}, a.Prot[o]...)
	default:
		return cp // restore
	}
}

type objState struct {
	dec *par2.Decoder
	dlg *recDelegate
}

func guard(f func() error) (errClass, errText string) {
	defer func() {
		if r := recover(); r != nil {
			errClass, errText = "panic", fmt.Sprint(r)
		}
	}()
	err := f()
	if err != nil && err.Error() == "no file integrity info" {
		return "nofileinfo", err.Error()
	}
	return classifyPar2Err(err), errStr(err)
}

func runObjTrace(args []string) error {
	c := newCommon("objtrace")
	n := c.fs.Int("n", 300, "number of random traces")
	length := c.fs.Int("len", 14, "events per random trace")
	c.fs.Parse(args)
	var cases p2Cases
	if err := readJSONFile(c.in, &cases); err != nil {
		return err
	}
	lg, err := tracelog.Create(c.out)
	if err != nil {
		return err
	}
	defer lg.Close()
	in := cases.Instance
	prot := map[string][]byte{}
	var names []string
	for nm := range in.Prot {
		names = append(names, nm)
	}
	sort.Strings(names)
	for _, nm := range names {
		prot[nm] = intsToBytes(in.Prot[nm])
	}
	r := 0
	for _, v := range in.Vols {
		r += len(v)
	}
	a, err := buildArch(filepath.Join(c.dir, "pristine-"+in.Inst), names, prot, in.S, r, 2, "set")
	if err != nil {
		return err
	}
	a.Others["notes.txt"] = []byte("unrelated file\n")
	volFile := map[int]string{}
	layoutOK := true
	for i, ex := range in.Vols {
		f := a.volByExps(ex)
		if f == "" {
			layoutOK = false
		}
		volFile[i+1] = f
	}
	orderOK := fmt.Sprint(a.Order) == fmt.Sprint(in.Names)
	lg.Emit(tracelog.M{"ev": "instance", "inst": in.Inst, "s": in.S, "names": in.Names, "prot": in.Prot, "vols": in.Vols,
		"order_ok": orderOK, "layout_ok": layoutOK})
	if !orderOK || !layoutOK {
		return fmt.Errorf("instance %s does not match what gopar wrote", in.Inst)
	}
	work := filepath.Join(c.dir, "obj-"+in.Inst)
	index := filepath.Join(work, a.Index)
	allVols := func() []string {
		var v []string
		for i := 1; i <= len(in.Vols); i++ {
			v = append(v, volFile[i])
		}
		return v
	}
	rng := rand.New(rand.NewSource(c.seed*7919 + 17))
	gs := []int{1, 2, 3, 8}

	// one step of a trace; returns the event
	step := func(st *objState, kind string, arg interface{}, g int) tracelog.M {
		ev := tracelog.M{"ev": kind, "f": "", "v": []int{}, "vol": 0, "dc": false, "err": "", "errtext": "",
			"usable": 0, "unusable": 0, "pusable": 0, "punusable": 0, "repaired": []string{}, "outside": []string{}, "g": g,
			"alive": st.dec != nil}
		var before sandbox.Snapshot
		if kind == "repair" || kind == "loadfile" || kind == "loadparity" || kind == "counts" || kind == "new" {
			before, _ = sandbox.Take(work)
		}
		switch kind {
		case "set":
			sv := arg.([2]interface{})
			f := sv[0].(string)
			var b []byte
			if sv[1] != nil {
				b = sv[1].([]byte)
			}
			p := filepath.Join(work, filepath.FromSlash(f))
			if b == nil {
				os.Remove(p)
				ev["v"] = []int{-1}
			} else {
				sandbox.WriteFile(p, b)
				ev["v"] = bytesToInts(b)
			}
			ev["f"] = f
		case "delvol":
			v := arg.(int)
			os.Remove(filepath.Join(work, volFile[v]))
			ev["vol"] = v
		case "addvol":
			v := arg.(int)
			sandbox.WriteFile(filepath.Join(work, volFile[v]), a.VolB[volFile[v]])
			ev["vol"] = v
		case "new":
			st.dlg = &recDelegate{}
			ec, et := guard(func() error {
				d, err := par2.NewDecoder(st.dlg, index, g)
				if err == nil {
					st.dec = d
				}
				return err
			})
			ev["err"], ev["errtext"] = ec, et
		case "loadfile":
			ec, et := guard(func() error { return st.dec.LoadFileData() })
			ev["err"], ev["errtext"] = ec, et
		case "loadparity":
			ec, et := guard(func() error { return st.dec.LoadParityData() })
			ev["err"], ev["errtext"] = ec, et
		case "counts":
			ec, et := guard(func() error {
				sc := st.dec.ShardCounts()
				ev["usable"], ev["unusable"], ev["pusable"], ev["punusable"] = sc.UsableDataShardCount, sc.UnusableDataShardCount, sc.UsableParityShardCount, sc.UnusableParityShardCount
				return nil
			})
			ev["err"], ev["errtext"] = ec, et
		case "repair":
			dc := arg.(bool)
			ev["dc"] = dc
			var rep []string
			ec, et := guard(func() error {
				var err error
				rep, err = st.dec.Repair(dc)
				return err
			})
			ev["err"], ev["errtext"] = ec, et
			out := []string{}
			for _, p := range rep {
				out = append(out, filepath.ToSlash(relTo(work, p)))
			}
			ev["repaired"] = out
		}
		if before != nil {
			after, _ := sandbox.Take(work)
			d := a.diffOp(work, before, after, nil)
			ev["outside"] = d.Outside
		}
		ev["post"] = diskToJSON(a.readDisk(work))
		pv := []int{}
		for i := 1; i <= len(in.Vols); i++ {
			if b, err := os.ReadFile(filepath.Join(work, volFile[i])); err == nil && string(b) == string(a.VolB[volFile[i]]) {
				pv = append(pv, i)
			}
		}
		ev["postvols"] = pv
		return ev
	}
	reset := func() (*objState, error) {
		if err := a.materialise(work, a.Prot, allVols()); err != nil {
			return nil, err
		}
		lg.Emit(tracelog.M{"ev": "reset", "f": "", "v": []int{}, "vol": 0, "dc": false, "err": "", "errtext": "",
			"usable": 0, "unusable": 0, "pusable": 0, "punusable": 0, "repaired": []string{}, "outside": []string{}, "g": 0, "alive": false,
			"post": diskToJSON(a.Prot), "postvols": func() []int {
				v := []int{}
				for i := 1; i <= len(in.Vols); i++ {
					v = append(v, i)
				}
				return v
			}()})
		return &objState{}, nil
	}
	methods := []string{"loadfile", "loadparity", "counts", "repair", "repairdc"}
	call := func(st *objState, m string, g int) {
		switch m {
		case "repair":
			lg.Emit(step(st, "repair", false, g))
		case "repairdc":
			lg.Emit(step(st, "repair", true, g))
		default:
			lg.Emit(step(st, m, nil, g))
		}
	}

	// (1) systematic: every sequence of up to 3 method calls after New, on four directory states
	dirStates := []func(){
		func() {},
		func() { os.Remove(filepath.Join(work, filepath.FromSlash(a.Names[0]))) },
		func() {
			for _, nm := range a.Names {
				os.Remove(filepath.Join(work, filepath.FromSlash(nm)))
			}
		},
		func() {
			os.Remove(filepath.Join(work, filepath.FromSlash(a.Names[len(a.Names)-1])))
			os.Remove(filepath.Join(work, volFile[1]))
		},
	}
	var seqs [][]string
	var gen func(prefix []string, k int)
	gen = func(prefix []string, k int) {
		if len(prefix) > 0 {
			seqs = append(seqs, append([]string{}, prefix...))
		}
		if k == 0 {
			return
		}
		for _, m := range methods {
			gen(append(prefix, m), k-1)
		}
	}
	gen(nil, 3)
	for di := range dirStates {
		for si, seq := range seqs {
			st, err := reset()
			if err != nil {
				return err
			}
			g := gs[(di+si)%len(gs)]
			// the directory state is reached by logged "set"/"delvol" events
			switch di {
			case 1:
				lg.Emit(step(st, "set", [2]interface{}{a.Names[0], nil}, g))
			case 2:
				for _, nm := range a.Names {
					lg.Emit(step(st, "set", [2]interface{}{nm, nil}, g))
				}
			case 3:
				lg.Emit(step(st, "set", [2]interface{}{a.Names[len(a.Names)-1], nil}, g))
				lg.Emit(step(st, "delvol", 1, g))
			}
			lg.Emit(step(st, "new", nil, g))
			for _, m := range seq {
				call(st, m, g)
			}
		}
	}

	// (2) random: methods and directory changes interleaved
	for t := 0; t < *n; t++ {
		st, err := reset()
		if err != nil {
			return err
		}
		g := gs[rng.Intn(len(gs))]
		for k := 0; k < *length; k++ {
			if st.dec == nil {
				if rng.Intn(3) > 0 {
					lg.Emit(step(st, "new", nil, g))
					continue
				}
			}
			x := rng.Intn(100)
			switch {
			case x < 22:
				f := a.Names[rng.Intn(len(a.Names))]
				b := objMenu(rng, a, f)
				var bi interface{}
				if b != nil {
					bi = b
				}
				lg.Emit(step(st, "set", [2]interface{}{f, bi}, g))
			case x < 32:
				v := 1 + rng.Intn(len(in.Vols))
				if _, err := os.Stat(filepath.Join(work, volFile[v])); err == nil {
					lg.Emit(step(st, "delvol", v, g))
				} else {
					lg.Emit(step(st, "addvol", v, g))
				}
			case x < 36:
				lg.Emit(step(st, "new", nil, g))
			default:
				if st.dec == nil {
					continue
				}
				call(st, methods[rng.Intn(len(methods))], g)
			}
		}
	}
	return nil
}
