package main

import (
	"bytes"
	"fmt"
	"io/ioutil"
	"os"
	"path/filepath"
	"sort"
	"strings"
	"sync"

	"github.com/akalin/gopar/par1"
	"github.com/klauspost/reedsolomon"

	"verif/harness/sandbox"
	"verif/harness/tracelog"
)

func classifyPar1Err(err error) string {
	if err == nil {
		return ""
	}
	if err == reedsolomon.ErrTooFewShards {
		return "notenough"
	}
	msg := err.Error()
	switch {
	case strings.Contains(msg, "singular"):
		return "singular"
	case os.IsNotExist(err):
		return "notexist"
	}
	return "other"
}

type logIO1 struct {
	mu    sync.Mutex
	inner par1.VerifFileIO
	calls []ioCall
}

func newLogIO1() *logIO1 { return &logIO1{inner: par1.VerifDefaultFileIO()} }

func (l *logIO1) ReadFile(path string) ([]byte, error) {
	b, err := l.inner.ReadFile(path)
	l.mu.Lock()
	l.calls = append(l.calls, ioCall{"read", path, errStr(err), len(b)})
	l.mu.Unlock()
	return b, err
}

func (l *logIO1) WriteFile(path string, data []byte) error {
	err := l.inner.WriteFile(path, data)
	l.mu.Lock()
	l.calls = append(l.calls, ioCall{"write", path, errStr(err), len(data)})
	l.mu.Unlock()
	return err
}

func (l *logIO1) writes() []string {
	var out []string
	for _, c := range l.calls {
		if c.Kind == "write" {
			out = append(out, c.Path)
		}
	}
	return out
}

type arch1 struct {
	Names  []string // entry order
	Prot   map[string][]byte
	NVols  int
	Index  string
	IndexB []byte
	VolB   map[int][]byte // volume number -> bytes
	Others map[string][]byte
	Base   string
	// what par1.Create did to the directory (relative paths)
	CreateCreated, CreateChanged []string
}

func volName(base string, v int) string { return fmt.Sprintf("%s.p%02d", base, v) }

func buildArch1(dir string, names []string, prot map[string][]byte, nvols int, base string) (*arch1, error) {
	if err := sandbox.Fresh(dir); err != nil {
		return nil, err
	}
	var paths []string
	for _, n := range names {
		p := filepath.Join(dir, n)
		if err := ioutil.WriteFile(p, prot[n], 0644); err != nil {
			return nil, err
		}
		paths = append(paths, p)
	}
	index := filepath.Join(dir, base+".par")
	sandbox.WriteFile(filepath.Join(dir, "bystander.txt"), []byte("bystander"))
	// bystanders whose names are derived from the names Create reads and writes: Create must leave them alone
	derived := []string{base + ".par.tmp", base + ".par~", base + ".par.bak", base + ".p01.tmp", base + ".tmp"}
	if len(names) > 0 {
		derived = append(derived, names[0]+".tmp", names[0]+"~", names[len(names)-1]+".bak")
	}
	{
		isProt := map[string]bool{}
		for _, n := range names {
			isProt[n] = true
		}
		var keep []string
		for _, dn := range derived {
			if !isProt[dn] {
				keep = append(keep, dn)
			}
		}
		derived = keep
	}
	for _, dn := range derived {
		sandbox.WriteFile(filepath.Join(dir, dn), []byte("derived-name bystander "+dn))
	}
	defer func() {
		for _, dn := range derived {
			os.Remove(filepath.Join(dir, dn))
		}
	}()
	snapBefore, _ := sandbox.Take(dir)
	if err := par1.Create(index, paths, par1.CreateOptions{NumParityFiles: nvols}); err != nil {
		return nil, &createRefused{err}
	}
	snapAfter, _ := sandbox.Take(dir)
	os.Remove(filepath.Join(dir, "bystander.txt"))
	cr, del, chg, tch := sandbox.Diff(snapBefore, snapAfter)
	a := &arch1{CreateCreated: sandbox.NonNil(cr), CreateChanged: sandbox.NonNil(dirsOut(snapAfter, append(append(del, chg...), tch...))),
		Names: names, Prot: prot, NVols: nvols, Index: base + ".par", VolB: map[int][]byte{}, Others: map[string][]byte{}, Base: base}
	var err error
	if a.IndexB, err = ioutil.ReadFile(index); err != nil {
		return nil, err
	}
	for v := 1; v <= nvols; v++ {
		b, err := ioutil.ReadFile(filepath.Join(dir, volName(base, v)))
		if err != nil {
			return nil, fmt.Errorf("volume %d not written: %v", v, err)
		}
		a.VolB[v] = b
	}
	return a, nil
}

func (a *arch1) materialise(dir string, disk map[string][]byte, vols []int) error {
	if err := sandbox.Fresh(dir); err != nil {
		return err
	}
	for _, n := range a.Names {
		if d, ok := disk[n]; ok && d != nil {
			if err := ioutil.WriteFile(filepath.Join(dir, n), d, 0644); err != nil {
				return err
			}
		}
	}
	if err := ioutil.WriteFile(filepath.Join(dir, a.Index), a.IndexB, 0644); err != nil {
		return err
	}
	for _, v := range vols {
		if err := ioutil.WriteFile(filepath.Join(dir, volName(a.Base, v)), a.VolB[v], 0644); err != nil {
			return err
		}
	}
	for p, b := range a.Others {
		if _, isProt := a.Prot[p]; isProt {
			// harness invariant: a bystander must never be written over a protected file (that would be damage
			// the harness did not account for, and a false alarm)
			return fmt.Errorf("harness: bystander %q collides with a protected file", p)
		}
		if err := sandbox.WriteFile(filepath.Join(dir, filepath.FromSlash(p)), b); err != nil {
			return err
		}
	}
	return nil
}

func (a *arch1) readDisk(dir string) map[string][]byte {
	out := map[string][]byte{}
	for _, n := range a.Names {
		b, err := ioutil.ReadFile(filepath.Join(dir, n))
		if err != nil {
			out[n] = nil
			continue
		}
		if b == nil {
			b = []byte{}
		}
		out[n] = b
	}
	return out
}

type verify1Obs struct {
	Err, ErrText, Panic                  string
	Usable, Unusable, PUsable, PUnusable int
	Needed, Possible, AllData            bool
}

func runVerify1(index string, all bool, viaHook bool, lio *logIO1) (o verify1Obs) {
	defer func() {
		if r := recover(); r != nil {
			o = verify1Obs{Err: "panic", Panic: fmt.Sprint(r)}
		}
	}()
	var res par1.VerifyResult
	var err error
	opts := par1.VerifyOptions{VerifyAllData: all}
	if viaHook {
		res, err = par1.VerifVerify(lio, index, opts)
	} else {
		res, err = par1.Verify(index, opts)
	}
	o.Err, o.ErrText = classifyPar1Err(err), errStr(err)
	if err == nil {
		c := res.FileCounts
		o.Usable, o.Unusable, o.PUsable, o.PUnusable = c.UsableDataFileCount, c.UnusableDataFileCount, c.UsableParityFileCount, c.UnusableParityFileCount
		o.Needed, o.Possible, o.AllData = c.RepairNeeded(), c.RepairPossible(), res.AllDataOk
	}
	return o
}

func runRepair1(index string, dc bool, viaHook bool, lio *logIO1) (o repairObs) {
	defer func() {
		if r := recover(); r != nil {
			o = repairObs{Err: "panic", Panic: fmt.Sprint(r), Repaired: []string{}}
		}
	}()
	var res par1.RepairResult
	var err error
	opts := par1.RepairOptions{DoubleCheck: dc}
	if viaHook {
		res, err = par1.VerifRepair(lio, index, opts)
	} else {
		res, err = par1.Repair(index, opts)
	}
	o.Err, o.ErrText = classifyPar1Err(err), errStr(err)
	dir := filepath.Dir(index)
	o.Repaired = []string{}
	for _, p := range res.RepairedPaths {
		o.Repaired = append(o.Repaired, filepath.ToSlash(relTo(dir, p)))
	}
	return o
}

func (a *arch1) diffOp(dir string, before, after sandbox.Snapshot, writes []string) opDiff {
	created, deleted, changed, touched := sandbox.Diff(before, after)
	prot := map[string]bool{}
	for _, n := range a.Names {
		prot[n] = true
	}
	d := opDiff{Writes: []string{}, Outside: []string{}}
	seen := map[string]bool{}
	add := func(p string) {
		p = filepath.ToSlash(p)
		if seen[p] {
			return
		}
		seen[p] = true
		if prot[p] {
			d.Writes = append(d.Writes, p)
		} else {
			d.Outside = append(d.Outside, p)
		}
	}
	for _, l := range [][]string{created, deleted, changed, touched} {
		for _, p := range l {
			if e, ok := after[p]; ok && e.IsDir {
				if eb, ok2 := before[p]; ok2 && eb.IsDir {
					continue
				}
			}
			add(p)
		}
	}
	for _, w := range writes {
		add(relTo(dir, w))
	}
	sort.Strings(d.Writes)
	sort.Strings(d.Outside)
	return d
}

// par1Scenario runs Verify (optionally with the full parity check), Repair and the follow-up
// Verify/Repair on the directory state (disk, vols) and emits the events.
func (a *arch1) runOps(lg *tracelog.Log, dir string, disk map[string][]byte, vols []int, ops []string, extra tracelog.M, hookSel int) error {
	index := filepath.Join(dir, a.Index)
	bad := []int{}
	for i, n := range a.Names {
		if disk[n] == nil || !bytes.Equal(disk[n], a.Prot[n]) {
			bad = append(bad, i+1)
		}
	}
	sort.Ints(vols)
	noAfter := tracelog.M{"verify": tracelog.M{"err": "", "needed": false, "unusable": 0},
		"repair": tracelog.M{"err": "", "repaired": []string{}, "writes": []string{}, "outside": []string{}}}
	for oi, op := range ops {
		if err := a.materialise(dir, disk, vols); err != nil {
			return err
		}
		before, err := sandbox.Take(dir)
		if err != nil {
			return err
		}
		ev := tracelog.M{"ev": "p1op", "op": op, "n": len(a.Names), "bad": bad, "vols": vols, "nvols": a.NVols,
			"untouched": len(bad) == 0 && len(vols) == a.NVols}
		for k, v := range extra {
			ev[k] = v
		}
		viaHook := (hookSel+oi)%2 == 0
		lio := newLogIO1()
		switch op {
		case "verify", "verifyall":
			vo := runVerify1(index, op == "verifyall", viaHook, lio)
			after, _ := sandbox.Take(dir)
			d := a.diffOp(dir, before, after, lio.writes())
			ev["res"] = tracelog.M{"err": vo.Err, "errtext": vo.ErrText + vo.Panic, "usable": vo.Usable, "unusable": vo.Unusable,
				"pusable": vo.PUsable, "punusable": vo.PUnusable, "needed": vo.Needed, "possible": vo.Possible, "alldata": vo.AllData, "repaired": []string{}}
			ev["writes"], ev["outside"] = d.Writes, d.Outside
			ev["restored"], ev["changed_ok"], ev["listed_ok"], ev["kept_or_restored"] = len(bad) == 0, len(d.Writes) == 0, true, true
			ev["after"] = noAfter
			ev["post"] = diskToJSON(a.readDisk(dir))
		case "repair", "repairdc":
			ro := runRepair1(index, op == "repairdc", viaHook, lio)
			after, _ := sandbox.Take(dir)
			d := a.diffOp(dir, before, after, lio.writes())
			post := a.readDisk(dir)
			restored, kept := true, true
			for _, n := range a.Names {
				eq := post[n] != nil && bytes.Equal(post[n], a.Prot[n])
				if !eq {
					restored = false
				}
				same := (post[n] == nil && disk[n] == nil) || (post[n] != nil && disk[n] != nil && bytes.Equal(post[n], disk[n]))
				if !same && !eq {
					kept = false
				}
			}
			listed := map[string]bool{}
			for _, p := range ro.Repaired {
				listed[p] = true
			}
			changedOK, listedOK := true, true
			for _, w := range d.Writes {
				if post[w] == nil || !bytes.Equal(post[w], a.Prot[w]) || !listed[w] {
					changedOK = false
				}
			}
			for p := range listed {
				o, isProt := a.Prot[p]
				if !isProt || post[p] == nil || !bytes.Equal(post[p], o) {
					listedOK = false
				}
			}
			ev["res"] = tracelog.M{"err": ro.Err, "errtext": ro.ErrText + ro.Panic, "repaired": ro.Repaired, "usable": 0, "unusable": 0,
				"pusable": 0, "punusable": 0, "needed": false, "possible": false, "alldata": false}
			ev["writes"], ev["outside"] = d.Writes, d.Outside
			ev["restored"], ev["changed_ok"], ev["listed_ok"], ev["kept_or_restored"] = restored, changedOK, listedOK, kept
			ev["post"] = diskToJSON(post)
			aft := noAfter
			if ro.Err == "" {
				v2 := runVerify1(index, false, false, nil)
				b3, _ := sandbox.Take(dir)
				lio3 := newLogIO1()
				r3 := runRepair1(index, op == "repairdc", true, lio3)
				a3, _ := sandbox.Take(dir)
				d3 := a.diffOp(dir, b3, a3, lio3.writes())
				aft = tracelog.M{"verify": tracelog.M{"err": v2.Err, "needed": v2.Needed, "unusable": v2.Unusable},
					"repair": tracelog.M{"err": r3.Err, "repaired": r3.Repaired, "writes": d3.Writes, "outside": d3.Outside}}
			}
			ev["after"] = aft
		}
		lg.Emit(ev)
	}
	return nil
}
