package main

import (
	"bufio"
	"bytes"
	"encoding/binary"
	"encoding/json"
	"fmt"
	"io/ioutil"
	"math/rand"
	"os"
	"path/filepath"
	"sort"
	"strings"
	"time"

	"verif/harness/refpar1"
	"verif/harness/refpar2"
	"verif/harness/sandbox"
	"verif/harness/tracelog"
)

func init() {
	register("c13", "corrupt / truncate / interrupt valid PAR1 and PAR2 sets and run the real Verify/Repair in batch worker processes", runC13)
}

type c13Desc struct {
	Fmt      string   `json:"fmt"`
	Kind     string   `json:"kind"`
	File     string   `json:"file"`
	Files    []string `json:"files"`
	Pkt      int      `json:"pkt"`
	Region   string   `json:"region"`
	Bit      string   `json:"bit"`
	Cut      string   `json:"cut"`
	Complete int      `json:"complete"`
	Data     string   `json:"data"`
	// PAR1 and byte-level fuzz descriptors
	Off  int `json:"off"`
	Mask int `json:"mask"`
}

type c13World struct {
	names []string
	prot  map[string][]byte
	a2    *arch
	a1    *arch1
	small *c13World // same shape (three files, three recovery blocks) but only three slices: repairable with every file gone
}

func newC13World(dir string) (*c13World, error) {
	w := &c13World{names: []string{"a.bin", "b.bin", "c.bin"}, prot: map[string][]byte{}}
	rng := rand.New(rand.NewSource(4242))
	for i, n := range w.names {
		d := make([]byte, []int{40, 25, 16}[i])
		rng.Read(d)
		if n == "b.bin" { // ends in three zero bytes inside its last (partial) slice: data state "zerotail" drops two of them
			d[len(d)-4], d[len(d)-3], d[len(d)-2], d[len(d)-1] = 0x33, 0, 0, 0
		}
		w.prot[n] = d
	}
	var err error
	if w.a2, err = buildArch(filepath.Join(dir, "w2"), w.names, w.prot, 16, 3, 1, "set"); err != nil {
		return nil, err
	}
	if w.a1, err = buildArch1(filepath.Join(dir, "w1"), w.names, w.prot, 2, "set"); err != nil {
		return nil, err
	}
	sm := &c13World{names: w.names, prot: map[string][]byte{}, a1: w.a1}
	for i, n := range sm.names {
		d := make([]byte, []int{10, 7, 3}[i])
		rng.Read(d)
		if n == "b.bin" {
			d[len(d)-4], d[len(d)-3], d[len(d)-2], d[len(d)-1] = 0x33, 0, 0, 0
		}
		sm.prot[n] = d
	}
	if sm.a2, err = buildArch(filepath.Join(dir, "w2small"), sm.names, sm.prot, 16, 3, 1, "set"); err != nil {
		return nil, err
	}
	w.small = sm
	return w, nil
}

func bitOf(class string) byte {
	switch class {
	case "lo":
		return 1
	case "mid":
		return 1 << 3
	}
	return 1 << 7
}

// par2Files returns the pristine bytes of index, vol1, vol2 by model name.
func (w *c13World) par2Files() map[string][]byte {
	out := map[string][]byte{"index": w.a2.IndexB}
	for _, v := range w.a2.VolFiles {
		ex := w.a2.VolExps[v]
		if len(ex) == 1 {
			out["vol1"] = w.a2.VolB[v]
		} else {
			out["vol2"] = w.a2.VolB[v]
		}
	}
	return out
}

func (w *c13World) par2RealName(model string) string {
	if model == "index" {
		return w.a2.Index
	}
	for _, v := range w.a2.VolFiles {
		if (model == "vol1") == (len(w.a2.VolExps[v]) == 1) {
			return v
		}
	}
	return ""
}

// applyPar2 returns the file contents (nil = absent) after the descriptor.
func (w *c13World) applyPar2(d c13Desc, rng *rand.Rand) (map[string][]byte, error) {
	files := w.par2Files()
	out := map[string][]byte{}
	for k, v := range files {
		out[k] = append([]byte{}, v...)
	}
	pk := func(f string) []refpar2.Packet {
		p, _ := refpar2.Tokenize(files[f])
		return p
	}
	switch d.Kind {
	case "lenswallow":
		// the length field of packet Pkt grows by the length of the packet behind it: still a multiple of 4, still
		// inside the file - a reader that trusts it and skips ahead loses the intact packet that follows
		p := pk(d.File)
		if d.Pkt >= 1 && d.Pkt < len(p) {
			q, nx := p[d.Pkt-1], p[d.Pkt]
			binary.LittleEndian.PutUint64(out[d.File][q.Off+8:], q.Len+nx.Len)
		}
	case "magiclen":
		// sixteen bytes inside a packet body are overwritten with the packet magic followed by an extreme length:
		// garbage that LOOKS like the start of a packet to a reader that searches for the magic
		b := out[d.File]
		if d.Off >= 64 && d.Off+80 <= len(b) {
			copy(b[d.Off:], refpar2.Magic)
			lens := []uint64{0x7ffffffffffffffc, 1 << 63, 1<<63 - 4, ^uint64(0) - 3, uint64(len(b)-d.Off) + 4, 64, 1 << 32, 0x7ffffffffffffff0}
			binary.LittleEndian.PutUint64(b[d.Off+8:], lens[d.Mask%len(lens)])
		}
	case "flip":
		p := pk(d.File)
		if d.Pkt < 1 || d.Pkt > len(p) {
			return nil, fmt.Errorf("descriptor packet %d out of range for %s (%d packets)", d.Pkt, d.File, len(p))
		}
		q := p[d.Pkt-1]
		lo, hi := 0, 0
		switch d.Region {
		case "magic":
			lo, hi = 0, 8
		case "lenlo":
			lo, hi = 8, 9
		case "lenhi":
			lo, hi = 15, 16
		case "hash":
			lo, hi = 16, 32
		case "setid":
			lo, hi = 32, 48
		case "type":
			lo, hi = 48, 64
		case "body":
			lo, hi = 64, int(q.Len)
		}
		pos := lo
		switch d.Bit {
		case "mid":
			pos = (lo + hi) / 2
		case "hi":
			pos = hi - 1
		}
		out[d.File][q.Off+pos] ^= bitOf(d.Bit)
	case "trunc":
		p := pk(d.File)
		q := p[d.Pkt-1]
		cut := q.Off
		switch d.Cut {
		case "header8":
			cut += 8
		case "header16":
			cut += 16
		case "header40":
			cut += 40
		case "header63":
			cut += 63
		case "body1":
			cut += 65
		case "bodymid":
			cut += 64 + (int(q.Len)-64)/2
		case "bodylast":
			cut += int(q.Len) - 1
		}
		out[d.File] = out[d.File][:cut]
	case "empty":
		out[d.File] = []byte{}
	case "garbage":
		rng.Read(out[d.File])
	case "delete":
		out[d.File] = nil
	case "deleteset":
		for _, f := range d.Files {
			out[f] = nil
		}
	case "prefix":
		order := []string{"index", "vol1", "vol2"}
		for i, f := range order {
			switch {
			case i < d.Complete:
			case i == d.Complete:
				p := pk(f)
				if d.Pkt <= len(p) {
					out[f] = out[f][:p[d.Pkt-1].Off]
				}
			default:
				out[f] = nil
			}
		}
	case "bytes": // byte-level fuzz: xor mask at offset
		if d.Off < len(out[d.File]) {
			out[d.File][d.Off] ^= byte(d.Mask)
		}
	case "cut": // byte-level truncation
		if d.Off < len(out[d.File]) {
			out[d.File] = out[d.File][:d.Off]
		}
	default:
		return nil, fmt.Errorf("unknown descriptor kind %q", d.Kind)
	}
	return out, nil
}

func (w *c13World) runPar2(dir string, d c13Desc, rng *rand.Rand) (tracelog.M, error) {
	files, err := w.applyPar2(d, rng)
	if err != nil {
		return nil, err
	}
	if err := sandbox.Fresh(dir); err != nil {
		return nil, err
	}
	disk := map[string][]byte{}
	for _, n := range w.names {
		disk[n] = w.prot[n]
	}
	if d.Data == "one" {
		disk["b.bin"] = nil
	}
	if d.Data == "zerotail" {
		// two of the file's trailing zero bytes are gone: every slice is still in place (the last one with its
		// zero padding at end of file), yet the file is not the original
		b := w.prot["b.bin"]
		disk["b.bin"] = append([]byte{}, b[:len(b)-2]...)
	}
	if d.Data == "empty" {
		disk["b.bin"] = []byte{} // emptied, not deleted
	}
	if d.Data == "allgone" {
		for _, n := range w.names {
			disk[n] = nil
		}
	}
	for _, n := range w.names {
		if disk[n] != nil {
			ioutil.WriteFile(filepath.Join(dir, n), disk[n], 0644)
		}
	}
	ioutil.WriteFile(filepath.Join(dir, "bystander.txt"), []byte("x"), 0644)
	indexIntact := false
	intactExps := map[int]bool{}
	for model, b := range files {
		if b == nil {
			continue
		}
		real := w.par2RealName(model)
		ioutil.WriteFile(filepath.Join(dir, real), b, 0644)
		if model == "index" {
			indexIntact = bytes.Equal(b, w.a2.IndexB)
			continue
		}
		for _, p := range refpar2.ScanPackets(b) {
			if p.Type == refpar2.TypeRecv {
				if e, data, ok := refpar2.ParseRecv(p.Body); ok && len(data) == w.a2.S {
					intactExps[int(e)] = true
				}
			}
		}
	}
	ps := &protSet{S: w.a2.S, Order: w.a2.Order, Data: w.prot}
	tr := computeTruth(ps, disk)
	index := filepath.Join(dir, w.a2.Index)
	before, _ := sandbox.Take(dir)
	t0 := time.Now()
	g := []int{1, 2, 3, 8}[(d.Pkt+len(d.File)+len(d.Kind)+len(d.Data))%4] // the goroutine count is part of the configuration
	vo := runVerify(index, g, false, nil)
	mid, _ := sandbox.Take(dir)
	ro := runRepair(index, g, d.Pkt%2 == 0, false, nil)
	after, _ := sandbox.Take(dir)
	ms := time.Since(t0).Milliseconds()
	// what changed
	post := w.a2.readDisk(dir)
	changedOK, restored := true, true
	outside := []string{}
	cr, del, chg, tch := sandbox.Diff(before, mid)
	for _, p := range append(append(append(cr, del...), chg...), tch...) {
		if p != "." {
			outside = append(outside, "verify:"+p)
		}
	}
	listed := map[string]bool{}
	for _, p := range ro.Repaired {
		listed[p] = true
	}
	cr, del, chg, tch = sandbox.Diff(mid, after)
	for _, p := range append(append(append(cr, del...), chg...), tch...) {
		if p == "." {
			continue
		}
		if orig, isProt := w.prot[p]; isProt {
			if post[p] == nil || !bytes.Equal(post[p], orig) || !listed[p] {
				changedOK = false
			}
		} else {
			outside = append(outside, "repair:"+p)
		}
	}
	for _, n := range w.names {
		if post[n] == nil || !bytes.Equal(post[n], w.prot[n]) {
			restored = false
		}
	}
	exps := []int{}
	for e := range intactExps {
		exps = append(exps, e)
	}
	sort.Ints(exps)
	return tracelog.M{"ev": "corrupt", "fmt": "par2", "desc": d, "index_intact": indexIntact, "index_present": files["index"] != nil,
		"intact_exps": exps, "n": tr.N, "nocc": tr.NOcc, "nsurv": tr.NSurv,
		"verify":     tracelog.M{"err": vo.Err, "errtext": tail(vo.ErrText+vo.Panic, 100), "usable": vo.Usable, "unusable": vo.Unusable, "pusable": vo.PUsable, "needed": vo.Needed},
		"repair":     tracelog.M{"err": ro.Err, "errtext": tail(ro.ErrText+ro.Panic, 100), "repaired": ro.Repaired},
		"changed_ok": changedOK, "restored": restored, "outside": outside, "fatal": false, "ms": ms, "rss_kb": peakRSSKB()}, nil
}

func (w *c13World) runPar1(dir string, d c13Desc, rng *rand.Rand) (tracelog.M, error) {
	files := map[string][]byte{"index": append([]byte{}, w.a1.IndexB...), "vol1": append([]byte{}, w.a1.VolB[1]...), "vol2": append([]byte{}, w.a1.VolB[2]...)}
	switch d.Kind {
	case "bytes":
		if d.Off < len(files[d.File]) {
			files[d.File][d.Off] ^= byte(d.Mask)
		}
	case "cut":
		if d.Off < len(files[d.File]) {
			files[d.File] = files[d.File][:d.Off]
		}
	case "empty":
		files[d.File] = []byte{}
	case "garbage":
		rng.Read(files[d.File])
	case "delete":
		files[d.File] = nil
	case "deleteset":
		for _, f := range d.Files {
			files[f] = nil
		}
	case "prefix":
		order := []string{"index", "vol1", "vol2"}
		for i, f := range order {
			switch {
			case i < d.Complete:
			case i == d.Complete:
				if d.Off < len(files[f]) {
					files[f] = files[f][:d.Off]
				}
			default:
				files[f] = nil
			}
		}
	default:
		return nil, fmt.Errorf("unknown PAR1 descriptor kind %q", d.Kind)
	}
	if err := sandbox.Fresh(dir); err != nil {
		return nil, err
	}
	disk := map[string][]byte{}
	for _, n := range w.names {
		disk[n] = w.prot[n]
	}
	if d.Data == "one" {
		disk["b.bin"] = nil
	}
	if d.Data == "zerotail" {
		// two of the file's trailing zero bytes are gone: every slice is still in place (the last one with its
		// zero padding at end of file), yet the file is not the original
		b := w.prot["b.bin"]
		disk["b.bin"] = append([]byte{}, b[:len(b)-2]...)
	}
	if d.Data == "empty" {
		disk["b.bin"] = []byte{}
	}
	if d.Data == "allgone" {
		for _, n := range w.names {
			disk[n] = nil
		}
	}
	nIntactData := 0
	for _, n := range w.names {
		if disk[n] != nil {
			ioutil.WriteFile(filepath.Join(dir, n), disk[n], 0644)
			if bytes.Equal(disk[n], w.prot[n]) {
				nIntactData++
			}
		}
	}
	real := map[string]string{"index": w.a1.Index, "vol1": volName("set", 1), "vol2": volName("set", 2)}
	intactVols := 0
	for model, b := range files {
		if b == nil {
			continue
		}
		ioutil.WriteFile(filepath.Join(dir, real[model]), b, 0644)
		if model != "index" {
			v := refpar1.Tokenize(b)
			if v.OK && v.Header.ControlHash == v.Header.ControlActual && len(v.Data) > 0 {
				intactVols++
			}
		}
	}
	index := filepath.Join(dir, w.a1.Index)
	before, _ := sandbox.Take(dir)
	t0 := time.Now()
	vo := runVerify1(index, d.Off%2 == 0, false, nil)
	mid, _ := sandbox.Take(dir)
	ro := runRepair1(index, d.Off%3 == 0, false, nil)
	after, _ := sandbox.Take(dir)
	ms := time.Since(t0).Milliseconds()
	post := w.a1.readDisk(dir)
	changedOK, restored := true, true
	outside := []string{}
	cr, del, chg, tch := sandbox.Diff(before, mid)
	for _, p := range append(append(append(cr, del...), chg...), tch...) {
		if p != "." {
			outside = append(outside, "verify:"+p)
		}
	}
	listed := map[string]bool{}
	for _, p := range ro.Repaired {
		listed[p] = true
	}
	cr, del, chg, tch = sandbox.Diff(mid, after)
	for _, p := range append(append(append(cr, del...), chg...), tch...) {
		if p == "." {
			continue
		}
		if orig, isProt := w.prot[p]; isProt {
			if post[p] == nil || !bytes.Equal(post[p], orig) || !listed[p] {
				changedOK = false
			}
		} else {
			outside = append(outside, "repair:"+p)
		}
	}
	for _, n := range w.names {
		if post[n] == nil || !bytes.Equal(post[n], w.prot[n]) {
			restored = false
		}
	}
	return tracelog.M{"ev": "corrupt", "fmt": "par1", "desc": d, "index_intact": bytes.Equal(files["index"], w.a1.IndexB), "index_present": files["index"] != nil,
		"intact_vols": intactVols, "intact_data": nIntactData, "n": len(w.names), "intact_exps": []int{}, "nocc": 0, "nsurv": 0,
		"verify":     tracelog.M{"err": vo.Err, "errtext": tail(vo.ErrText+vo.Panic, 100), "usable": vo.Usable, "unusable": vo.Unusable, "pusable": vo.PUsable, "needed": vo.Needed},
		"repair":     tracelog.M{"err": ro.Err, "errtext": tail(ro.ErrText+ro.Panic, 100), "repaired": ro.Repaired},
		"changed_ok": changedOK, "restored": restored, "outside": outside, "fatal": false, "ms": ms, "rss_kb": peakRSSKB()}, nil
}

func loadC13Cases(path string) ([]c13Desc, error) {
	f, err := os.Open(path)
	if err != nil {
		return nil, err
	}
	defer f.Close()
	var out []c13Desc
	sc := bufio.NewScanner(f)
	sc.Buffer(make([]byte, 1<<20), 1<<24)
	for sc.Scan() {
		var d c13Desc
		if err := json.Unmarshal(sc.Bytes(), &d); err != nil {
			return nil, err
		}
		if d.Fmt == "" {
			d.Fmt = "par2"
		}
		if d.Files == nil {
			d.Files = []string{}
		}
		out = append(out, d)
	}
	return out, sc.Err()
}

func runC13(args []string) error {
	c := newCommon("c13")
	worker := c.fs.Bool("worker", false, "batch worker mode")
	from := c.fs.Int("from", 0, "first case")
	to := c.fs.Int("to", 0, "one past the last case")
	c.fs.Parse(args)
	if *worker {
		workerSetup()
		cases, err := loadC13Cases(c.in)
		if err != nil {
			return err
		}
		lg, err := tracelog.Create(c.out)
		if err != nil {
			return err
		}
		defer lg.Close()
		w, err := newC13World(filepath.Join(c.dir, fmt.Sprintf("c13w-%d", os.Getpid())))
		if err != nil {
			return err
		}
		dir := filepath.Join(c.dir, fmt.Sprintf("c13run-%d", os.Getpid()))
		defer os.RemoveAll(dir)
		for i := *from; i < *to && i < len(cases); i++ {
			fmt.Printf("START %d\n", i)
			rng := rand.New(rand.NewSource(c.seed + int64(i)))
			var ev tracelog.M
			var err error
			if cases[i].Fmt == "par1" {
				ev, err = w.runPar1(dir, cases[i], rng)
			} else {
				if cases[i].Data == "allgone" && w.small != nil {
					ev, err = w.small.runPar2(dir, cases[i], rng) // every file gone, yet within capacity
				} else {
					ev, err = w.runPar2(dir, cases[i], rng)
				}
			}
			if err != nil {
				return err
			}
			ev["case"] = i
			lg.Emit(ev)
			lg.Flush() // a later death must not lose this event
			fmt.Printf("DONE %d\n", i)
		}
		return nil
	}
	// ---------------- supervisor: complete the case list (PAR1 + byte-level fuzz), then run batches
	cases, err := loadC13Cases(c.in)
	if err != nil {
		return err
	}
	rng := rand.New(rand.NewSource(c.seed*83 + 17))
	w, err := newC13World(filepath.Join(c.dir, "c13sup"))
	if err != nil {
		return err
	}
	thorough := c.tier == "thorough"
	// PAR1: every header field x {lowest, middle, highest bit}, every entry field, truncation at every field
	// boundary, sampled payload; emptied / garbage / deleted; prefixes of Create's writes
	p1 := map[string][]byte{"index": w.a1.IndexB, "vol1": w.a1.VolB[1], "vol2": w.a1.VolB[2]}
	for _, f := range []string{"index", "vol1", "vol2"} {
		b := p1[f]
		fieldOffs := []int{0, 8, 16, 32, 48, 56, 64, 72, 80, 88, 96, 96 + 8, 96 + 16, 96 + 24, 96 + 40, 96 + 56}
		for _, o := range fieldOffs {
			for _, m := range []int{1, 8, 128} {
				for _, dd := range []string{"none", "one"} {
					cases = append(cases, c13Desc{Fmt: "par1", Kind: "bytes", File: f, Off: o, Mask: m, Data: dd})
					cases = append(cases, c13Desc{Fmt: "par1", Kind: "bytes", File: f, Off: o + 7, Mask: m, Data: dd})
				}
			}
			cases = append(cases, c13Desc{Fmt: "par1", Kind: "cut", File: f, Off: o, Data: "one"})
			cases = append(cases, c13Desc{Fmt: "par1", Kind: "cut", File: f, Off: o + 3, Data: "none"})
		}
		nfuzz := 20
		if thorough {
			nfuzz = 300
		}
		for k := 0; k < nfuzz; k++ {
			cases = append(cases, c13Desc{Fmt: "par1", Kind: "bytes", File: f, Off: rng.Intn(len(b)), Mask: 1 << uint(rng.Intn(8)), Data: []string{"none", "one"}[k%2]})
			cases = append(cases, c13Desc{Fmt: "par1", Kind: "cut", File: f, Off: rng.Intn(len(b)), Data: []string{"none", "one"}[k%2]})
		}
		for _, kd := range []string{"empty", "garbage", "delete"} {
			cases = append(cases, c13Desc{Fmt: "par1", Kind: kd, File: f, Data: "one"}, c13Desc{Fmt: "par1", Kind: kd, File: f, Data: "none"})
		}
	}
	for m := 0; m < 3; m++ {
		f := []string{"index", "vol1", "vol2"}[m]
		for _, o := range []int{0, 50, 96, 200, len(p1[f]) - 1, len(p1[f])} {
			cases = append(cases, c13Desc{Fmt: "par1", Kind: "prefix", File: f, Complete: m, Off: o, Data: "one"})
		}
	}
	cases = append(cases, c13Desc{Fmt: "par1", Kind: "deleteset", Files: []string{"vol1", "vol2"}, File: "many", Data: "one"})
	cases = append(cases, c13Desc{Fmt: "par1", Kind: "deleteset", Files: []string{"vol1", "vol2"}, File: "many", Data: "none"})
	// PAR2 byte-level fuzz (every byte of every header in the thorough tier)
	p2 := w.par2Files()
	for _, f := range []string{"index", "vol1", "vol2"} {
		b := p2[f]
		nfuzz := 60
		if thorough {
			nfuzz = 1500
		}
		for k := 0; k < nfuzz; k++ {
			cases = append(cases, c13Desc{Fmt: "par2", Kind: "bytes", File: f, Off: rng.Intn(len(b)), Mask: 1 << uint(rng.Intn(8)), Data: []string{"none", "one"}[k%2]})
			cases = append(cases, c13Desc{Fmt: "par2", Kind: "cut", File: f, Off: rng.Intn(len(b)), Data: []string{"none", "one"}[k%2]})
		}
	}
	// PAR2: length fields that swallow the next packet; garbage that looks like a packet start (magic + extreme length)
	for _, f := range []string{"index", "vol1", "vol2"} {
		b := p2[f]
		pkts, _ := refpar2.Tokenize(b)
		for k := 1; k < len(pkts); k++ {
			cases = append(cases, c13Desc{Fmt: "par2", Kind: "lenswallow", File: f, Pkt: k, Data: []string{"none", "one"}[k%2]})
		}
		for m := 0; m < 8; m++ {
			for _, q := range pkts {
				if int(q.Len) >= 64+96 && (m+q.Off/4)%3 == 0 {
					cases = append(cases, c13Desc{Fmt: "par2", Kind: "magiclen", File: f, Off: q.Off + 64 + 4*(m%4), Mask: m, Data: []string{"none", "one"}[m%2]})
				}
			}
			cases = append(cases, c13Desc{Fmt: "par2", Kind: "magiclen", File: f, Off: 64 + rng.Intn(len(b)-160), Mask: m, Data: "one"})
		}
	}
	casesPath := c.out + ".cases"
	cf, err := os.Create(casesPath)
	if err != nil {
		return err
	}
	bw := bufio.NewWriter(cf)
	for _, d := range cases {
		b, _ := json.Marshal(d)
		bw.Write(b)
		bw.WriteByte('\n')
	}
	bw.Flush()
	cf.Close()
	defer os.Remove(casesPath)
	parts, res, err := superviseBatch("c13", []string{"-in", casesPath, "-dir", c.dir, "-seed", fmt.Sprint(c.seed), "-tier", c.tier}, len(cases), 30*time.Second, 4096, c.out+".part")
	if err != nil {
		return err
	}
	if len(res.harness) > 0 {
		return fmt.Errorf("batch worker died in harness code (not in the code under test): %v", res.harness)
	}
	lg, err := tracelog.Create(c.out)
	if err != nil {
		return err
	}
	defer lg.Close()
	seen := map[int]bool{}
	appendParts(lg, parts, func(line []byte) {
		var m tracelog.M
		if json.Unmarshal(line, &m) == nil {
			if ci, ok := m["case"].(float64); ok {
				if seen[int(ci)] {
					return
				}
				seen[int(ci)] = true
			}
			lg.Emit(m)
		}
	})
	for i, detail := range res.fatal {
		if cases[i].Files == nil {
			cases[i].Files = []string{} // never JSON null: the trace specification reads every field
		}
		lg.Emit(tracelog.M{"ev": "corrupt", "fmt": cases[i].Fmt, "desc": cases[i], "case": i, "fatal": true, "fatal_detail": detail,
			"index_intact": false, "index_present": false, "intact_exps": []int{}, "intact_vols": 0, "intact_data": 0, "n": 0, "nocc": 0, "nsurv": 0,
			"verify": tracelog.M{"err": "fatal", "errtext": detail, "usable": 0, "unusable": 0, "pusable": 0, "needed": false},
			"repair": tracelog.M{"err": "fatal", "errtext": detail, "repaired": []string{}}, "changed_ok": true, "restored": false, "outside": []string{}, "ms": 0, "rss_kb": 0})
	}
	if len(res.flaky) > 0 {
		fmt.Fprintf(os.Stderr, "note: %d case(s) killed a batch worker once but passed alone: %v\n", len(res.flaky), res.flaky)
	}
	_ = strings.TrimSpace
	return nil
}
