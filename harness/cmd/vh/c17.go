package main

import (
	"bufio"
	"bytes"
	"crypto/sha256"
	"encoding/hex"
	"encoding/json"
	"fmt"
	"io/ioutil"
	"math/rand"
	"os"
	"os/exec"
	"path/filepath"
	"sort"
	"strings"
	"sync"

	"github.com/akalin/gopar/gf2p16"
	"github.com/akalin/gopar/par1"
	"github.com/akalin/gopar/par2"

	"verif/harness/sandbox"
	"verif/harness/tracelog"
)

func init() {
	register("c17", "run Create under TLC-enumerated irrelevant variation (order, goroutines, cwd, spelling, lib/CLI, kernel path)", runC17)
}

type c17Cfg struct {
	Format string `json:"format"`
	Set    int    `json:"set"`
	Perm   string `json:"perm"`
	G      int    `json:"g"`
	Cwd    string `json:"cwd"`
	Spell  string `json:"spell"`
	Via    string `json:"via"`
	Kernel string `json:"kernel"`
	Rep    int    `json:"rep"`
	Prior  string `json:"prior"` // fresh | stale (the directory already holds longer files under the names Create will write)
}

type c17Set struct {
	names []string // relative to the set directory (PAR1: no sub-directories)
	data  map[string][]byte
	links map[string]string // name -> target: the input is a symbolic link to another input
	again bool              // the first input is listed a second time at the end of the command line
	s, r  int
}

func c17Sets(format string) []c17Set {
	mk := func(names []string, sizes []int, s, r int, seed byte) c17Set {
		st := c17Set{names: names, data: map[string][]byte{}, s: s, r: r}
		for i, n := range names {
			d := make([]byte, sizes[i])
			for k := range d {
				d[k] = byte(k*7+i*13) ^ seed ^ byte(k>>8)
			}
			st.data[n] = d
		}
		return st
	}
	// set 4: one of the inputs is a symbolic link to another input (both are protected, under their own names)
	linked := mk([]string{"a.dat", "b.dat", "link.dat"}, []int{300, 5000, 0}, 64, 3, 4)
	delete(linked.data, "link.dat")
	linked.links = map[string]string{"link.dat": "a.dat"}
	if format == "par" {
		linked.s = 0
		return []c17Set{
			mk([]string{"alpha.bin", "beta.bin", "gamma.bin"}, []int{100, 33, 700}, 0, 2, 1),
			mk([]string{"x.dat", "y.dat", "z.dat", "w.dat"}, []int{1, 17000, 0, 300}, 0, 3, 2),
			mk([]string{"only.one"}, []int{5000}, 0, 1, 3),
			linked,
		}
	}
	return []c17Set{
		mk([]string{"alpha.bin", "sub/beta.bin", "sub/deep/gamma.bin", "delta", "eps.txt", "zeta/z"}, []int{100, 33, 700, 2500, 1, 4100}, 2000, 3, 1),
		mk([]string{"x.dat", "y.dat", "d/z.dat", "w.dat"}, []int{1, 17000, 64, 300}, 100, 5, 2),
		mk([]string{"only.one"}, []int{70000}, 2000, 2, 3),
		linked,
		func() c17Set {
			// set 5: the same file given twice (whatever Create makes of that, it must not depend on how the two are spelled)
			st := mk([]string{"a.dat", "sub/b.dat", "c.dat"}, []int{300, 5000, 40}, 64, 3, 5)
			st.again = true
			return st
		}(),
	}
}

var ssse3Mu sync.Mutex

func runC17(args []string) error {
	c := newCommon("c17")
	parBin := c.fs.String("par", "", "par binary")
	c.fs.Parse(args)
	f, err := os.Open(c.in)
	if err != nil {
		return err
	}
	defer f.Close()
	lg, err := tracelog.Create(c.out)
	if err != nil {
		return err
	}
	defer lg.Close()
	cwd0, _ := os.Getwd()
	defer os.Chdir(cwd0)
	sc := bufio.NewScanner(f)
	sc.Buffer(make([]byte, 1<<20), 1<<24)
	ci := 0
	for sc.Scan() {
		var cfg c17Cfg
		if err := json.Unmarshal(sc.Bytes(), &cfg); err != nil {
			return err
		}
		ci++
		st := c17Sets(cfg.Format)[cfg.Set-1]
		root := filepath.Join(c.dir, "c17")
		sandbox.Fresh(root)
		setdir := filepath.Join(root, "parent", "setdir")
		unrelated := filepath.Join(root, "elsewhere")
		os.MkdirAll(unrelated, 0755)
		for _, n := range st.names {
			if tgt, ok := st.links[n]; ok {
				if err := os.Symlink(tgt, filepath.Join(setdir, filepath.FromSlash(n))); err != nil {
					return err
				}
				continue
			}
			if err := sandbox.WriteFile(filepath.Join(setdir, filepath.FromSlash(n)), st.data[n]); err != nil {
				return err
			}
		}
		order := append([]string{}, st.names...)
		switch cfg.Perm {
		case "reversed":
			for i, j := 0, len(order)-1; i < j; i, j = i+1, j-1 {
				order[i], order[j] = order[j], order[i]
			}
		case "rotated":
			order = append(order[1:], order[0])
		case "shuffleA", "shuffleB":
			// two fixed further orders (the recovery-set order must not depend on the order of the input list)
			r := rand.New(rand.NewSource(map[string]int64{"shuffleA": 11, "shuffleB": 29}[cfg.Perm] + int64(len(order))))
			r.Shuffle(len(order), func(i, j int) { order[i], order[j] = order[j], order[i] })
		}
		wd := map[string]string{"setdir": setdir, "parent": filepath.Join(root, "parent"), "unrelated": unrelated}[cfg.Cwd]
		mixI := 0
		spell := func(rel string) string {
			abs := filepath.Join(setdir, filepath.FromSlash(rel))
			r, _ := filepath.Rel(wd, abs)
			kind := cfg.Spell
			if kind == "mixed" {
				// every path of the command line spelled differently
				kind = []string{"rel", "abs", "dotslash", "absdblsep", "dblsep", "absdot"}[mixI%6]
				mixI++
			}
			switch kind {
			case "abs":
				return abs
			case "absdot":
				d, b := filepath.Split(abs)
				return d + "./" + b
			case "absdblsep":
				d, b := filepath.Split(abs)
				return d + "/" + b
			case "absdotdot":
				d, b := filepath.Split(abs)
				dd := strings.TrimSuffix(d, "/")
				return dd + "/../" + filepath.Base(dd) + "/" + b
			case "dotslash":
				return "./" + r
			case "dblsep":
				d, b := filepath.Split(r)
				if d == "" {
					return ".//" + b
				}
				return strings.TrimSuffix(d, "/") + "//" + b
			case "dotdot":
				// go through a directory and back: <dir>/../<dir>/<base>
				d, b := filepath.Split(r)
				if d == "" {
					if cfg.Cwd == "setdir" {
						return "../setdir/" + b
					}
					return r
				}
				dd := strings.TrimSuffix(d, "/")
				return dd + "/../" + filepath.Base(dd) + "/" + b
			}
			return r
		}
		ext := cfg.Format
		index := spell("out." + ext)
		var files []string
		for _, n := range order {
			files = append(files, spell(n))
		}
		if st.again {
			files = append(files, spell(order[0]))
		}
		errText := ""
		doCreate := func() {
			if cfg.Via == "lib" {
				os.Chdir(wd)
				func() {
					defer func() {
						if r := recover(); r != nil {
							errText = fmt.Sprint("panic: ", r)
						}
					}()
					ssse3Mu.Lock()
					old := gf2p16.VerifSetSSSE3(cfg.Kernel == "ssse3")
					var err error
					if cfg.Format == "par2" {
						err = par2.Create(index, files, par2.CreateOptions{SliceByteCount: st.s, NumParityShards: st.r, NumGoroutines: cfg.G})
					} else {
						err = par1.Create(index, files, par1.CreateOptions{NumParityFiles: st.r})
					}
					gf2p16.VerifSetSSSE3(old)
					ssse3Mu.Unlock()
					if err != nil {
						errText = err.Error()
					}
				}()
				os.Chdir(cwd0)
			} else {
				argv := []string{}
				if cfg.G > 0 {
					argv = append(argv, "-g", fmt.Sprint(cfg.G))
				}
				argv = append(argv, "c", "-c", fmt.Sprint(st.r))
				if cfg.Format == "par2" {
					argv = append(argv, "-s", fmt.Sprint(st.s))
				}
				argv = append(argv, index)
				argv = append(argv, files...)
				cmd := exec.Command(*parBin, argv...)
				cmd.Dir = wd
				var se bytes.Buffer
				cmd.Stderr = &se
				cmd.Stdout = &se
				if err := cmd.Run(); err != nil {
					errText = err.Error() + ": " + tail(se.String(), 200)
				}
			}
		}
		if cfg.Prior == "stale" {
			// an earlier run left LONGER files under the same names (same run, then junk appended): what Create
			// writes now must not depend on them
			doCreate()
			errText = ""
			ents, _ := ioutil.ReadDir(setdir)
			for _, e := range ents {
				if strings.HasPrefix(e.Name(), "out.") {
					f, err := os.OpenFile(filepath.Join(setdir, e.Name()), os.O_APPEND|os.O_WRONLY, 0644)
					if err == nil {
						f.Write(bytes.Repeat([]byte("stale tail "), 100))
						f.Close()
					}
				}
			}
		}
		if cfg.Prior == "staleother" {
			// an earlier run protected inputs that differed only BEYOND the first 16 KiB of one file (same names,
			// same lengths, same file ids): nothing it left behind may find its way into what Create writes now
			var victim string
			for _, n := range st.names {
				if len(st.data[n]) > 16384+100 && victim == "" {
					victim = n
				}
			}
			if victim != "" {
				d := append([]byte{}, st.data[victim]...)
				d[16384+77] ^= 0x5a
				d[len(d)-1] ^= 0x01
				sandbox.WriteFile(filepath.Join(setdir, filepath.FromSlash(victim)), d)
			}
			doCreate()
			errText = ""
			if victim != "" {
				sandbox.WriteFile(filepath.Join(setdir, filepath.FromSlash(victim)), st.data[victim])
			}
		}
		before, _ := sandbox.Take(root)
		doCreate()
		after, _ := sandbox.Take(root)
		created, deleted, changed, touched := sandbox.Diff(before, after)
		digests := map[string]string{}
		outside := []string{}
		prefix := filepath.Join("parent", "setdir") + string(filepath.Separator)
		for _, p := range created {
			if e, ok := after[p]; ok && e.IsDir {
				continue
			}
			if strings.HasPrefix(p, prefix) && strings.HasPrefix(filepath.Base(p), "out.") {
				b, _ := ioutil.ReadFile(filepath.Join(root, p))
				h := sha256.Sum256(b)
				digests[filepath.ToSlash(strings.TrimPrefix(p, prefix))] = hex.EncodeToString(h[:8]) + fmt.Sprintf(":%d", len(b))
			} else {
				outside = append(outside, "created:"+p)
			}
		}
		for _, l := range [][]string{deleted, changed, touched} {
			for _, p := range l {
				if e, ok := after[p]; ok && e.IsDir {
					continue
				}
				if _, still := after[p]; still && cfg.Prior != "fresh" && strings.HasPrefix(p, prefix) && strings.HasPrefix(filepath.Base(p), "out.") {
					b, _ := ioutil.ReadFile(filepath.Join(root, p))
					h := sha256.Sum256(b)
					digests[filepath.ToSlash(strings.TrimPrefix(p, prefix))] = hex.EncodeToString(h[:8]) + fmt.Sprintf(":%d", len(b))
					continue
				}
				outside = append(outside, "modified:"+p)
			}
		}
		sort.Strings(outside)
		key := fmt.Sprintf("%s/set%d", cfg.Format, cfg.Set)
		if cfg.Format == "par" {
			key += "/" + cfg.Perm
		}
		lg.Emit(tracelog.M{"ev": "create", "cfg": cfg, "key": key, "digests": digests, "err": errText, "outside": outside, "index": scrub([]string{index}, c.dir)[0]})
	}
	return sc.Err()
}
