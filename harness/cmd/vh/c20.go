package main

import (
	"bufio"
	"bytes"
	"encoding/json"
	"fmt"
	"io/ioutil"
	"math/rand"
	"os"
	"os/exec"
	"path/filepath"
	"strings"
	"sync"
	"syscall"
	"time"

	"verif/harness/refpar1"
	"verif/harness/sandbox"
	"verif/harness/tracelog"
)

func init() {
	register("c20", "run the built par binary on TLC-enumerated (format, command, state, cwd, path) combinations", runC20)
}

type c20Case struct {
	C struct {
		Usage    string `json:"usage"`
		Ext      string `json:"ext"`
		Cmd      string `json:"cmd"`
		Spelling string `json:"spelling"`
		State    string `json:"state"`
		Cwd      string `json:"cwd"`
		Path     string `json:"path"`
		IndexOK  bool   `json:"index_ok"`
		InputsOK bool   `json:"inputs_ok"`
		Needed   bool   `json:"needed"`
		Possible bool   `json:"possible"`
		Kind     string `json:"kind"`
		IOFail   bool   `json:"iofail"`
	} `json:"c"`
}

type c20World struct {
	base  string // index file base name (volume names are derived from it)
	names []string
	prot  map[string][]byte
	a2    *arch
	a1    *arch1
	// a second PAR2 set with one file in a sub-directory that is NOT the first in recovery-set order
	subNames []string
	subProt  map[string][]byte
	aSub     *arch
}

// buildState materialises the archive state in dir and returns the ground truth derived from bytes.
func (w *c20World) buildState(dir, ext, state string) (needed, possible, indexOK bool, err error) {
	if state == "partialfail" {
		// everything protected is gone, including the sub-directory; all recovery blocks present
		if err = w.aSub.materialise(dir, map[string][]byte{}, w.aSub.VolFiles); err != nil {
			return
		}
		os.RemoveAll(filepath.Join(dir, "sub"))
		return true, true, true, nil
	}
	disk := map[string][]byte{}
	for _, n := range w.names {
		disk[n] = w.prot[n]
	}
	flip := func(n string, at int) {
		d := append([]byte{}, disk[n]...)
		d[at] ^= 0x21
		disk[n] = d
	}
	volsAll := true
	switch state {
	case "intact", "badindex", "noindex":
	case "repairable":
		flip(w.names[0], 10)
	case "atcapacity":
		if ext == "par2" {
			// exactly R = 4 slices of 64 bytes destroyed (two in each of two files)
			flip(w.names[0], 1)
			flip(w.names[0], 70)
			flip(w.names[1], 1)
			flip(w.names[1], 70)
		} else {
			flip(w.names[0], 1)
			disk[w.names[1]] = nil
		}
	case "unrepairable":
		disk[w.names[0]] = nil
		disk[w.names[1]] = nil
		if ext == "par" {
			flip(w.names[2], 3)
		}
	case "nopar_intact":
		volsAll = false
	case "nopar_damaged":
		volsAll = false
		flip(w.names[1], 5)
	case "misplaced":
		disk[w.names[0]], disk[w.names[1]] = disk[w.names[1]], disk[w.names[0]]
	case "appended":
		// zero bytes inside the padding of the partial last slice (slice size 64): every slice still matches in place
		d := append([]byte{}, disk[w.names[0]]...)
		pad := (64 - len(d)%64) % 64
		if pad < 2 {
			d = append(d, make([]byte, 64+1)...) // a whole extra slice of zeros plus one byte: still only trailing bytes
		} else {
			d = append(d, make([]byte, pad/2)...)
		}
		disk[w.names[0]] = d
	}
	if ext == "par2" {
		var vols []string
		if volsAll {
			vols = w.a2.VolFiles
		}
		if err = w.a2.materialise(dir, disk, vols); err != nil {
			return
		}
		ps := &protSet{S: w.a2.S, Order: w.a2.Order, Data: w.prot}
		tr := computeTruth(ps, disk)
		nb := 0
		for _, v := range vols {
			nb += len(w.a2.VolExps[v])
		}
		for _, n := range w.names {
			if disk[n] == nil || !bytes.Equal(disk[n], w.prot[n]) {
				needed = true
			}
		}
		possible = tr.N-tr.NSurv <= nb
		if tr.NSurv != tr.NOcc {
			return false, false, false, fmt.Errorf("ambiguous ground truth in constructed state")
		}
	} else {
		var vols []int
		if volsAll {
			for v := 1; v <= w.a1.NVols; v++ {
				vols = append(vols, v)
			}
		}
		if err = w.a1.materialise(dir, disk, vols); err != nil {
			return
		}
		bad := 0
		for _, n := range w.names {
			if disk[n] == nil || !bytes.Equal(disk[n], w.prot[n]) {
				bad++
			}
		}
		needed = bad > 0
		possible = bad <= len(vols)
	}
	indexOK = true
	idx := filepath.Join(dir, w.base+"."+ext)
	switch state {
	case "badindex":
		b, _ := ioutil.ReadFile(idx)
		ioutil.WriteFile(idx, b[:len(b)/2+3], 0644)
		indexOK = false
	case "noindex":
		os.Remove(idx)
		indexOK = false
	}
	return
}

func runC20(args []string) error {
	c := newCommon("c20")
	parBin := c.fs.String("par", "", "path of the par binary built from the working tree")
	c.fs.Parse(args)
	lg, err := tracelog.Create(c.out)
	if err != nil {
		return err
	}
	defer lg.Close()
	rng := rand.New(rand.NewSource(c.seed*79 + 6))
	// two worlds that differ only in the index file's base name; cases alternate between them
	var worlds []*c20World
	for wi, base := range []string{"set", "backup.tar"} {
		w := &c20World{base: base, names: []string{"one.dat", "two.dat", "three.dat"}, prot: map[string][]byte{}}
		for _, n := range w.names {
			d := make([]byte, 300+rng.Intn(300))
			rng.Read(d)
			w.prot[n] = d
		}
		if w.a2, err = buildArch(filepath.Join(c.dir, fmt.Sprintf("c20p2-%d", wi)), w.names, w.prot, 64, 4, 2, w.base); err != nil {
			return err
		}
		if w.a1, err = buildArch1(filepath.Join(c.dir, fmt.Sprintf("c20p1-%d", wi)), w.names, w.prot, 2, w.base); err != nil {
			return err
		}
		if wi == 1 {
			// the second world's PAR1 index carries a comment of ODD byte length (comments are free-form bytes in PAR 1.0;
			// gopar's own Create writes none): same entries, same set hash, written by the independent reference writer
			var specs []refpar1.FileSpec
			for _, n := range w.names {
				specs = append(specs, refpar1.FileSpec{Name: n, Data: w.prot[n], Saved: true})
			}
			idx := refpar1.BuildVolume(specs, 0, []byte("odd"))
			if a, b := refpar1.Tokenize(idx), refpar1.Tokenize(w.a1.IndexB); a.OK && b.OK && a.Header.SetHash == b.Header.SetHash && len(a.Entries) == len(b.Entries) {
				w.a1.IndexB = idx
			} else {
				return fmt.Errorf("c20: the reference-written PAR1 index does not match gopar's (set hash / entries)")
			}
		}
		w.subProt = map[string][]byte{"one.dat": w.prot["one.dat"], "two.dat": w.prot["two.dat"]}
		for k := 0; ; k++ {
			name := fmt.Sprintf("sub/three%d.dat", k)
			w.subProt[name] = w.prot["three.dat"]
			w.subNames = []string{"one.dat", "two.dat", name}
			if w.aSub, err = buildArch(filepath.Join(c.dir, fmt.Sprintf("c20p2sub-%d", wi)), w.subNames, w.subProt, 64, 30, 2, w.base); err != nil {
				return err
			}
			if w.aSub.Order[0] != name {
				break
			}
			delete(w.subProt, name)
		}
		worlds = append(worlds, w)
	}
	f, err := os.Open(c.in)
	if err != nil {
		return err
	}
	defer f.Close()
	sc := bufio.NewScanner(f)
	sc.Buffer(make([]byte, 1<<20), 1<<24)
	type job struct {
		ci int
		cs c20Case
	}
	jobs := make(chan job, 64)
	errs := make(chan error, 32)
	var wg sync.WaitGroup
	for wk := 0; wk < 12; wk++ {
		wg.Add(1)
		go func() {
			defer wg.Done()
			for j := range jobs {
				if err := worlds[j.ci%len(worlds)].runCase(c, lg, *parBin, j.ci, j.cs); err != nil {
					select {
					case errs <- err:
					default:
					}
				}
			}
		}()
	}
	ci := 0
	for sc.Scan() {
		var cs c20Case
		if err := json.Unmarshal(sc.Bytes(), &cs); err != nil {
			return err
		}
		ci++
		jobs <- job{ci, cs}
	}
	close(jobs)
	wg.Wait()
	select {
	case err := <-errs:
		return err
	default:
	}
	return sc.Err()
}

func (w *c20World) runCase(c *common, lg *tracelog.Log, parBin string, ci int, cs c20Case) error {
	{
		root := filepath.Join(c.dir, fmt.Sprintf("c20run-%d", ci))
		defer os.RemoveAll(root)
		k := cs.C
		sandbox.Fresh(root)
		setdir := filepath.Join(root, "parent", "setdir")
		unrelated := filepath.Join(root, "elsewhere")
		os.MkdirAll(setdir, 0755)
		os.MkdirAll(unrelated, 0755)
		ext := k.Ext
		fileExt := ext
		if ext == "unknown" {
			fileExt = "zip"
		}
		truth := tracelog.M{"needed": false, "possible": true, "index_ok": true, "inputs_ok": k.InputsOK, "matches_model": true, "iofail": false}
		if k.Cmd != "create" {
			bext := ext
			if ext == "unknown" {
				bext = "par2"
			}
			needed, possible, indexOK, err := w.buildState(setdir, bext, k.State)
			if err != nil {
				return err
			}
			truth["needed"], truth["possible"], truth["index_ok"] = needed, possible, indexOK
			truth["matches_model"] = needed == k.Needed && (possible == k.Possible || !indexOK) && indexOK == k.IndexOK
			truth["iofail"] = k.IOFail
			if ext == "unknown" {
				os.Rename(filepath.Join(setdir, w.base+".par2"), filepath.Join(setdir, w.base+".zip"))
			}
		} else {
			for _, n := range w.names {
				if k.InputsOK || n != w.names[1] {
					ioutil.WriteFile(filepath.Join(setdir, n), w.prot[n], 0644)
				}
			}
		}
		cwd := map[string]string{"setdir": setdir, "parent": filepath.Join(root, "parent"), "unrelated": unrelated}[k.Cwd]
		spell := func(name string) string {
			abs := filepath.Join(setdir, name)
			if k.Path == "abs" {
				return abs
			}
			r, _ := filepath.Rel(cwd, abs)
			if k.Cwd == "setdir" && ci%2 == 0 {
				return "./" + r
			}
			return r
		}
		var argv []string
		switch k.Usage {
		case "none":
			argv = []string{k.Spelling}
			if k.Cmd == "create" {
				argv = append(argv, "-s", "64", "-c", "2", spell(w.base+"."+fileExt))
				for _, n := range w.names {
					argv = append(argv, spell(n))
				}
			} else {
				if k.Cmd == "repair" && ci%3 == 0 {
					argv = append(argv, "-doublecheck")
				}
				if k.Cmd == "verify" && ci%2 == 0 {
					argv = append(argv, "-a") // full parity check (PAR1; accepted and ignored for PAR2)
				}
				argv = append(argv, spell(w.base+"."+fileExt))
			}
			if ci%4 == 0 {
				argv = append([]string{"-g", "3"}, argv...)
			}
		case "help":
			argv = []string{"-h"}
		case "nocommand":
			argv = []string{}
		case "badcommand":
			argv = []string{"frobnicate", spell(w.base + "." + fileExt)}
		case "badflag":
			argv = []string{k.Cmd, "-nosuchflag", spell(w.base + "." + fileExt)}
		case "badglobalflag":
			argv = []string{"-nosuchglobal", k.Cmd, spell(w.base + "." + fileExt)}
		case "nooperand":
			argv = []string{k.Cmd}
		case "oneoperand":
			argv = []string{"c", spell(w.base + "." + fileExt)}
		case "oneoperand_noext":
			argv = []string{"create", spell(w.names[0])} // the PAR file was forgotten
		case "oneoperand_upper":
			argv = []string{"c", spell(w.base + "." + strings.ToUpper(fileExt))}
		case "oneoperand_noextflags":
			argv = []string{"c", "-c", "2", spell(w.base)}
		}
		before, _ := sandbox.Take(root)
		cmd := exec.Command(parBin, argv...)
		cmd.Dir = cwd
		// the number of CPUs the process sees is part of the configuration: every fourth case runs on one CPU,
		// every fourth on three (defaults derived from the CPU count must stay valid)
		procs := 0
		switch ci % 4 {
		case 1:
			procs = 1
		case 3:
			procs = 3
		}
		if procs > 0 {
			cmd.Env = append(os.Environ(), fmt.Sprintf("GOMAXPROCS=%d", procs))
		}
		var so, se bytes.Buffer
		cmd.Stdout, cmd.Stderr = &so, &se
		done := make(chan error, 1)
		cmd.Start()
		go func() { done <- cmd.Wait() }()
		status := -1
		select {
		case err := <-done:
			status = 0
			if err != nil {
				if ee, ok := err.(*exec.ExitError); ok {
					status = ee.Sys().(syscall.WaitStatus).ExitStatus()
				} else {
					status = -2
				}
			}
		case <-time.After(60 * time.Second):
			cmd.Process.Kill()
			status = -3
		}
		after, _ := sandbox.Take(root)
		crashed := strings.Contains(se.String(), "goroutine ") || strings.Contains(se.String(), "panic:")
		cr, del, chg, tch := sandbox.Diff(before, after)
		unchanged := true
		for _, l := range [][]string{cr, del, chg, tch} {
			for _, p := range l {
				if e, ok := after[p]; ok && e.IsDir {
					continue
				}
				unchanged = false
			}
		}
		allIntact := true
		inames, iprot := w.names, w.prot
		if k.State == "partialfail" {
			inames, iprot = w.subNames, w.subProt
		}
		_ = iprot
		for _, n := range inames {
			b, err := ioutil.ReadFile(filepath.Join(setdir, n))
			if err != nil || !bytes.Equal(b, iprot[n]) {
				allIntact = false
			}
		}
		setWritten := false
		if k.Cmd == "create" && status == 0 {
			idx := filepath.Join(setdir, w.base+"."+fileExt)
			if ext == "par2" {
				vo := runVerify(idx, 1, false, nil)
				setWritten = vo.Err == "" && !vo.Needed && vo.PUsable == 2
			} else if ext == "par" {
				vo := runVerify1(idx, true, false, nil)
				setWritten = vo.Err == "" && !vo.Needed && vo.PUsable == 2 && vo.AllData
			}
		}
		lg.Emit(tracelog.M{"ev": "cli", "c": cs.C, "gomaxprocs": procs, "argv": scrub(argv, c.dir), "status": status, "crashed": crashed, "truth": truth,
			"post":        tracelog.M{"all_intact": allIntact, "set_written": setWritten, "unchanged": unchanged},
			"stdout_tail": tail(so.String(), 160), "stderr_tail": tail(se.String(), 160)})
	}
	return nil
}

func scrub(argv []string, dir string) []string {
	out := make([]string, len(argv))
	for i, a := range argv {
		out[i] = strings.Replace(a, dir, "$D", -1)
	}
	return out
}

func tail(s string, n int) string {
	if len(s) > n {
		return s[len(s)-n:]
	}
	return s
}
