package main

import (
	"bytes"
	"errors"
	"fmt"
	"io/ioutil"
	"math/rand"
	"os"
	"path/filepath"
	"sort"
	"strings"
	"syscall"
	"verif/harness/refpar2"

	"github.com/akalin/gopar/par1"
	"github.com/akalin/gopar/par2"

	"verif/harness/sandbox"
	"verif/harness/tracelog"
)

func init() {
	register("c18", "inject one failing I/O call (every index, every kind), singly and in pairs, into the real Create/Verify/Repair", runC18)
}

var errInjected = &os.PathError{Op: "injected", Path: "fault", Err: syscall.EIO}

// faultIO wraps the default file systems of par1 / par2 (hook H2): it logs every call and makes
// call number failAt (1-based) fail: "err" = error without effect, "partial" = a write stores
// the first half of its data and then returns an error.
type faultIO struct {
	p2     par2.VerifFileIO
	p1     par1.VerifFileIO
	calls  []ioCall
	failAt int
	kind   string
	failed string // path of the failing call
	wrote  []string
}

func (f *faultIO) hit() bool { return len(f.calls)+1 == f.failAt }

func (f *faultIO) ReadFile(path string) ([]byte, error) {
	if f.hit() {
		f.calls = append(f.calls, ioCall{"read", path, "injected", 0})
		f.failed = path
		return nil, errInjected
	}
	var b []byte
	var err error
	if f.p2 != nil {
		b, err = f.p2.ReadFile(path)
	} else {
		b, err = f.p1.ReadFile(path)
	}
	f.calls = append(f.calls, ioCall{"read", path, errStr(err), len(b)})
	return b, err
}

func (f *faultIO) FindWithPrefixAndSuffix(prefix, suffix string) ([]string, error) {
	if f.hit() {
		f.calls = append(f.calls, ioCall{"find", prefix, "injected", 0})
		f.failed = prefix
		return nil, errInjected
	}
	m, err := f.p2.FindWithPrefixAndSuffix(prefix, suffix)
	f.calls = append(f.calls, ioCall{"find", prefix, errStr(err), len(m)})
	return m, err
}

func (f *faultIO) WriteFile(path string, data []byte) error {
	if f.hit() {
		f.calls = append(f.calls, ioCall{"write", path, "injected", len(data)})
		f.failed = path
		if f.kind == "partial" {
			ioutil.WriteFile(path, data[:len(data)/2], 0600)
		}
		return errInjected
	}
	var err error
	if f.p2 != nil {
		err = f.p2.WriteFile(path, data)
	} else {
		err = f.p1.WriteFile(path, data)
	}
	f.calls = append(f.calls, ioCall{"write", path, errStr(err), len(data)})
	if err == nil {
		f.wrote = append(f.wrote, path)
	}
	return err
}

func (f *faultIO) kinds() []string {
	out := []string{}
	for _, c := range f.calls {
		out = append(out, c.Kind)
	}
	return out
}

type c18Result struct {
	err      bool
	errText  string
	repaired []string
	panicked bool
}

// c18Run executes one operation through fio.
// goroutine count used by the PAR2 operations of the current world
var c18G = 2

func c18Run(fmtName, op, index string, inputs []string, fio *faultIO, nvols int) (r c18Result) {
	defer func() {
		if x := recover(); x != nil {
			r = c18Result{err: true, errText: fmt.Sprint("panic: ", x), panicked: true}
		}
	}()
	var err error
	dir := filepath.Dir(index)
	if fmtName == "par2" {
		switch op {
		case "create":
			err = par2.VerifCreate(fio, index, inputs, par2.CreateOptions{SliceByteCount: 16, NumParityShards: nvols, NumGoroutines: c18G})
		case "verify":
			_, err = par2.VerifVerify(fio, index, par2.VerifyOptions{NumGoroutines: c18G})
		case "repair":
			var res par2.RepairResult
			res, err = par2.VerifRepair(fio, index, par2.RepairOptions{NumGoroutines: c18G})
			for _, p := range res.RepairedPaths {
				r.repaired = append(r.repaired, relTo(dir, p))
			}
		}
	} else {
		switch op {
		case "create":
			err = par1.VerifCreate(fio, index, inputs, par1.CreateOptions{NumParityFiles: nvols})
		case "verify":
			_, err = par1.VerifVerify(fio, index, par1.VerifyOptions{VerifyAllData: true})
		case "repair":
			var res par1.RepairResult
			res, err = par1.VerifRepair(fio, index, par1.RepairOptions{})
			for _, p := range res.RepairedPaths {
				r.repaired = append(r.repaired, relTo(dir, p))
			}
		}
	}
	r.err = err != nil
	r.errText = errStr(err)
	// an injected fault must surface as an error, but a *legitimate* error of the state itself (e.g.
	// not enough parity) is also an error: both are err=true; the baseline run tells them apart
	if r.repaired == nil {
		r.repaired = []string{}
	}
	_ = errors.New
	return r
}

type c18State struct {
	name  string
	disk  map[string][]byte // protected files (nil = absent)
	nvols int               // volumes present (lowest numbered)
}

func runC18(args []string) error {
	c := newCommon("c18")
	c.fs.Parse(args)
	lg, err := tracelog.Create(c.out)
	if err != nil {
		return err
	}
	defer lg.Close()
	rng := rand.New(rand.NewSource(c.seed*89 + 5))
	thorough := c.tier == "thorough"
	// worlds: the small one (every tier) and, in the thorough tier, a larger one (more files, more volumes, more I/O
	// calls to fail, another goroutine count)
	type worldDef struct {
		names    []string
		sizes    []int
		r2, nv1  int
		g        int
		fileBase string
	}
	worlds := []worldDef{{[]string{"a.bin", "b.bin", "c.bin"}, []int{40, 25, 33}, 4, 2, 2, "set"}}
	if thorough {
		worlds = append(worlds, worldDef{[]string{"a.bin", "b.bin", "c.bin", "d.bin", "e e.bin", "f"}, []int{40, 25, 33, 70, 5, 16}, 20, 4, 3, "backup.tar"})
	}
	for wi, wd := range worlds {
		names := wd.names
		c18G = wd.g
		prot := map[string][]byte{}
		for i, n := range names {
			d := make([]byte, wd.sizes[i])
			rng.Read(d)
			prot[n] = d
		}
		for _, fmtName := range []string{"par2", "par1"} {
			base := filepath.Join(c.dir, fmt.Sprintf("c18-%d-%s", wi, fmtName))
			var a2 *arch
			var a1 *arch1
			nv := wd.nv1
			if fmtName == "par2" {
				if a2, err = buildArch(filepath.Join(base, "pristine"), names, prot, 16, wd.r2, 1, wd.fileBase); err != nil {
					return err
				}
				nv = len(a2.VolFiles)
			} else {
				if a1, err = buildArch1(filepath.Join(base, "pristine"), names, prot, wd.nv1, wd.fileBase); err != nil {
					return err
				}
			}
			flipped := func(n string) []byte {
				d := append([]byte{}, prot[n]...)
				d[3] ^= 0x44
				return d
			}
			// every file intact except the overrides
			mkDisk := func(over map[string][]byte) map[string][]byte {
				d := map[string][]byte{}
				for _, n := range names {
					d[n] = prot[n]
				}
				for n, b := range over {
					d[n] = b
				}
				return d
			}
			allNil := map[string][]byte{}
			for _, n := range names {
				allNil[n] = nil
			}
			states := []c18State{
				{"intact", mkDisk(nil), nv},
				{"one-missing", mkDisk(map[string][]byte{"b.bin": nil}), nv},
				{"two-damaged", mkDisk(map[string][]byte{"a.bin": flipped("a.bin"), "b.bin": nil}), nv},
				{"one-missing-one-volume", mkDisk(map[string][]byte{"c.bin": nil}), 1},
				{"unrepairable", mkDisk(allNil), 1},
			}
			if fmtName == "par2" {
				// the index file was cut at a packet boundary and lacks its last packets (the volumes repeat them): whatever
				// a reader makes of that, an I/O failure on the way must still be reported
				states = append(states, c18State{"short-index", mkDisk(map[string][]byte{"b.bin": nil}), nv},
					c18State{"short-index-intact", mkDisk(nil), nv})
			}
			if thorough {
				states = append(states,
					c18State{"all-volumes-gone", mkDisk(map[string][]byte{"a.bin": flipped("a.bin")}), 0},
					c18State{"swapped", mkDisk(map[string][]byte{"a.bin": prot["b.bin"], "b.bin": prot["a.bin"]}), nv})
			}
			materialise := func(dir string, st c18State) (string, error) {
				if fmtName == "par2" {
					err := a2.materialise(dir, st.disk, a2.VolFiles[:st.nvols])
					if err == nil && strings.HasPrefix(st.name, "short-index") {
						pk, _ := refpar2.Tokenize(a2.IndexB)
						if len(pk) > 2 {
							cut := pk[len(pk)-2].Off // the last two packets are gone
							err = ioutil.WriteFile(filepath.Join(dir, a2.Index), a2.IndexB[:cut], 0644)
						}
					}
					return filepath.Join(dir, a2.Index), err
				}
				var vols []int
				for v := 1; v <= st.nvols; v++ {
					vols = append(vols, v)
				}
				return filepath.Join(dir, a1.Index), a1.materialise(dir, st.disk, vols)
			}
			newIO := func(failAt int, kind string) *faultIO {
				f := &faultIO{failAt: failAt, kind: kind}
				if fmtName == "par2" {
					f.p2 = par2.VerifDefaultFileIO()
				} else {
					f.p1 = par1.VerifDefaultFileIO()
				}
				return f
			}
			readProt := func(dir string) map[string][]byte {
				out := map[string][]byte{}
				for _, n := range names {
					b, err := ioutil.ReadFile(filepath.Join(dir, n))
					if err != nil {
						out[n] = nil
					} else {
						out[n] = append([]byte{}, b...)
					}
				}
				return out
			}
			allIntact := func(d map[string][]byte) bool {
				for _, n := range names {
					if d[n] == nil || !bytes.Equal(d[n], prot[n]) {
						return false
					}
				}
				return true
			}
			for _, st := range states {
				for _, op := range []string{"verify", "repair"} {
					dir := filepath.Join(base, "run")
					// fault-free baseline: call count, shape, outcome
					index, err := materialise(dir, st)
					if err != nil {
						return err
					}
					b0 := newIO(0, "")
					base0 := c18Run(fmtName, op, index, nil, b0, nv)
					full := b0.kinds()
					baseRestored := allIntact(readProt(dir))
					nReads, nWrites, nFind := 0, 0, 0
					for _, k := range full {
						switch k {
						case "read":
							nReads++
						case "write":
							nWrites++
						case "find":
							nFind++
						}
					}
					shapeN := len(names)
					shapeM := nReads - 1 - shapeN
					if shapeM < 0 {
						// the run stopped early even without a fault (e.g. a legitimate error): skip injecting beyond it
						shapeM = 0
					}
					type plan struct {
						k1   int
						kd1  string
						k2   int
						kd2  string
						pair bool
					}
					var plans []plan
					for k := 0; k <= len(full); k++ {
						plans = append(plans, plan{k1: k, kd1: "err"})
						if k > 0 && full[k-1] == "write" {
							plans = append(plans, plan{k1: k, kd1: "partial"})
						}
					}
					// pairs: a fault, then a rerun with another fault, then the clean rerun
					npairs := 6
					if thorough {
						npairs = 40
					}
					for i := 0; i < npairs && len(full) > 1; i++ {
						k1 := 1 + rng.Intn(len(full))
						k2 := 1 + rng.Intn(len(full))
						kd1, kd2 := "err", "err"
						if full[k1-1] == "write" && rng.Intn(2) == 0 {
							kd1 = "partial"
						}
						if k2 <= len(full) && full[k2-1] == "write" && rng.Intn(2) == 0 {
							kd2 = "partial"
						}
						plans = append(plans, plan{k1, kd1, k2, kd2, true})
					}
					for _, pl := range plans {
						index, err := materialise(dir, st)
						if err != nil {
							return err
						}
						before := readProt(dir)
						snapB, _ := sandbox.Take(dir)
						fio := newIO(pl.k1, pl.kd1)
						res := c18Run(fmtName, op, index, nil, fio, nv)
						if pl.pair {
							f2 := newIO(pl.k2, pl.kd2)
							c18Run(fmtName, op, index, nil, f2, nv)
						}
						after := readProt(dir)
						snapA, _ := sandbox.Take(dir)
						changed := []string{}
						completedOK := true
						cr, del, chg, tch := sandbox.Diff(snapB, snapA)
						for _, p := range append(append(append(cr, del...), chg...), tch...) {
							if p != "." {
								changed = append(changed, p)
							}
						}
						sort.Strings(changed)
						completed := []string{}
						for _, w := range fio.wrote {
							rp := relTo(dir, w)
							completed = append(completed, rp)
							if !pl.pair && (after[rp] == nil || !bytes.Equal(after[rp], prot[rp])) {
								completedOK = false
							}
						}
						_ = before
						// after the fault(s): is the data still within capacity?  (ground truth, par2 by the observer)
						expectedOK := false
						if op == "repair" && !base0.err {
							if fmtName == "par2" {
								ps := &protSet{S: a2.S, Order: a2.Order, Data: prot}
								tr := computeTruth(ps, after)
								nb := 0
								for _, v := range a2.VolFiles[:st.nvols] {
									nb += len(a2.VolExps[v])
								}
								expectedOK = tr.N-tr.NSurv <= nb
							} else {
								bad := 0
								for _, n := range names {
									if after[n] == nil || !bytes.Equal(after[n], prot[n]) {
										bad++
									}
								}
								expectedOK = bad <= st.nvols
							}
						}
						if op == "verify" {
							expectedOK = !base0.err
						}
						// clean rerun
						r0 := newIO(0, "")
						rr := c18Run(fmtName, op, index, nil, r0, nv)
						same := rr.err == base0.err
						if op == "repair" && !rr.err {
							same = same && allIntact(readProt(dir)) == baseRestored
						}
						failed := ""
						if fio.failed != "" && pl.k1 > 0 && pl.k1 <= len(full) && full[pl.k1-1] == "write" {
							failed = relTo(dir, fio.failed)
						}
						if pl.pair {
							// only the binding and crash clauses are judged on the first run of a pair; the pair is about the clean rerun
							changed = []string{}
							failed = ""
							completed = []string{}
						}
						lg.Emit(tracelog.M{"ev": "fault", "index_usable": !strings.HasPrefix(st.name, "short-index"), "fmt": fmtName, "op": op, "state": st.name, "n": shapeN, "m": shapeM, "w": nWrites, "v": 0,
							"calls": fio.kinds(), "k": pl.k1, "fk": pl.kd1, "pair": pl.pair, "k2": pl.k2, "fk2": pl.kd2,
							"res":         tracelog.M{"err": res.err, "errtext": tail(res.errText, 80), "repaired": res.repaired},
							"baseline":    tracelog.M{"err": base0.err, "errtext": tail(base0.errText, 80), "calls": len(full)},
							"failed_path": failed, "changed": changed, "completed_writes": completed, "completed_ok": completedOK,
							"rerun":    tracelog.M{"err": rr.err, "errtext": tail(rr.errText, 80), "expected_ok": expectedOK, "same_as_fault_free": same},
							"panicked": res.panicked || rr.panicked})
					}
				}
			}
			// Create: read(file)^n write(index) write(volume)^v
			{
				dir := filepath.Join(base, "create")
				mk := func() ([]string, string, error) {
					if err := sandbox.Fresh(dir); err != nil {
						return nil, "", err
					}
					var in []string
					for _, n := range names {
						p := filepath.Join(dir, n)
						ioutil.WriteFile(p, prot[n], 0644)
						in = append(in, p)
					}
					ext := ".par2"
					if fmtName == "par1" {
						ext = ".par"
					}
					return in, filepath.Join(dir, "new"+ext), nil
				}
				in, index, err := mk()
				if err != nil {
					return err
				}
				cv := 3 + wi*4
				b0 := newIO(0, "")
				base0 := c18Run(fmtName, "create", index, in, b0, cv)
				full := b0.kinds()
				nW := 0
				for _, k := range full {
					if k == "write" {
						nW++
					}
				}
				golden, _ := sandbox.Take(dir)
				for k := 0; k <= len(full); k++ {
					kinds := []string{"err"}
					if k > 0 && full[k-1] == "write" {
						kinds = append(kinds, "partial")
					}
					for _, kd := range kinds {
						in, index, err := mk()
						if err != nil {
							return err
						}
						snapB, _ := sandbox.Take(dir)
						fio := newIO(k, kd)
						res := c18Run(fmtName, "create", index, in, fio, cv)
						snapA, _ := sandbox.Take(dir)
						changed := []string{}
						cr, del, chg, tch := sandbox.Diff(snapB, snapA)
						for _, p := range append(append(append(cr, del...), chg...), tch...) {
							if p != "." {
								changed = append(changed, p)
							}
						}
						completed := []string{}
						completedOK := true
						for _, w := range fio.wrote {
							rp := relTo(dir, w)
							completed = append(completed, rp)
							if snapA[rp].SHA != golden[rp].SHA {
								completedOK = false
							}
						}
						failed := ""
						if fio.failed != "" && k > 0 && full[k-1] == "write" {
							failed = relTo(dir, fio.failed)
						}
						r0 := newIO(0, "")
						rr := c18Run(fmtName, "create", index, in, r0, cv)
						fin, _ := sandbox.Take(dir)
						same := !rr.err
						for p, e := range golden {
							if fin[p].SHA != e.SHA {
								same = false
							}
						}
						lg.Emit(tracelog.M{"ev": "fault", "index_usable": true, "fmt": fmtName, "op": "create", "state": "fresh", "n": len(names), "m": 0, "w": 0, "v": nW - 1,
							"calls": fio.kinds(), "k": k, "fk": kd, "pair": false, "k2": 0, "fk2": "",
							"res":         tracelog.M{"err": res.err, "errtext": tail(res.errText, 80), "repaired": []string{}},
							"baseline":    tracelog.M{"err": base0.err, "errtext": "", "calls": len(full)},
							"failed_path": failed, "changed": changed, "completed_writes": completed, "completed_ok": completedOK,
							"rerun":    tracelog.M{"err": rr.err, "errtext": tail(rr.errText, 80), "expected_ok": true, "same_as_fault_free": same},
							"panicked": res.panicked || rr.panicked})
					}
				}
			}
			os.RemoveAll(base)
		}
	}
	return nil
}
