package main

import (
	"fmt"
	"path/filepath"
	"sort"

	"verif/harness/sandbox"
	"verif/harness/tracelog"
)

func init() {
	register("p2edges", "replay TLC-emitted Verify/Repair transitions of Par2Archive on the real par2 code", runP2Edges)
}

type p2Instance struct {
	Inst  string           `json:"inst"`
	S     int              `json:"s"`
	Names []string         `json:"names"`
	Prot  map[string][]int `json:"prot"`
	Vols  [][]int          `json:"vols"`
}

type p2Edge struct {
	Op      string                 `json:"op"`
	Pre     map[string][]int       `json:"pre"`
	PreVols []int                  `json:"prevols"`
	Post    map[string][]int       `json:"post"`
	Model   map[string]interface{} `json:"model"`
}

type p2Cases struct {
	Instance p2Instance `json:"instance"`
	Edges    []p2Edge   `json:"edges"`
}

func runP2Edges(args []string) error {
	c := newCommon("p2edges")
	c.fs.Parse(args)
	var cases p2Cases
	if err := readJSONFile(c.in, &cases); err != nil {
		return err
	}
	lg, err := tracelog.Create(c.out)
	if err != nil {
		return err
	}
	defer lg.Close()

	in := cases.Instance
	prot := map[string][]byte{}
	var names []string
	for n := range in.Prot {
		names = append(names, n)
	}
	sort.Strings(names)
	for _, n := range names {
		prot[n] = intsToBytes(in.Prot[n])
	}
	r := 0
	for _, v := range in.Vols {
		r += len(v)
	}
	pristine := filepath.Join(c.dir, "pristine-"+in.Inst)
	a, err := buildArch(pristine, names, prot, in.S, r, 2, "set")
	if err != nil {
		return err
	}
	// bystanders: an unrelated file, a sub-directory with a file, a foreign-looking par2 name
	a.Others["notes.txt"] = []byte("unrelated file\n")
	a.Others["sub/inner.bin"] = []byte{1, 2, 3, 4, 5}
	a.Others["set.par2.bak"] = []byte("not a par2 file")
	a.Others["set.stray.par2"] = []byte{} // matches <base>.*.par2 but holds no packet of the set
	// map volume ids to the files gopar wrote
	volFile := map[int]string{}
	layoutOK := true
	for i, ex := range in.Vols {
		f := a.volByExps(ex)
		if f == "" {
			layoutOK = false
		}
		volFile[i+1] = f
	}
	orderOK := fmt.Sprint(a.Order) == fmt.Sprint(in.Names)
	lg.Emit(tracelog.M{"ev": "instance", "inst": in.Inst, "s": in.S, "names": in.Names, "prot": in.Prot, "vols": in.Vols,
		"order_ok": orderOK, "layout_ok": layoutOK, "gopar_order": a.Order, "gopar_vols": a.VolExps})
	if !orderOK || !layoutOK {
		return fmt.Errorf("instance %s does not match what gopar wrote: order %v vs %v, vols %v", in.Inst, a.Order, in.Names, a.VolExps)
	}
	ps := &protSet{S: in.S, Order: in.Names, Data: prot}

	gs := []int{1, 2, 3, 8}
	work := filepath.Join(c.dir, "edge-"+in.Inst)
	for ei, e := range cases.Edges {
		g := gs[ei%len(gs)]
		viaHook := ei%3 != 0
		pre := map[string][]byte{}
		for n, v := range e.Pre {
			pre[n] = intsToBytes(v)
		}
		var vols []string
		for _, v := range e.PreVols {
			vols = append(vols, volFile[v])
		}
		if err := a.materialise(work, pre, vols); err != nil {
			return err
		}
		index := filepath.Join(work, a.Index)
		tr := computeTruth(ps, pre)
		before, err := sandbox.Take(work)
		if err != nil {
			return err
		}
		ev := tracelog.M{"ev": "op", "op": e.Op, "g": g, "hook": viaHook, "pre": e.Pre, "prevols": e.PreVols,
			"s": in.S, "names": in.Names, "prot": in.Prot, "vols": in.Vols,
			"obs": tracelog.M{"nsurv": tr.NSurv, "nocc": tr.NOcc}}
		var lio *logIO
		if viaHook {
			lio = newLogIO()
		}
		model := tracelog.M{"err": e.Model["err"]}
		curDelegate = &recDelegate{}
		switch e.Op {
		case "verify":
			vo := runVerify(index, g, viaHook, lio)
			ev["res"] = tracelog.M{"err": vo.Err, "errtext": vo.ErrText + vo.Panic, "usable": vo.Usable, "unusable": vo.Unusable,
				"pusable": vo.PUsable, "punusable": vo.PUnusable, "needed": vo.Needed, "possible": vo.Possible, "repaired": []string{}}
			for _, k := range []string{"usable", "unusable", "pusable", "punusable"} {
				model[k] = e.Model[k]
			}
			model["repaired"] = []string{}
		case "repair", "repairdc":
			ro := runRepair(index, g, e.Op == "repairdc", viaHook, lio)
			ev["res"] = tracelog.M{"err": ro.Err, "errtext": ro.ErrText + ro.Panic, "repaired": ro.Repaired,
				"usable": 0, "unusable": 0, "pusable": 0, "punusable": 0, "needed": false, "possible": false}
			model["repaired"] = e.Model["repaired"]
			for _, k := range []string{"usable", "unusable", "pusable", "punusable"} {
				model[k] = 0
			}
		default:
			return fmt.Errorf("unknown op %q", e.Op)
		}
		model["post"] = e.Post
		ev["model"] = model
		ev["dlg"] = curDelegate.json(work)
		curDelegate = nil
		after, err := sandbox.Take(work)
		if err != nil {
			return err
		}
		d := a.diffOp(work, before, after, lio)
		// index / volume files that changed are "outside" already; postvols = volumes still there, unchanged
		postvols := []int{}
		for _, v := range e.PreVols {
			f := volFile[v]
			if eb, ok := after[f]; ok && eb.SHA == before[f].SHA {
				postvols = append(postvols, v)
			}
		}
		for v, f := range volFile {
			if _, was := before[f]; !was {
				if _, is := after[f]; is {
					postvols = append(postvols, v)
				}
			}
		}
		sort.Ints(postvols)
		ev["post"] = diskToJSON(a.readDisk(work))
		ev["postvols"] = postvols
		ev["writes"] = d.Writes
		ev["outside"] = d.Outside
		// C14: after a successful repair, Verify must be clean and a further Repair must write nothing
		aft := tracelog.M{"verify": tracelog.M{"err": "", "needed": false, "unusable": 0},
			"repair": tracelog.M{"err": "", "repaired": []string{}, "writes": []string{}, "outside": []string{}}}
		if res := ev["res"].(tracelog.M); e.Op != "verify" && res["err"] == "" {
			vo := runVerify(index, g, false, nil)
			b2, _ := sandbox.Take(work)
			lio2 := newLogIO()
			ro := runRepair(index, g, e.Op == "repairdc", true, lio2)
			a2, _ := sandbox.Take(work)
			d2 := a.diffOp(work, b2, a2, lio2)
			aft = tracelog.M{"verify": tracelog.M{"err": vo.Err, "needed": vo.Needed, "unusable": vo.Unusable},
				"repair": tracelog.M{"err": ro.Err, "repaired": ro.Repaired, "writes": d2.Writes, "outside": d2.Outside}}
		}
		ev["after"] = aft
		lg.Emit(ev)
	}
	return nil
}
