package main

import (
	"bytes"
	"crypto/sha256"
	"encoding/hex"
	"fmt"
	"io/ioutil"
	"math/rand"
	"os"
	"path/filepath"
	"runtime"
	"sort"
	"sync"
	"time"

	"github.com/akalin/gopar/gf2p16"
	"github.com/akalin/gopar/rsec16"

	"verif/harness/gfref"
	"verif/harness/tracelog"
)

func init() {
	register("c12sched", "force TLC-generated interleavings on the real worker goroutines (gate hook H3)", runC12Sched)
	register("c12grid", "record the real partition ranges for a (len, g) grid; compare results across goroutine counts", runC12Grid)
}

type c12Params struct {
	NBytes int `json:"nbytes"`
	G      int `json:"g"`
	Rows   int `json:"rows"`
	Ins    int `json:"ins"`
	N      int `json:"n"`
	Per    int `json:"per"`
}

type c12Input struct {
	Params    c12Params `json:"params"`
	Schedules [][]int   `json:"schedules"`
}

type gateMsg struct {
	w, row, in, lo, hi int
}

// refApply computes out rows = m * in on [lo,hi) with the independent field, for inputs 0..upto.
func refRange(m [][]uint16, in [][]byte, row, upto, lo, hi int, dst []byte) {
	for b := lo; b < hi; b += 2 {
		var acc uint16
		for j := 0; j <= upto; j++ {
			x := uint16(in[j][b]) | uint16(in[j][b+1])<<8
			acc ^= gfref.FMul16(m[row][j], x)
		}
		dst[b] = byte(acc)
		dst[b+1] = byte(acc >> 8)
	}
}

func runC12Sched(args []string) error {
	c := newCommon("c12sched")
	c.fs.Parse(args)
	var in c12Input
	if err := readJSONFile(c.in, &in); err != nil {
		return err
	}
	lg, err := tracelog.Create(c.out)
	if err != nil {
		return err
	}
	defer lg.Close()
	p := in.Params
	rng := rand.New(rand.NewSource(c.seed + int64(p.NBytes)*1000 + int64(p.G)))
	stuckCount := 0
	for si, sched := range in.Schedules {
		if stuckCount >= 3 {
			break // the real goroutines do not follow the schedules of this shape: three observations suffice
		}
		// fresh data per schedule
		mv := make([][]uint16, p.Rows)
		elems := make([]gf2p16.T, 0, p.Rows*p.Ins)
		for r := range mv {
			mv[r] = make([]uint16, p.Ins)
			for j := range mv[r] {
				mv[r][j] = uint16(1 + rng.Intn(65535))
				elems = append(elems, gf2p16.T(mv[r][j]))
			}
		}
		m := gf2p16.NewMatrixFromSlice(p.Rows, p.Ins, elems)
		ins := make([][]byte, p.Ins)
		for j := range ins {
			ins[j] = make([]byte, p.NBytes)
			rng.Read(ins[j])
		}
		out := make([][]byte, p.Rows)
		expect := make([][]byte, p.Rows)
		for r := range out {
			out[r] = make([]byte, p.NBytes)
			rng.Read(out[r]) // garbage: a missing overwrite shows
			expect[r] = append([]byte{}, out[r]...)
		}
		insCopy := make([][]byte, p.Ins)
		for j := range ins {
			insCopy[j] = append([]byte{}, ins[j]...)
		}
		arrive := make(chan gateMsg, 64)
		release := make(map[int]chan struct{})
		for w := 0; w < p.N; w++ {
			release[w] = make(chan struct{})
		}
		per := p.Per
		rsec16.VerifStepHook = func(row, inp, lo, hi int) {
			w := lo / per
			arrive <- gateMsg{w, row, inp, lo, hi}
			if row >= 0 {
				<-release[w]
			}
		}
		done := make(chan struct{})
		go func() {
			rsec16.VerifApplyMatrixParallelData(m, ins, out, p.G)
			close(done)
		}()
		// all workers arrive at their first gate
		pending := map[int]gateMsg{}
		timeout := time.After(5 * time.Second)
		dead := false
		for len(pending) < p.N && !dead {
			select {
			case g := <-arrive:
				pending[g.w] = g
			case <-timeout:
				dead = true
			}
		}
		steps := [][]int{}
		prefixOK := true
		for _, w := range sched {
			if dead {
				break
			}
			g, ok := pending[w]
			if !ok || g.row < 0 {
				dead = true // the schedule asks for a worker that has no pending step
				break
			}
			steps = append(steps, []int{g.w, g.row, g.in, g.lo, g.hi})
			delete(pending, w)
			release[w] <- struct{}{}
			// wait until w arrives again (next gate or its final report): its step is then complete
			select {
			case n := <-arrive:
				if n.w != w {
					dead = true
				}
				pending[n.w] = n
			case <-time.After(5 * time.Second):
				dead = true
			}
			if dead {
				break
			}
			// compare the whole output with the expected state after this step
			refRange(mv, ins, g.row, g.in, g.lo, g.hi, expect[g.row])
			for r := range out {
				if !bytes.Equal(out[r], expect[r]) {
					prefixOK = false
				}
			}
		}
		finished := false
		if !dead {
			select {
			case <-done:
				finished = true
			case <-time.After(5 * time.Second):
			}
		}
		if dead || !finished {
			stuckCount++
		}
		rsec16.VerifStepHook = nil
		if dead || !finished {
			// unblock whatever is left so that the goroutines can end
			for w := range release {
				go func(ch chan struct{}) {
					for {
						select {
						case ch <- struct{}{}:
						case <-time.After(2 * time.Second):
							return
						}
					}
				}(release[w])
			}
			go func() {
				for range arrive {
				}
			}()
		}
		// final: equals the independent reference and the real single-threaded result
		finalOK := finished
		single := make([][]byte, p.Rows)
		for r := range single {
			single[r] = make([]byte, p.NBytes)
		}
		rsec16.VerifApplyMatrixParallelData(m, ins, single, 1)
		singleOK := finished
		for r := range out {
			ref := make([]byte, p.NBytes)
			refRange(mv, ins, r, p.Ins-1, 0, p.NBytes, ref)
			if !bytes.Equal(out[r], ref) {
				finalOK = false
			}
			if !bytes.Equal(out[r], single[r]) {
				singleOK = false
			}
		}
		inputsOK := true
		for j := range ins {
			if !bytes.Equal(ins[j], insCopy[j]) {
				inputsOK = false
			}
		}
		lg.Emit(tracelog.M{"ev": "sched", "si": si, "nbytes": p.NBytes, "g": p.G, "rows": p.Rows, "ins": p.Ins, "sched": sched,
			"steps": steps, "prefix_ok": prefixOK, "final_ok": finalOK, "single_ok": singleOK, "inputs_ok": inputsOK,
			"finished": finished, "stuck": dead})
	}
	return nil
}

func hashFiles(dir string) (string, error) {
	ents, err := ioutil.ReadDir(dir)
	if err != nil {
		return "", err
	}
	var names []string
	for _, e := range ents {
		if !e.IsDir() {
			names = append(names, e.Name())
		}
	}
	sort.Strings(names)
	h := sha256.New()
	for _, n := range names {
		b, err := ioutil.ReadFile(filepath.Join(dir, n))
		if err != nil {
			return "", err
		}
		fmt.Fprintf(h, "%s:%d:", n, len(b))
		h.Write(b)
	}
	return hex.EncodeToString(h.Sum(nil)), nil
}

func runC12Grid(args []string) error {
	c := newCommon("c12grid")
	gomax := c.fs.Int("gomaxprocs", 0, "GOMAXPROCS for the ungated result grid (0 = leave)")
	ranges := c.fs.Bool("ranges", true, "record partition ranges through the hook")
	c.fs.Parse(args)
	lg, err := tracelog.Create(c.out)
	if err != nil {
		return err
	}
	defer lg.Close()
	if *gomax > 0 {
		runtime.GOMAXPROCS(*gomax)
	}
	thorough := c.tier == "thorough"
	rng := rand.New(rand.NewSource(c.seed*977 + int64(*gomax)))
	var lens []int
	step := 2
	if !thorough {
		step = 6
	}
	for l := 2; l <= 700; l += step {
		lens = append(lens, l)
	}
	lens = append(lens, 14, 16, 18, 30, 32, 34, 62, 64, 66, 4096, 65536+2)
	gs := []int{}
	for g := 1; g <= 40; g++ {
		gs = append(gs, g)
	}
	gs = append(gs, 64, 4097, rsec16.DefaultNumGoroutines())
	// (B) partition ranges of the real code
	if *ranges {
		one := gf2p16.NewMatrixFromSlice(1, 1, []gf2p16.T{7})
		for _, l := range lens {
			for _, g := range gs {
				if !thorough && l > 64 && (l+g)%3 != 0 {
					continue
				}
				in := [][]byte{make([]byte, l)}
				out := [][]byte{make([]byte, l)}
				var mu sync.Mutex
				var rs [][]int
				rsec16.VerifStepHook = func(row, inp, lo, hi int) {
					if row == -1 {
						mu.Lock()
						rs = append(rs, []int{lo, hi})
						mu.Unlock()
					}
				}
				rsec16.VerifApplyMatrixParallelData(one, in, out, g)
				rsec16.VerifStepHook = nil
				sort.Slice(rs, func(i, j int) bool { return rs[i][0] < rs[j][0] })
				per, n := rsec16.VerifCalculateParallelParams(l, g, 16, 16)
				lg.Emit(tracelog.M{"ev": "ranges", "len": l, "g": g, "ranges": rs, "per": per, "n": n})
			}
		}
	}
	// (C) ungated results: every goroutine count gives the bytes of g = 1 (run under -race by the check);
	// beyond the grid: long shards just above multiples of 32 KiB, 64 KiB and 2 MiB (chunked schedulers, wide counters)
	lensC := append(append([]int{}, lens...), 32770, 32768+14, 65540, 65548, 98312, 131086, 2097152+70,
		// a few whole 64 KiB blocks plus a remainder, with goroutine counts that do not divide the block count
		262146, 393316, 589856, 655360+18)
	for _, l := range lensC {
		if !thorough && l > 200 && l%5 != 0 && l < 200000 {
			continue
		}
		d, p := 1+rng.Intn(5), 1+rng.Intn(4)
		data := make([][]byte, d)
		for i := range data {
			data[i] = make([]byte, l)
			rng.Read(data[i])
		}
		c1, err := rsec16.NewCoderPAR2Vandermonde(d, p, 1)
		if err != nil {
			return err
		}
		par1 := c1.GenerateParity(data)
		for _, g := range []int{2, 3, 4, 5, 6, 7, 8, 16, 33, 40} {
			cg, _ := rsec16.NewCoderPAR2Vandermonde(d, p, g)
			parg := cg.GenerateParity(data)
			eq := true
			for i := range par1 {
				if !bytes.Equal(par1[i], parg[i]) {
					eq = false
				}
			}
			// reconstruction with as many missing data shards as parity shards allow
			miss := p
			if miss > d {
				miss = d
			}
			dd := make([][]byte, d)
			copy(dd, data)
			for k := 0; k < miss; k++ {
				dd[k] = nil
			}
			err := cg.ReconstructData(dd, parg)
			req := err == nil
			if err == nil {
				for i := range data {
					if !bytes.Equal(dd[i], data[i]) {
						req = false
					}
				}
			}
			singular := err != nil && err.Error() == "singular matrix"
			lg.Emit(tracelog.M{"ev": "gresult", "len": l, "g": g, "d": d, "p": p, "gomaxprocs": runtime.GOMAXPROCS(0),
				"parity_equal": eq, "reconstruct_equal": req || singular})
		}
	}
	// (C2) wide codes over short shards, many repetitions: more goroutines than 16-byte ranges, so any sharing of a
	// range between workers (splitting the inputs, accumulating partial sums) is exercised under many interleavings
	reps := 300
	if thorough {
		reps = 3000
	}
	for _, d := range []int{32, 64, 256} {
		for _, l := range []int{16, 32, 48, 100} {
			p := 1 + rng.Intn(4)
			data := make([][]byte, d)
			for i := range data {
				data[i] = make([]byte, l)
				rng.Read(data[i])
			}
			c1, err := rsec16.NewCoderPAR2Vandermonde(d, p, 1)
			if err != nil {
				return err
			}
			par1 := c1.GenerateParity(data)
			for _, g := range []int{4, 8, 16, 64} {
				cg, _ := rsec16.NewCoderPAR2Vandermonde(d, p, g)
				eq, req := true, true
				for r := 0; r < reps; r++ {
					parg := cg.GenerateParity(data)
					for i := range par1 {
						if !bytes.Equal(par1[i], parg[i]) {
							eq = false
						}
					}
					dd := make([][]byte, d)
					copy(dd, data)
					for k := 0; k < p; k++ {
						dd[(k*7+r)%d] = nil
					}
					if err := cg.ReconstructData(dd, par1); err == nil {
						for i := range data {
							if !bytes.Equal(dd[i], data[i]) {
								req = false
							}
						}
					} else if err.Error() != "singular matrix" {
						req = false
					}
				}
				lg.Emit(tracelog.M{"ev": "gresult", "len": l, "g": g, "d": d, "p": p, "gomaxprocs": runtime.GOMAXPROCS(0), "reps": reps,
					"parity_equal": eq, "reconstruct_equal": req})
			}
		}
	}
	// (D) par2.Create / Repair are byte-identical for every goroutine option
	if *ranges {
		for trial := 0; trial < 3; trial++ {
			base := filepath.Join(c.dir, fmt.Sprintf("c12d-%d", trial))
			files := map[string][]byte{}
			names := []string{"a.bin", "b.bin", "c.bin"}
			for _, n := range names {
				files[n] = make([]byte, 100+rng.Intn(5000))
				rng.Read(files[n])
			}
			s := []int{4, 64, 500}[trial]
			var createHashes, repairHashes []string
			gl := []int{1, 2, 3, 7, 16, 64}
			for _, g := range gl {
				dir := filepath.Join(base, fmt.Sprintf("g%d", g))
				a, err := buildArch(dir, names, files, s, 5, g, "set")
				if err != nil {
					return err
				}
				h, _ := hashFiles(dir)
				createHashes = append(createHashes, h)
				disk := map[string][]byte{"a.bin": nil, "b.bin": append([]byte{1, 2, 3}, files["b.bin"]...), "c.bin": files["c.bin"]}
				a.materialise(dir, disk, a.VolFiles)
				ro := runRepair(filepath.Join(dir, a.Index), g, false, false, nil)
				h2, _ := hashFiles(dir)
				repairHashes = append(repairHashes, h2+":"+ro.Err+fmt.Sprint(ro.Repaired))
			}
			os.RemoveAll(base)
			lg.Emit(tracelog.M{"ev": "gcompare", "trial": trial, "gs": gl, "create_digests": createHashes, "repair_digests": repairHashes})
		}
	}
	return nil
}
