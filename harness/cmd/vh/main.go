// Command vh is the Go side of the /verif machinery: it drives the real gopar code built
// from /repo's working tree (with -tags verif), observes what it does and writes ndjson
// event traces that the TLA+ trace specifications judge.  It never decides a verdict.
package main

import (
	"flag"
	"fmt"
	"os"
	"sort"
)

type command struct {
	run  func(args []string) error
	help string
}

var commands = map[string]command{}

func register(name, help string, run func(args []string) error) {
	commands[name] = command{run, help}
}

// common flags
type common struct {
	fs   *flag.FlagSet
	out  string
	tier string
	seed int64
	in   string
	dir  string
}

func newCommon(name string) *common {
	c := &common{fs: flag.NewFlagSet(name, flag.ExitOnError)}
	c.fs.StringVar(&c.out, "out", "trace.ndjson", "output ndjson trace")
	c.fs.StringVar(&c.tier, "tier", "quick", "quick|thorough")
	c.fs.Int64Var(&c.seed, "seed", 1, "seed for every random choice")
	c.fs.StringVar(&c.in, "in", "", "input file (cases emitted by TLC, JSON lines)")
	c.fs.StringVar(&c.dir, "dir", "", "scratch directory for sandboxes")
	return c
}

func main() {
	if len(os.Args) < 2 {
		var names []string
		for n := range commands {
			names = append(names, n)
		}
		sort.Strings(names)
		for _, n := range names {
			fmt.Printf("  %-14s %s\n", n, commands[n].help)
		}
		os.Exit(64)
	}
	c, ok := commands[os.Args[1]]
	if !ok {
		fmt.Fprintf(os.Stderr, "unknown command %q\n", os.Args[1])
		os.Exit(64)
	}
	if err := c.run(os.Args[2:]); err != nil {
		fmt.Fprintf(os.Stderr, "vh %s: %v\n", os.Args[1], err)
		os.Exit(70)
	}
}
