package main

import (
	"bufio"
	"bytes"
	"encoding/json"
	"fmt"
	"math/rand"
	"os"

	"github.com/akalin/gopar/rsec16"

	"verif/harness/gfref"
	"verif/harness/tracelog"
)

func init() {
	register("c07a", "run TLC-enumerated erasure patterns on the real rsec16 coders", runC07A)
	register("c07b", "seeded larger codes / erasure sets on the real rsec16 coders", runC07B)
}

type c07Case struct {
	Coder  string `json:"coder"`
	D      int    `json:"d"`
	P      int    `json:"p"`
	AvailD []int  `json:"availd"`
	AvailP []int  `json:"availp"`
	Expect string `json:"expect"`
}

func classifyRSErr(err error) string {
	if err == nil {
		return ""
	}
	if _, ok := err.(rsec16.NotEnoughParityShardsError); ok {
		return "notenough"
	}
	if err.Error() == "singular matrix" {
		return "singular"
	}
	return "other:" + err.Error()
}

func words(b []byte) []int {
	out := make([]int, len(b)/2)
	for i := range out {
		out[i] = int(b[2*i]) | int(b[2*i+1])<<8
	}
	return out
}

// rsRoundRows is rsRound with the words of the given parity rows (1-based) logged for TLC.
func rsRoundRows(lg *tracelog.Log, rng *rand.Rand, cs c07Case, length, g int, rows []int) error {
	wordRows = rows
	defer func() { wordRows = nil }()
	return rsRound(lg, rng, cs, length, g, true)
}

var wordRows []int

func rsRound(lg *tracelog.Log, rng *rand.Rand, cs c07Case, length, g int, withWords bool) error {
	// coders are values meant to be reused: the same coder object serves every round of its shape
	var coder rsec16.Coder
	var err error
	key := fmt.Sprintf("%s/%d/%d/%d", cs.Coder, cs.D, cs.P, g)
	if c, ok := coderCache[key]; ok {
		coder = c
	} else {
		if cs.Coder == "cauchy" {
			coder, err = rsec16.NewCoderCauchy(cs.D, cs.P, g)
		} else {
			coder, err = rsec16.NewCoderPAR2Vandermonde(cs.D, cs.P, g)
		}
		if err != nil {
			return err
		}
		if len(coderCache) > 64 {
			coderCache = map[string]rsec16.Coder{}
		}
		coderCache[key] = coder
	}
	data := make([][]byte, cs.D)
	orig := make([][]byte, cs.D)
	for i := range data {
		data[i] = make([]byte, length)
		rng.Read(data[i])
		orig[i] = append([]byte{}, data[i]...)
	}
	parity := coder.GenerateParity(data)
	for i := range data {
		if !bytes.Equal(data[i], orig[i]) {
			// GenerateParity modified its input
			data[i] = append([]byte{}, data[i]...)
		}
	}
	ev := tracelog.M{"ev": "rs", "coder": cs.Coder, "d": cs.D, "p": cs.P, "availd": cs.AvailD, "availp": cs.AvailP, "len": length, "g": g,
		"expect": cs.Expect, "haswords": withWords}
	if withWords {
		dw := make([][]int, cs.D)
		for i := range dw {
			dw[i] = words(orig[i])
		}
		pw := make([][]int, cs.P)
		prows := []int{}
		for i := range pw {
			pw[i] = words(parity[i])
			if wordRows == nil {
				prows = append(prows, i+1)
			}
		}
		if wordRows != nil {
			prows = wordRows
			for i := range pw {
				keep := false
				for _, r := range wordRows {
					if r == i+1 {
						keep = true
					}
				}
				if !keep {
					pw[i] = []int{}
				}
			}
		}
		ev["dwords"], ev["pwords"], ev["prows"] = dw, pw, prows
	}
	// every fifth round with a spare parity shard: that spare (available, but beyond the shards the decoder needs)
	// holds garbage.  Whatever the coder makes of it, a nil error still means the originals and the supplied shards
	// stay as they were; the capability clauses are waived for these rounds (the premise "available" is debatable).
	c07Round++
	garbage := false
	if k := cs.D - len(cs.AvailD); c07Round%5 == 3 && k > 0 && len(cs.AvailP) > k && length > 0 {
		sp := parity[cs.AvailP[k]-1]
		sp[len(sp)/2] ^= 0x40
		garbage = true
	}
	ev["garbage"] = garbage
	inD := make([][]byte, cs.D)
	inP := make([][]byte, cs.P)
	keepD := map[int][]byte{}
	keepP := map[int][]byte{}
	for _, i := range cs.AvailD {
		inD[i-1] = data[i-1]
		keepD[i-1] = append([]byte{}, data[i-1]...)
	}
	for _, i := range cs.AvailP {
		inP[i-1] = parity[i-1]
		keepP[i-1] = append([]byte{}, parity[i-1]...)
	}
	rerr := func() (e error) {
		defer func() {
			if r := recover(); r != nil {
				e = &panicErr{r}
			}
		}()
		return coder.ReconstructData(inD, inP)
	}()
	ev["err"] = classifyRSErr(rerr)
	restored := rerr == nil
	if rerr == nil {
		for i := range inD {
			if inD[i] == nil || !bytes.Equal(inD[i], orig[i]) {
				restored = false
			}
		}
	}
	unchanged := true
	for i, b := range keepD {
		if !bytes.Equal(b, orig[i]) || inD[i] == nil || !bytes.Equal(inD[i], b) { // taken away from the caller counts as altered
			unchanged = false
		}
	}
	for i, b := range keepP {
		if inP[i] == nil || !bytes.Equal(inP[i], b) {
			unchanged = false
		}
	}
	ev["restored"], ev["supplied_unchanged"] = restored, unchanged
	lg.Emit(ev)
	return nil
}

var coderCache = map[string]rsec16.Coder{}
var c07Round int

type panicErr struct{ v interface{} }

func (p *panicErr) Error() string { return "panic" }

func runC07A(args []string) error {
	c := newCommon("c07a")
	c.fs.Parse(args)
	f, err := os.Open(c.in)
	if err != nil {
		return err
	}
	defer f.Close()
	lg, err := tracelog.Create(c.out)
	if err != nil {
		return err
	}
	defer lg.Close()
	rng := rand.New(rand.NewSource(c.seed*17 + 3))
	lens := []int{2, 4, 14, 16, 30, 34, 64, 100, 4098}
	gs := []int{1, 2, 3, 8, 33}
	sc := bufio.NewScanner(f)
	sc.Buffer(make([]byte, 1<<20), 1<<24)
	i := 0
	var allCases []c07Case
	for sc.Scan() {
		var cs c07Case
		if err := json.Unmarshal(sc.Bytes(), &cs); err != nil {
			return err
		}
		if cs.AvailD == nil {
			cs.AvailD = []int{}
		}
		if cs.AvailP == nil {
			cs.AvailP = []int{}
		}
		allCases = append(allCases, cs)
		// every case with tiny shards (words judged by TLC) and with two further lengths / goroutine counts
		if err := rsRound(lg, rng, cs, []int{2, 4}[i%2], gs[i%len(gs)], true); err != nil {
			return err
		}
		nmore := 2
		if c.tier == "thorough" {
			nmore = 5
		}
		for k := 0; k < nmore; k++ {
			if err := rsRound(lg, rng, cs, lens[(i+k*3)%len(lens)], gs[(i+k)%len(gs)], false); err != nil {
				return err
			}
		}
		i++
	}
	if err := sc.Err(); err != nil {
		return err
	}
	// second pass: every pattern once more, long after it was first seen and after hundreds of other patterns
	// (state carried between calls - caches keyed by erasure pattern, pooled buffers - must not leak into a later call)
	for k := len(allCases) - 1; k >= 0; k-- {
		if err := rsRound(lg, rng, allCases[k], 6, gs[k%len(gs)], true); err != nil {
			return err
		}
	}
	return nil
}

func runC07B(args []string) error {
	c := newCommon("c07b")
	c.fs.Parse(args)
	lg, err := tracelog.Create(c.out)
	if err != nil {
		return err
	}
	defer lg.Close()
	rng := rand.New(rand.NewSource(c.seed*23 + 11))
	n := 150
	if c.tier == "thorough" {
		n = 1200
	}
	pick := func(total, k int) []int { // k distinct 1-based indices, ascending
		perm := rng.Perm(total)[:k]
		out := make([]int, k)
		for i, v := range perm {
			out[i] = v + 1
		}
		sortInts(out)
		return out
	}
	for i := 0; i < n; i++ {
		cs := c07Case{Expect: "none"}
		cs.Coder = []string{"cauchy", "vandermonde"}[i%2]
		cs.D = 1 + rng.Intn(40)
		cs.P = 1 + rng.Intn(20)
		switch i % 12 {
		case 3:
			cs.D = 200 + rng.Intn(2800)
			cs.P = 1 + rng.Intn(64)
		case 7:
			cs.D = 100 + rng.Intn(200)
			cs.P = 256 + rng.Intn(50)
		}
		// number of missing data shards around the capability
		np := rng.Intn(cs.P + 1) // available parity shards
		k := 0
		switch rng.Intn(5) {
		case 0:
			k = 0
		case 1:
			k = np
		case 2:
			k = np + 1
		default:
			k = rng.Intn(np + 2)
		}
		if k > cs.D {
			k = cs.D
		}
		if k > 48 {
			k = 48
			if np < k && rng.Intn(2) == 0 {
				np = k
			}
		}
		if np > cs.P {
			np = cs.P
		}
		cs.AvailP = pick(cs.P, np)
		cs.AvailD = pick(cs.D, cs.D-k)
		length := []int{2, 6, 16, 18, 32, 62, 256, 1000, 4100}[rng.Intn(9)]
		if cs.D > 500 {
			length = []int{2, 16, 34}[rng.Intn(3)]
		}
		g := []int{1, 2, 3, 5, 8, 16, 40}[rng.Intn(7)]
		if err := rsRound(lg, rng, cs, length, g, false); err != nil {
			return err
		}
	}
	// the format's own singular combination, found by search with the independent field:
	// two columns whose constants agree in the e-th power, parity rows {0, e} only
	consts := gfref.Par2Consts(400)
	found := 0
	for _, e := range []int{255, 85, 51, 257 * 3, 15} {
		for a := 0; a < 400 && found < 6; a++ {
			for b := a + 1; b < 400; b++ {
				if gfref.Pow16(consts[a], uint64(e)) == gfref.Pow16(consts[b], uint64(e)) {
					cs := c07Case{Coder: "vandermonde", D: b + 1 + rng.Intn(5), P: e + 1, Expect: "none"}
					for i := 1; i <= cs.D; i++ {
						if i != a+1 && i != b+1 {
							cs.AvailD = append(cs.AvailD, i)
						}
					}
					cs.AvailP = []int{1, e + 1}
					if err := rsRound(lg, rng, cs, 16, 2, false); err != nil {
						return err
					}
					// the same columns with one more parity row before the bad one are fine
					cs.AvailP = []int{1, 2, e + 1}
					if err := rsRound(lg, rng, cs, 16, 3, false); err != nil {
						return err
					}
					// a third missing column and parity rows {0, e, e+1}: solvable, but elimination meets a
					// zero pivot in the second column and must swap rows (also of the wide right-hand side)
					if b+2 < cs.D || a > 0 {
						third := cs.D
						cs3 := c07Case{Coder: "vandermonde", D: cs.D, P: e + 2, Expect: "none", AvailP: []int{1, e + 1, e + 2}}
						for i := 1; i <= cs3.D; i++ {
							if i != a+1 && i != b+1 && i != third {
								cs3.AvailD = append(cs3.AvailD, i)
							}
						}
						if err := rsRound(lg, rng, cs3, 34, 2, false); err != nil {
							return err
						}
					}
					found++
					break
				}
			}
		}
	}
	// erasure patterns whose elimination needs OVERLAPPING row exchanges (the row permutation is not an
	// involution: a 3-cycle or longer), found by simulating the elimination with the independent field on
	// structured candidates (columns whose constants agree in an e-th power, parity rows around multiples of e)
	{
		type pat struct{ cols, rows []int }
		var pats []pat
		seenPat := map[string]bool{}
		for _, e := range []int{255, 257, 85, 51} {
			groups := map[uint16][]int{}
			for j := 0; j < 300; j++ {
				v := gfref.Pow16(consts[j], uint64(e))
				groups[v] = append(groups[v], j)
			}
			var gl [][]int
			for j := 0; j < 300; j++ { // deterministic order
				v := gfref.Pow16(consts[j], uint64(e))
				if g := groups[v]; len(g) >= 2 && g[0] == j {
					gl = append(gl, g)
				}
			}
			if len(gl) == 0 {
				continue
			}
			rowPool := []int{0, 1, e, e + 1, e + 2, e + 3, 2 * e, 2*e + 1}
			for try := 0; try < 60000 && len(pats) < 12; try++ {
				k := 3 + rng.Intn(3)
				g := gl[rng.Intn(len(gl))]
				colSet := map[int]bool{}
				for _, j := range g {
					if len(colSet) < 2+rng.Intn(2) {
						colSet[j] = true
					}
				}
				for len(colSet) < k {
					colSet[rng.Intn(300)] = true
				}
				rowSet := map[int]bool{0: true}
				for len(rowSet) < k {
					rowSet[rowPool[rng.Intn(len(rowPool))]] = true
				}
				var cols, rows []int
				for j := range colSet {
					cols = append(cols, j)
				}
				for r := range rowSet {
					rows = append(rows, r)
				}
				sortInts(cols)
				sortInts(rows)
				// simulate: first non-zero pivot at or below the diagonal, swap, eliminate
				m := make([][]uint16, k)
				for r := range m {
					m[r] = make([]uint16, k)
					for cc := range m[r] {
						m[r][cc] = gfref.Pow16(consts[cols[cc]], uint64(rows[r]))
					}
				}
				perm := make([]int, k)
				for i := range perm {
					perm[i] = i
				}
				singular := false
				for i := 0; i < k && !singular; i++ {
					pv := -1
					for r := i; r < k; r++ {
						if m[r][i] != 0 {
							pv = r
							break
						}
					}
					if pv < 0 {
						singular = true
						break
					}
					m[i], m[pv] = m[pv], m[i]
					perm[i], perm[pv] = perm[pv], perm[i]
					inv := gfref.Inv16(m[i][i])
					for r := i + 1; r < k; r++ {
						if m[r][i] == 0 {
							continue
						}
						f := gfref.FMul16(m[r][i], inv)
						for cc := i; cc < k; cc++ {
							m[r][cc] ^= gfref.FMul16(f, m[i][cc])
						}
					}
				}
				if singular {
					continue
				}
				involution := true
				for i := range perm {
					if perm[perm[i]] != i {
						involution = false
					}
				}
				key := fmt.Sprint(cols, rows)
				if involution || seenPat[key] {
					continue
				}
				seenPat[key] = true
				pats = append(pats, pat{cols, rows})
			}
		}
		for pi, pt := range pats {
			maxc, maxr := pt.cols[len(pt.cols)-1], pt.rows[len(pt.rows)-1]
			cs := c07Case{Coder: "vandermonde", D: maxc + 1 + rng.Intn(4), P: maxr + 1, Expect: "none"}
			miss := map[int]bool{}
			for _, j := range pt.cols {
				miss[j+1] = true
			}
			for i := 1; i <= cs.D; i++ {
				if !miss[i] {
					cs.AvailD = append(cs.AvailD, i)
				}
			}
			for _, r := range pt.rows {
				cs.AvailP = append(cs.AvailP, r+1)
			}
			if err := rsRound(lg, rng, cs, []int{6, 34, 16}[pi%3], []int{1, 2, 3, 4}[pi%4], false); err != nil {
				return err
			}
		}
		lg.Flush()
		if len(pats) == 0 {
			return fmt.Errorf("c07b: no erasure pattern with overlapping row exchanges found")
		}
	}
	// a coding coefficient equal to 0xffff (the last row of every multiplication table): the smallest
	// (column, exponent) with Const(column)^exponent = 0xffff, shards long enough for the SIMD blocks
	// and a scalar tail; TLC recomputes that parity row from the definitions
	{
		cj, ce := -1, -1
		for e := 1; e < 300 && cj < 0; e++ {
			for j := 0; j < 400; j++ {
				if gfref.Pow16(consts[j], uint64(e)) == 0xffff {
					cj, ce = j, e
					break
				}
			}
		}
		if cj >= 0 {
			cs := c07Case{Coder: "vandermonde", D: cj + 2, P: ce + 1, Expect: "none"}
			for i := 1; i <= cs.D; i++ {
				if i != cj+1 {
					cs.AvailD = append(cs.AvailD, i)
				}
			}
			cs.AvailP = []int{ce + 1}
			for _, g := range []int{1, 2} {
				if err := rsRoundRows(lg, rng, cs, 72, g, []int{ce + 1}); err != nil {
					return err
				}
			}
		}
	}
	// more distinct erasure patterns than any small cache holds, each visited twice with a fresh coder (12+4: all 495
	// four-shard erasures of the data, then again in reverse order)
	for _, coder := range []string{"cauchy", "vandermonde"} {
		var pats [][]int
		for a := 1; a <= 12; a++ {
			for b := a + 1; b <= 12; b++ {
				for c2 := b + 1; c2 <= 12; c2++ {
					for d2 := c2 + 1; d2 <= 12; d2++ {
						pats = append(pats, []int{a, b, c2, d2})
					}
				}
			}
		}
		visit := func(miss []int, g int) error {
			cs := c07Case{Coder: coder, D: 12, P: 4, AvailP: []int{1, 2, 3, 4}, Expect: "none"}
			m := map[int]bool{}
			for _, x := range miss {
				m[x] = true
			}
			for i := 1; i <= 12; i++ {
				if !m[i] {
					cs.AvailD = append(cs.AvailD, i)
				}
			}
			return rsRound(lg, rng, cs, 4, g, false)
		}
		for k, pt := range pats {
			if err := visit(pt, 1+k%3); err != nil {
				return err
			}
		}
		for k := len(pats) - 1; k >= 0; k-- {
			if err := visit(pats[k], 1+k%2); err != nil {
				return err
			}
		}
	}
	// shards of 2 MiB and more in one kernel call (>= 65536 SIMD blocks: a 16-bit loop counter would wrap), one goroutine
	for _, cs := range []c07Case{
		{Coder: "cauchy", D: 3, P: 2, AvailD: []int{2, 3}, AvailP: []int{2}, Expect: "none"},
		{Coder: "vandermonde", D: 3, P: 2, AvailD: []int{1}, AvailP: []int{1, 2}, Expect: "none"},
	} {
		if err := rsRound(lg, rng, cs, 2097152+70, 1, false); err != nil {
			return err
		}
		// shard lengths just above multiples of 32 KiB (cache-sized chunking would leave a short tail), few goroutines
		for _, lg2 := range [][2]int{{32770, 1}, {65540, 2}, {65548, 1}, {98312, 3}, {131086, 4}, {32768 + 14, 1}, {65536 + 30, 2}} {
			if err := rsRound(lg, rng, cs, lg2[0], lg2[1], false); err != nil {
				return err
			}
		}
	}
	if c.tier == "thorough" {
		// near the documented limits
		for _, cs := range []c07Case{
			{Coder: "vandermonde", D: 32768, P: 4, AvailP: []int{1, 2, 3, 4}, Expect: "none"},
			{Coder: "cauchy", D: 2000, P: 2000, Expect: "none"},
		} {
			miss := map[int]bool{}
			for len(miss) < 3 {
				miss[1+rng.Intn(cs.D)] = true
			}
			for i := 1; i <= cs.D; i++ {
				if !miss[i] {
					cs.AvailD = append(cs.AvailD, i)
				}
			}
			if cs.AvailP == nil {
				cs.AvailP = pick(cs.P, 5)
			}
			if err := rsRound(lg, rng, cs, 4, 4, false); err != nil {
				return err
			}
		}
	}
	return nil
}

func sortInts(a []int) {
	for i := 1; i < len(a); i++ {
		for j := i; j > 0 && a[j-1] > a[j]; j-- {
			a[j-1], a[j] = a[j], a[j-1]
		}
	}
}
