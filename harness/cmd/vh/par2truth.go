package main

import (
	"bytes"
	"math/bits"
)

// Ground truth about a PAR2 directory, computed independently of gopar: for every protected
// slice (global index in recovery-set order) whether its zero-padded content occurs anywhere in
// the surviving protected files (Occ: upper bound of what a scan may credit) and whether it
// survives in the sense of Par2Scan.tla (Surv: lower bound of what every correct scan must
// credit: the file is intact, or some occurrence is not overlapped by an earlier occurrence of
// any protected slice).  On tiny inputs TLC recomputes both from the logged bytes and the trace
// specification checks that this observer agrees (clause OBS.observer_agrees).

const hp = (1 << 61) - 1
const hb = 1000003

func mulmod(a, b uint64) uint64 {
	hi, lo := bits.Mul64(a, b)
	// reduce modulo 2^61-1
	r := (lo & hp) + (lo >> 61) + (hi << 3)
	r = (r & hp) + (r >> 61)
	if r >= hp {
		r -= hp
	}
	return r
}

func addmod(a, b uint64) uint64 {
	r := a + b
	if r >= hp {
		r -= hp
	}
	return r
}

func submod(a, b uint64) uint64 {
	if a >= b {
		return a - b
	}
	return a + hp - b
}

type truth struct {
	N     int
	Occ   []bool
	Surv  []bool
	NOcc  int
	NSurv int
}

type protSet struct {
	S     int
	Order []string // recovery-set order
	Data  map[string][]byte
}

func (ps *protSet) total() int {
	n := 0
	for _, f := range ps.Order {
		n += (len(ps.Data[f]) + ps.S - 1) / ps.S
	}
	return n
}

func padded(data []byte, off, s int) []byte {
	out := make([]byte, s)
	end := off + s
	if end > len(data) {
		end = len(data)
	}
	if off < end {
		copy(out, data[off:end])
	}
	return out
}

func computeTruth(ps *protSet, disk map[string][]byte) truth {
	s := ps.S
	pw := make([]uint64, s+1)
	pw[0] = 1
	for i := 1; i <= s; i++ {
		pw[i] = mulmod(pw[i-1], hb)
	}
	hashOf := func(b []byte) uint64 {
		var h uint64
		for _, x := range b {
			h = addmod(mulmod(h, hb), uint64(x)+1)
		}
		return h
	}
	// hash of m real bytes followed by z zero bytes: zeros contribute (0+1) each
	zeroTail := make([]uint64, s+1) // hash of z zero bytes
	for z := 1; z <= s; z++ {
		zeroTail[z] = addmod(mulmod(zeroTail[z-1], hb), 1)
	}
	type cls struct {
		content []byte
		idx     []int
	}
	classes := map[uint64][]*cls{}
	var slices [][]byte
	gi := 0
	for _, f := range ps.Order {
		d := ps.Data[f]
		for k := 0; k*s < len(d); k++ {
			c := padded(d, k*s, s)
			slices = append(slices, c)
			h := hashOf(c)
			found := false
			for _, cl := range classes[h] {
				if bytes.Equal(cl.content, c) {
					cl.idx = append(cl.idx, gi)
					found = true
					break
				}
			}
			if !found {
				classes[h] = append(classes[h], &cls{c, []int{gi}})
			}
			gi++
		}
	}
	t := truth{N: gi, Occ: make([]bool, gi), Surv: make([]bool, gi)}
	// intact files
	gi = 0
	for _, f := range ps.Order {
		d := ps.Data[f]
		n := (len(d) + s - 1) / s
		if cur, ok := disk[f]; ok && cur != nil && bytes.Equal(cur, d) {
			for k := 0; k < n; k++ {
				t.Surv[gi+k] = true
			}
		}
		gi += n
	}
	for _, f := range ps.Order {
		d, ok := disk[f]
		if !ok || d == nil || len(d) == 0 {
			continue
		}
		// prefix hashes
		pre := make([]uint64, len(d)+1)
		for i, x := range d {
			pre[i+1] = addmod(mulmod(pre[i], hb), uint64(x)+1)
		}
		lastHit := -1 << 30
		for j := 0; j < len(d); j++ {
			m := s
			if j+m > len(d) {
				m = len(d) - j
			}
			h := submod(pre[j+m], mulmod(pre[j], pw[m]))
			if m < s {
				h = addmod(mulmod(h, pw[s-m]), zeroTail[s-m])
			}
			cands := classes[h]
			if len(cands) == 0 {
				continue
			}
			var hit *cls
			for _, cl := range cands {
				if bytes.Equal(cl.content[:m], d[j:j+m]) && allZero(cl.content[m:]) {
					hit = cl
					break
				}
			}
			if hit == nil {
				continue
			}
			clean := lastHit <= j-s
			for _, g := range hit.idx {
				t.Occ[g] = true
				if clean {
					t.Surv[g] = true
				}
			}
			lastHit = j
		}
	}
	for g := 0; g < t.N; g++ {
		if t.Occ[g] {
			t.NOcc++
		}
		if t.Surv[g] {
			t.NSurv++
		}
	}
	return t
}

func allZero(b []byte) bool {
	for _, x := range b {
		if x != 0 {
			return false
		}
	}
	return true
}
