package main

// fsobj: EXTENSION X05 - the file layer under par1/par2 and the fidelity of memfs.MemFS.
//
// Applies the same seeded sequences of calls to the real operating-system file layer
// (par2's defaultFileIO for ReadFile / WriteFile / FindWithPrefixAndSuffix; os.Remove,
// os.Rename and os.Mkdir for the rest) in a sandbox directory and to a real memfs.MemFS,
// and records both results of every call.  Paths are character sequences over a tiny
// alphabet so that spec/Trace_FileIO.tla can compute on them.  Nothing is decided here.

import (
	"fmt"
	"math/rand"
	"os"
	"sort"
	"strings"

	"github.com/akalin/gopar/memfs"
	"github.com/akalin/gopar/par2"

	"verif/harness/sandbox"
	"verif/harness/tracelog"
)

func init() {
	register("fsobj", "the same call sequences on the OS file layer and on memfs.MemFS (extension X05)", runFsObj)
}

type fsUniverse struct {
	Paths    [][]int `json:"paths"`
	Dirs     [][]int `json:"dirs"`
	Datas    [][]int `json:"datas"`
	Prefixes [][]int `json:"prefixes"`
	Suffixes [][]int `json:"suffixes"`
}

const fsAlphabet = "/ab."

func fsStr(p []int) string {
	b := make([]byte, len(p))
	for i, c := range p {
		b[i] = fsAlphabet[c]
	}
	return string(b)
}

func fsInts(s string) []int {
	out := make([]int, len(s))
	for i := 0; i < len(s); i++ {
		out[i] = strings.IndexByte(fsAlphabet, s[i])
	}
	return out
}

func fsClass(err error) string {
	if err == nil {
		return ""
	}
	if os.IsNotExist(err) {
		return "notexist"
	}
	return "other"
}

// a random well-formed relative path: components over {a, b, .}, none empty, none "." or ".."
func fsRandPath(rng *rand.Rand) []int {
	for {
		n := 1 + rng.Intn(3)
		var comps []string
		for i := 0; i < n; i++ {
			m := 1 + rng.Intn(3)
			b := make([]byte, m)
			for k := range b {
				b[k] = "ab."[rng.Intn(3)]
			}
			comps = append(comps, string(b))
		}
		ok := true
		for _, c := range comps {
			if c == "." || c == ".." {
				ok = false
			}
		}
		if ok {
			return fsInts(strings.Join(comps, "/"))
		}
	}
}

func runFsObj(args []string) error {
	c := newCommon("fsobj")
	n := c.fs.Int("n", 300, "number of traces")
	length := c.fs.Int("len", 30, "events per trace")
	c.fs.Parse(args)
	var u fsUniverse
	if err := readJSONFile(c.in, &u); err != nil {
		return err
	}
	lg, err := tracelog.Create(c.out)
	if err != nil {
		return err
	}
	defer lg.Close()
	rng := rand.New(rand.NewSource(c.seed*15485863 + 11))
	work := c.dir + "/fsobj"
	osio := par2.VerifDefaultFileIO()
	var mfs memfs.MemFS
	abs := func(p []int) string { return work + "/" + fsStr(p) }
	rel := func(s string) []int { return fsInts(strings.TrimPrefix(s, work+"/")) }
	res := func(err error, val interface{}) tracelog.M {
		if val == nil || err != nil {
			val = []int{}
		}
		return tracelog.M{"err": fsClass(err), "val": val}
	}
	guardFS := func(f func() tracelog.M) (out tracelog.M) {
		defer func() {
			if r := recover(); r != nil {
				out = tracelog.M{"err": "panic", "val": []int{}, "errtext": fmt.Sprint(r)}
			}
		}()
		return f()
	}
	pathList := func(l []string) [][]int {
		sort.Strings(l)
		out := [][]int{}
		for _, s := range l {
			out = append(out, rel(s))
		}
		return out
	}
	emit := func(op string, p, q, d []int, osr, memr tracelog.M) {
		if p == nil {
			p = []int{}
		}
		if q == nil {
			q = []int{}
		}
		if d == nil {
			d = []int{}
		}
		lg.Emit(tracelog.M{"ev": "fsop", "op": op, "p": p, "q": q, "d": d, "os": osr, "mem": memr})
	}
	none := tracelog.M{"err": "", "val": []int{}}
	pick := func(l [][]int) []int { return append([]int{}, l[rng.Intn(len(l))]...) }
	for t := 0; t < *n; t++ {
		if err := sandbox.Fresh(work); err != nil {
			return err
		}
		mfs = memfs.MakeMemFS(work, map[string][]byte{})
		emit("reset", nil, nil, nil, none, none)
		// even traces stay inside TLC's universe, odd ones use random paths over the same alphabet
		inU := t%2 == 0
		path := func() []int {
			if inU || rng.Intn(4) == 0 {
				return pick(u.Paths)
			}
			return fsRandPath(rng)
		}
		var known [][]int // paths used so far in this trace (so that later calls hit them)
		usePath := func() []int {
			if len(known) > 0 && rng.Intn(3) > 0 {
				return pick(known)
			}
			p := path()
			known = append(known, p)
			return p
		}
		for k := 0; k < *length; k++ {
			x := rng.Intn(100)
			switch {
			case x < 30:
				p := usePath()
				d := pick(u.Datas)
				if !inU {
					d = []int{rng.Intn(256), rng.Intn(256)}
				}
				data := intsToBytes(d)
				osr := guardFS(func() tracelog.M { return res(osio.WriteFile(abs(p), data), nil) })
				memr := guardFS(func() tracelog.M { return res(mfs.WriteFile(abs(p), append([]byte{}, data...)), nil) })
				emit("write", p, nil, d, osr, memr)
			case x < 50:
				p := usePath()
				osr := guardFS(func() tracelog.M {
					b, err := osio.ReadFile(abs(p))
					return res(err, bytesToInts(b))
				})
				memr := guardFS(func() tracelog.M {
					b, err := mfs.ReadFile(abs(p))
					return res(err, bytesToInts(b))
				})
				emit("read", p, nil, nil, osr, memr)
			case x < 60:
				p := usePath()
				osr := guardFS(func() tracelog.M {
					// the file-only removal MemFS.RemoveFile stands for
					if st, err := os.Lstat(abs(p)); err == nil && st.IsDir() {
						return res(fmt.Errorf("is a directory"), nil)
					}
					return res(os.Remove(abs(p)), nil)
				})
				memr := guardFS(func() tracelog.M {
					_, err := mfs.RemoveFile(abs(p))
					return res(err, nil)
				})
				emit("remove", p, nil, nil, osr, memr)
			case x < 70:
				p, q := usePath(), usePath()
				osr := guardFS(func() tracelog.M {
					if st, err := os.Lstat(abs(p)); err == nil && st.IsDir() {
						return res(fmt.Errorf("is a directory"), nil)
					}
					if _, err := os.Lstat(abs(p)); err != nil {
						return res(err, nil)
					}
					if st, err := os.Lstat(abs(q)); err == nil && st.IsDir() {
						return res(fmt.Errorf("target is a directory"), nil)
					}
					return res(os.Rename(abs(p), abs(q)), nil)
				})
				memr := guardFS(func() tracelog.M { return res(mfs.MoveFile(abs(p), abs(q)), nil) })
				emit("move", p, q, nil, osr, memr)
			case x < 88:
				var pre, suf []int
				if inU {
					pre, suf = pick(u.Prefixes), pick(u.Suffixes)
				} else {
					// a prefix of a known path (possibly ending in the separator) and a suffix of one
					pre, suf = []int{}, []int{}
					if len(known) > 0 {
						kp := pick(known)
						pre = kp[:rng.Intn(len(kp)+1)]
						ks := pick(known)
						cut := rng.Intn(len(ks) + 1)
						suf = ks[cut:]
						for _, ch := range suf { // the suffix gopar uses never contains the separator
							if ch == 0 {
								suf = []int{}
							}
						}
					}
				}
				osr := guardFS(func() tracelog.M {
					l, err := osio.FindWithPrefixAndSuffix(abs(pre), fsStr(suf))
					return res(err, pathList(l))
				})
				memr := guardFS(func() tracelog.M {
					l, err := mfs.FindWithPrefixAndSuffix(abs(pre), fsStr(suf))
					return res(err, pathList(l))
				})
				emit("find", pre, suf, nil, osr, memr)
			default:
				var d []int
				if inU && len(u.Dirs) > 0 {
					d = pick(u.Dirs)
				} else {
					p := usePath()
					cut := -1
					for i, ch := range p {
						if ch == 0 {
							cut = i
							if rng.Intn(2) == 0 {
								break
							}
						}
					}
					if cut < 0 {
						d = p
					} else {
						d = p[:cut]
					}
				}
				osr := guardFS(func() tracelog.M { return res(os.Mkdir(abs(d), 0755), nil) })
				emit("mkdir", d, nil, nil, osr, none)
			}
		}
	}
	return nil
}
