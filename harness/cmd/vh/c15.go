package main

import (
	"bufio"
	"bytes"
	"encoding/json"
	"fmt"
	"io/ioutil"
	"os"
	"path/filepath"
	"strings"
	"unicode/utf16"

	"github.com/akalin/gopar/par2"

	"verif/harness/refpar1"
	"verif/harness/refpar2"
	"verif/harness/sandbox"
	"verif/harness/tracelog"
)

func init() {
	register("c15", "archives declaring traversal names, run inside a canary tree", runC15)
}

type c15Name struct {
	Lead      bool     `json:"lead"`
	Comps     []string `json:"comps"`
	Trail     bool     `json:"trail"`
	Accept2   bool     `json:"accept2"`
	Accept1   bool     `json:"accept1"`
	Contained bool     `json:"contained"`
}

// canary tree:  root/canary  root/outer/canary  root/outer/x root/outer/y (decoys)  root/outer/sib/...
//
//	root/outer/arch/  <- the archive lives here      root/abs/...   targets of absolute names
func buildCanaryTree(root string) error {
	if err := sandbox.Fresh(root); err != nil {
		return err
	}
	for _, p := range []string{"canary.txt", "x", "y", "outer/canary.txt", "outer/x", "outer/y", "outer/..x", "outer/x..", "outer/...",
		"outer/sib/canary.txt", "outer/sib/x", "outer/arch-private/secret.bin", "outer/arch2/sub/s.bin", "outer/archive.bin", "outer/arch.old/x",
		"outer/arch/keep.txt", "outer/arch/sub/inner.txt", "abs/x", "abs/y", "abs/canary.txt"} {
		if err := sandbox.WriteFile(filepath.Join(root, filepath.FromSlash(p)), []byte("canary:"+p)); err != nil {
			return err
		}
	}
	return nil
}

func (n c15Name) str(absRoot string) string {
	s := strings.Join(n.Comps, "/")
	if n.Lead {
		s = absRoot + "/" + s
	}
	if n.Trail {
		s += "/"
	}
	return s
}

func outsideChanges(before, after sandbox.Snapshot, allowedPrefix string, exactDirOnly bool) []string {
	out := []string{}
	cr, del, chg, tch := sandbox.Diff(before, after)
	for _, l := range [][]string{cr, del, chg, tch} {
		for _, p := range l {
			if e, ok := after[p]; ok && e.IsDir {
				if eb, ok2 := before[p]; ok2 && eb.IsDir {
					if strings.HasPrefix(p+"/", allowedPrefix) || p+"/" == allowedPrefix {
						continue
					}
					// a directory outside changed (entries added/removed): reported through the entries themselves
					continue
				}
			}
			inside := strings.HasPrefix(p, allowedPrefix)
			if inside && exactDirOnly && strings.Contains(strings.TrimPrefix(p, allowedPrefix), "/") {
				inside = false
			}
			if !inside {
				out = append(out, p)
			}
		}
	}
	return out
}

func runC15(args []string) error {
	c := newCommon("c15")
	c.fs.Parse(args)
	f, err := os.Open(c.in)
	if err != nil {
		return err
	}
	defer f.Close()
	lg, err := tracelog.Create(c.out)
	if err != nil {
		return err
	}
	defer lg.Close()
	root := filepath.Join(c.dir, "c15root")
	arch := filepath.Join(root, "outer", "arch")
	absRoot := filepath.Join(root, "abs")
	sc := bufio.NewScanner(f)
	sc.Buffer(make([]byte, 1<<20), 1<<24)
	ni := 0
	thorough := c.tier == "thorough"
	for sc.Scan() {
		var nm c15Name
		if err := json.Unmarshal(sc.Bytes(), &nm); err != nil {
			return err
		}
		ni++
		name := nm.str(absRoot)
		positions := []int{ni % 3}
		if thorough {
			positions = []int{0, 1, 2}
		}
		for _, pos := range positions {
			// ---------------- PAR2
			if name != "" && !strings.ContainsRune(name, 0) {
				if err := buildCanaryTree(root); err != nil {
					return err
				}
				evil := refpar2.InFile{Name: name, Data: []byte("evil payload of " + fmt.Sprint(ni))}
				files := []refpar2.InFile{{Name: "ok1.dat", Data: []byte("first ok file")}, {Name: "ok2.dat", Data: []byte("second ok file, longer")}}
				n := 1 + pos
				var all []refpar2.InFile
				for i := 0; i < n-1; i++ {
					all = append(all, files[i])
				}
				all = append(all, evil)
				set := refpar2.NewSet(all, 8)
				slices := set.AllSlices()
				var idx, vol bytes.Buffer
				idx.Write(set.CreatorPacket("ref"))
				idx.Write(set.MainPacket())
				for i := range set.Files {
					idx.Write(set.FileDescPacket(i))
					idx.Write(set.IFSCPacket(i))
				}
				vol.Write(idx.Bytes())
				for e := 0; e < len(slices); e++ {
					vol.Write(set.RecvPacketWithData(uint32(e), refpar2.RecoveryBlock(slices, uint32(e))))
				}
				ioutil.WriteFile(filepath.Join(arch, "t.par2"), idx.Bytes(), 0644)
				ioutil.WriteFile(filepath.Join(arch, "t.vol0.par2"), vol.Bytes(), 0644)
				before, _ := sandbox.Take(root)
				vo := runVerify(filepath.Join(arch, "t.par2"), 2, false, nil)
				ro := runRepair(filepath.Join(arch, "t.par2"), 2, ni%2 == 0, false, nil)
				after, _ := sandbox.Take(root)
				lg.Emit(tracelog.M{"ev": "par2", "name": scrub([]string{name}, c.dir)[0], "pos": pos, "n": n, "accept_model": nm.Accept2, "contained": nm.Contained,
					"verify_err": vo.Err, "repair_err": ro.Err, "errtext": tail(vo.ErrText+"|"+ro.ErrText, 120), "repaired": scrub(ro.Repaired, c.dir),
					"outside": scrub(outsideChanges(before, after, "outer/arch/", false), c.dir), "crashed": vo.Err == "panic" || ro.Err == "panic",
					"is_outside": false, "refused": false, "nothing_written": true})
			}
			// ---------------- PAR2 with an optional Unicode Filename packet: every file description packet carries a
			// harmless ASCII name; the hostile spelling arrives in a "PAR 2.0\0UniFileN" packet for the same file id.
			// A reader may ignore that packet or use it, but must not let it direct a write outside the directory.
			if name != "" && !strings.ContainsRune(name, 0) && (thorough || ni%4 == 0) {
				if err := buildCanaryTree(root); err != nil {
					return err
				}
				all := []refpar2.InFile{{Name: "ok1.dat", Data: []byte("first ok file")}, {Name: "plain-ascii.dat", Data: []byte("evil payload of " + fmt.Sprint(ni))}}
				set := refpar2.NewSet(all, 8)
				slices := set.AllSlices()
				var uni []byte
				for i, f := range set.Files {
					if f.Name == "plain-ascii.dat" {
						body := append([]byte{}, set.IDs[i][:]...)
						for _, u := range utf16.Encode([]rune(name)) {
							body = append(body, byte(u), byte(u>>8))
						}
						for len(body)%4 != 0 {
							body = append(body, 0)
						}
						var t [16]byte
						copy(t[:], "PAR 2.0\x00UniFileN")
						uni = refpar2.Frame(set.SetID, t, body)
					}
				}
				var idx, vol bytes.Buffer
				idx.Write(set.CreatorPacket("ref"))
				idx.Write(set.MainPacket())
				for i := range set.Files {
					idx.Write(set.FileDescPacket(i))
					idx.Write(set.IFSCPacket(i))
				}
				idx.Write(uni)
				vol.Write(idx.Bytes())
				for e := 0; e < len(slices); e++ {
					vol.Write(set.RecvPacketWithData(uint32(e), refpar2.RecoveryBlock(slices, uint32(e))))
				}
				ioutil.WriteFile(filepath.Join(arch, "t.par2"), idx.Bytes(), 0644)
				ioutil.WriteFile(filepath.Join(arch, "t.vol0.par2"), vol.Bytes(), 0644)
				before, _ := sandbox.Take(root)
				vo := runVerify(filepath.Join(arch, "t.par2"), 2, false, nil)
				ro := runRepair(filepath.Join(arch, "t.par2"), 2, ni%2 == 0, false, nil)
				after, _ := sandbox.Take(root)
				lg.Emit(tracelog.M{"ev": "par2uni", "name": scrub([]string{name}, c.dir)[0], "pos": pos, "n": 2, "accept_model": true, "contained": true,
					"verify_err": vo.Err, "repair_err": ro.Err, "errtext": tail(vo.ErrText+"|"+ro.ErrText, 120), "repaired": scrub(ro.Repaired, c.dir),
					"outside": scrub(outsideChanges(before, after, "outer/arch/", false), c.dir), "crashed": vo.Err == "panic" || ro.Err == "panic",
					"is_outside": false, "refused": false, "nothing_written": true})
			}
			// ---------------- PAR1
			{
				if err := buildCanaryTree(root); err != nil {
					return err
				}
				var specs []refpar1.FileSpec
				oks := []refpar1.FileSpec{{Name: "ok1.dat", Data: []byte("first ok file"), Saved: true}, {Name: "ok2.dat", Data: []byte("second ok file!"), Saved: true}}
				n := 1 + pos
				for i := 0; i < n-1; i++ {
					specs = append(specs, oks[i])
				}
				specs = append(specs, refpar1.FileSpec{Name: name, Data: []byte("evil payload"), Saved: true})
				ioutil.WriteFile(filepath.Join(arch, "t.par"), refpar1.BuildVolume(specs, 0, nil), 0644)
				for v := 1; v <= n; v++ {
					ioutil.WriteFile(filepath.Join(arch, volName("t", v)), refpar1.BuildVolume(specs, uint64(v), refpar1.Parity(specs, v)), 0644)
				}
				before, _ := sandbox.Take(root)
				vo := runVerify1(filepath.Join(arch, "t.par"), false, false, nil)
				ro := runRepair1(filepath.Join(arch, "t.par"), ni%2 == 1, false, nil)
				after, _ := sandbox.Take(root)
				lg.Emit(tracelog.M{"ev": "par1", "name": scrub([]string{name}, c.dir)[0], "pos": pos, "n": n, "accept_model": nm.Accept1, "contained": nm.Contained,
					"verify_err": vo.Err, "repair_err": ro.Err, "errtext": tail(vo.ErrText+"|"+ro.ErrText, 120), "repaired": scrub(ro.Repaired, c.dir),
					"outside": scrub(outsideChanges(before, after, "outer/arch/", true), c.dir), "crashed": vo.Err == "panic" || ro.Err == "panic",
					"is_outside": false, "refused": false, "nothing_written": true})
			}
		}
	}
	// ---------------- PAR2 Create must refuse inputs outside the index file's directory tree
	type inp struct {
		path    string // as passed
		outside bool
	}
	inputs := []inp{
		{filepath.Join(arch, "keep.txt"), false},
		{filepath.Join(arch, "sub", "inner.txt"), false},
		{filepath.Join(root, "outer", "sib", "x"), true},
		{filepath.Join(root, "outer", "x"), true},
		{filepath.Join(root, "canary.txt"), true},
		{filepath.Join(arch, "..", "x"), true},
		{filepath.Join(arch, "sub", "..", "..", "y"), true},
		{filepath.Join(arch, "sub", "..", "keep.txt"), false},
		{filepath.Join(absRoot, "x"), true},
		{arch + "/../arch/keep.txt", false},
		{arch + "x/../../y", true},
		// siblings whose names merely START with the archive directory's name (containment is not a string prefix)
		{filepath.Join(root, "outer", "arch-private", "secret.bin"), true},
		{filepath.Join(root, "outer", "arch2", "sub", "s.bin"), true},
		{filepath.Join(root, "outer", "archive.bin"), true},
		{filepath.Join(root, "outer", "arch.old", "x"), true},
		{arch + "/../arch2/sub/s.bin", true},
	}
	// second pass ("prior"): the directory already holds the complete output of an earlier, LARGER Create under the
	// same index name - a refused Create must leave that alone as well
	for pass := 0; pass < 2; pass++ {
		for i0, in := range inputs {
			i := i0 + 100*pass
			if err := buildCanaryTree(root); err != nil {
				return err
			}
			if pass == 1 {
				if err := par2.Create(filepath.Join(arch, "new.par2"), []string{filepath.Join(arch, "keep.txt")}, par2.CreateOptions{SliceByteCount: 8, NumParityShards: 7, NumGoroutines: 1}); err != nil {
					return fmt.Errorf("prior Create: %v", err)
				}
			}
			before, _ := sandbox.Take(root)
			err := func() (e error) {
				defer func() {
					if r := recover(); r != nil {
						e = fmt.Errorf("panic: %v", r)
					}
				}()
				return par2.Create(filepath.Join(arch, "new.par2"), []string{filepath.Join(arch, "keep.txt"), in.path}, par2.CreateOptions{SliceByteCount: 8, NumParityShards: 2, NumGoroutines: 1})
			}()
			after, _ := sandbox.Take(root)
			cr, del, chg, tch := sandbox.Diff(before, after)
			nothing := len(cr)+len(del)+len(chg) == 0
			_ = tch
			lg.Emit(tracelog.M{"ev": "create", "name": scrub([]string{in.path}, c.dir)[0], "pos": i, "n": 2, "is_outside": in.outside, "refused": err != nil,
				"errtext": errStr(err), "nothing_written": nothing, "outside": scrub(outsideChanges(before, after, "outer/arch/", false), c.dir),
				"crashed": err != nil && strings.HasPrefix(err.Error(), "panic"), "accept_model": !in.outside, "contained": !in.outside,
				"verify_err": "", "repair_err": "", "repaired": []string{}, "prior": pass == 1})
		}
	}
	os.RemoveAll(root)
	return sc.Err()
}
