package main

import (
	"bufio"
	"bytes"
	"crypto/md5"
	"encoding/json"
	"fmt"
	"io/ioutil"
	"math/rand"
	"os"
	"path/filepath"
	"unicode/utf16"

	"verif/harness/refpar1"
	"verif/harness/sandbox"
	"verif/harness/tracelog"
)

func init() {
	register("c10", "PAR1 format in both directions: observe what par1.Create writes; read reference-written sets", runC10)
}

func units(s string) []int {
	u := utf16.Encode([]rune(s))
	out := make([]int, len(u))
	for i, x := range u {
		out[i] = int(x)
	}
	return out
}

func h16k(d []byte) [16]byte {
	if len(d) > 16384 {
		return md5.Sum(d[:16384])
	}
	return md5.Sum(d)
}

// observePar1File: the record view of one PAR1 file for Par1Format.
func observePar1File(path string, cols []int) (tracelog.M, error) {
	b, err := ioutil.ReadFile(path)
	if err != nil {
		return nil, err
	}
	v := refpar1.Tokenize(b)
	h := v.Header
	ents := []tracelog.M{}
	for _, e := range v.Entries {
		nu := make([]int, len(e.NameUnits))
		for i, u := range e.NameUnits {
			nu[i] = int(u)
		}
		ents = append(ents, tracelog.M{"entry_bytes": int64(e.EntryBytes), "saved": e.Status&1 != 0, "status": int64(e.Status), "file_bytes": int64(e.FileBytes),
			"md5": hx(e.Hash), "md5_16k": hx(e.Hash16k), "name_units": nu, "name": e.Name})
	}
	dc := []int{}
	for _, c := range cols {
		if c < len(v.Data) {
			dc = append(dc, int(v.Data[c]))
		} else {
			dc = append(dc, -1)
		}
	}
	return tracelog.M{"name": filepath.Base(path), "size": v.Size, "ok": v.OK, "id_ok": bytes.Equal(h.ID[:], []byte{'P', 'A', 'R', 0, 0, 0, 0, 0}),
		"version_low": int64(h.Version & 0xffffffff), "control_stored": hx(h.ControlHash), "control_actual": hx(h.ControlActual),
		"sethash_stored": hx(h.SetHash), "sethash_saved": hx(v.SetHashSaved), "volume": int64(h.VolumeNumber), "file_count": int64(h.FileCount),
		"list_offset": int64(h.ListOffset), "list_size": int64(h.ListSize), "data_offset": int64(h.DataOffset), "data_size": int64(h.DataSize),
		"data_len": len(v.Data), "entries": ents, "datacols": dc}, nil
}

// par1SetEvent builds the event for Par1Format!SetVerdicts.
func par1SetEvent(ev string, dir, base string, specs []refpar1.FileSpec, nvols, commentLen int, rng *rand.Rand) (tracelog.M, error) {
	maxlen := 0
	var saved []refpar1.FileSpec
	for _, f := range specs {
		if f.Saved {
			saved = append(saved, f)
			if len(f.Data) > maxlen {
				maxlen = len(f.Data)
			}
		}
	}
	cols := []int{}
	if maxlen <= 24 {
		for c := 0; c < maxlen; c++ {
			cols = append(cols, c)
		}
	} else {
		cols = append(cols, 0, 1, maxlen-1, maxlen/2, 16383, 16384)
		// columns around every multiple of 64 KiB and just past the end of each shorter file (chunked encoders)
		for b := 65536; b < maxlen; b += 65536 {
			cols = append(cols, b-1, b, b+1, b+1000)
		}
		for _, f := range saved {
			if n := len(f.Data); n > 0 && n < maxlen {
				cols = append(cols, n-1, n, n+65536)
			}
		}
		for k := 0; k < 10; k++ {
			cols = append(cols, rng.Intn(maxlen))
		}
		var cc []int
		for _, c := range cols {
			if c < maxlen {
				cc = append(cc, c)
			}
		}
		cols = cc
	}
	filecols := [][]int{}
	for _, f := range saved {
		fc := make([]int, len(cols))
		for i, c := range cols {
			if c < len(f.Data) {
				fc[i] = int(f.Data[c])
			}
		}
		filecols = append(filecols, fc)
	}
	inputs := []tracelog.M{}
	for _, f := range specs {
		inputs = append(inputs, tracelog.M{"name": f.Name, "name_units": units(f.Name), "len": len(f.Data), "md5": hx(md5.Sum(f.Data)),
			"md5_16k": hx(h16k(f.Data)), "saved": f.Saved})
	}
	files := []tracelog.M{}
	names := []string{base + ".par"}
	for v := 1; v <= nvols; v++ {
		names = append(names, volName(base, v))
	}
	for _, n := range names {
		r, err := observePar1File(filepath.Join(dir, n), cols)
		if err != nil {
			return nil, err
		}
		files = append(files, r)
	}
	return tracelog.M{"ev": ev, "inputs": inputs, "nvols": nvols, "maxlen": maxlen, "cols": cols, "filecols": filecols, "files": files,
		"comment_len": commentLen}, nil
}

type c10Layout struct {
	Kinds    []string `json:"kinds"`
	Comment  bool     `json:"comment"`
	Uni      bool     `json:"uni"`
	Bad      []int    `json:"bad"`
	Vols     []int    `json:"vols"`
	NSaved   int      `json:"nsaved"`
	Pad      int      `json:"pad"`
	ExpectOK bool     `json:"expect_ok"`
}

func runC10(args []string) error {
	c := newCommon("c10")
	c.fs.Parse(args)
	lg, err := tracelog.Create(c.out)
	if err != nil {
		return err
	}
	defer lg.Close()
	rng := rand.New(rand.NewSource(c.seed*73 + 4))
	thorough := c.tier == "thorough"
	// ---- writer direction: real par1.Create, observed
	n := 40
	if thorough {
		n = 300
	}
	for i := 0; i < n; i++ {
		nf := 1 + rng.Intn(6)
		nv := 1 + rng.Intn(4)
		if i%9 == 4 {
			nf = 10 + rng.Intn(25)
		}
		if i == 13 {
			nf, nv = 5, 2
		}
		if i%11 == 6 {
			nv = 30 + rng.Intn(70)
		}
		var names []string
		prot := map[string][]byte{}
		var specs []refpar1.FileSpec
		for k := 0; k < nf; k++ {
			name := fmt.Sprintf("%02d-%s", k, uniNames[rng.Intn(len(uniNames))])
			sz := []int{0, 1, 3, 10, 24, 100, 5000, 16383, 16384, 16385, 30000 + rng.Intn(40000)}[rng.Intn(11)]
			if i < 12 {
				sz = rng.Intn(20) // tiny sets: every parity byte is judged
			}
			if i == 13 {
				sz = []int{1000, 200000, 70000, 65536, 3}[k%5] // files ending inside, at and beyond 64 KiB chunks
			}
			if nf > 9 && sz > 3000 || nv > 20 && sz > 3000 {
				sz = rng.Intn(3000)
			}
			d := make([]byte, sz)
			rng.Read(d)
			names = append(names, name)
			prot[name] = d
			specs = append(specs, refpar1.FileSpec{Name: name, Data: d, Saved: true})
		}
		all0 := true
		for _, nm := range names {
			if len(prot[nm]) > 0 {
				all0 = false
			}
		}
		if all0 {
			prot[names[0]] = []byte{7}
			specs[0].Data = prot[names[0]]
		}
		dir := filepath.Join(c.dir, "c10w")
		if _, err := buildArch1(dir, names, prot, nv, "w"); err != nil {
			return err
		}
		ev, err := par1SetEvent("p1set", dir, "w", specs, nv, 0, rng)
		if err != nil {
			return err
		}
		ev["desc"] = fmt.Sprintf("writer %d files=%d vols=%d", i, nf, nv)
		lg.Emit(ev)
		os.RemoveAll(dir)
	}
	// ---- reader direction: reference-written sets
	if c.in == "" {
		return nil
	}
	f, err := os.Open(c.in)
	if err != nil {
		return err
	}
	defer f.Close()
	sc := bufio.NewScanner(f)
	sc.Buffer(make([]byte, 1<<20), 1<<24)
	li := 0
	seenRef := map[string]bool{}
	for sc.Scan() {
		var l c10Layout
		if err := json.Unmarshal(sc.Bytes(), &l); err != nil {
			return err
		}
		li++
		var specs []refpar1.FileSpec
		si := 0
		for k, kd := range l.Kinds {
			name := fmt.Sprintf("e%d.dat", k)
			if l.Uni {
				name = fmt.Sprintf("e%d-\U0001F600-é.dat", k)
			}
			if li%3 == 0 && k > 0 {
				// an entry named like the previous one plus a temporary-file / backup suffix
				name = specs[k-1].Name + []string{".tmp", "~", ".bak"}[(li/3)%3]
			}
			d := make([]byte, 3+rng.Intn(12))
			rng.Read(d)
			if kd == "S" {
				si++
				if si == 2 {
					d = d[:1+len(d)/3] // unequal sizes
				}
			}
			specs = append(specs, refpar1.FileSpec{Name: name, Data: d, Saved: kd == "S"})
		}
		if l.Pad > 0 {
			// a long file list: l.Pad further entries that are not saved, before (even layouts) or after the others
			var pads []refpar1.FileSpec
			for k := 0; k < l.Pad; k++ {
				pads = append(pads, refpar1.FileSpec{Name: fmt.Sprintf("pad%03d.bin", k), Data: []byte{byte(k), byte(k >> 8), 7}, Saved: false})
			}
			if li%2 == 0 {
				specs = append(pads, specs...)
			} else {
				specs = append(specs, pads...)
			}
		}
		comment := []byte{}
		if l.Comment {
			// comments are free-form bytes in PAR 1.0: long, one byte, a single NUL, odd with trailing NULs, odd, even
			comment = [][]byte{[]byte("a comment in some encoding \xff\xfe"), []byte("!"), {0}, {'A', 0, 0}, []byte("odd"), []byte("ab"), {0, 0}}[li%7]
		}
		dir := filepath.Join(c.dir, "c10r")
		if err := sandbox.Fresh(dir); err != nil {
			return err
		}
		const nvols = 2
		ioutil.WriteFile(filepath.Join(dir, "r.par"), refpar1.BuildVolume(specs, 0, comment), 0644)
		for v := 1; v <= nvols; v++ {
			ioutil.WriteFile(filepath.Join(dir, volName("r", v)), refpar1.BuildVolume(specs, uint64(v), refpar1.Parity(specs, v)), 0644)
		}
		key := fmt.Sprint(l.Kinds, l.Comment, l.Uni, l.Pad)
		if !seenRef[key] {
			seenRef[key] = true
			ev, err := par1SetEvent("p1refset", dir, "r", specs, nvols, len(comment), rng)
			if err != nil {
				return err
			}
			lg.Emit(ev)
		}
		// directory state: saved files present unless bad; files not saved are absent (they must not matter)
		badSet := map[int]bool{}
		for _, b := range l.Bad {
			badSet[b] = true
		}
		si = 0
		for _, sp := range specs {
			if !sp.Saved {
				continue
			}
			si++
			p := filepath.Join(dir, sp.Name)
			if !badSet[si] {
				ioutil.WriteFile(p, sp.Data, 0644)
			} else if si%2 == 0 {
				ioutil.WriteFile(p, append([]byte{0x55}, sp.Data...), 0644) // corrupted rather than missing
			}
		}
		for v := 1; v <= nvols; v++ {
			keep := false
			for _, x := range l.Vols {
				if x == v {
					keep = true
				}
			}
			if !keep {
				os.Remove(filepath.Join(dir, volName("r", v)))
			}
		}
		index := filepath.Join(dir, "r.par")
		before, _ := sandbox.Take(dir)
		vo := runVerify1(index, li%2 == 0, false, nil)
		mid, _ := sandbox.Take(dir)
		ro := runRepair1(index, li%3 == 0, false, nil)
		after, _ := sandbox.Take(dir)
		restored := true
		savedNames := map[string]bool{}
		for _, sp := range specs {
			if sp.Saved {
				savedNames[sp.Name] = true
				b, err := ioutil.ReadFile(filepath.Join(dir, sp.Name))
				if err != nil || !bytes.Equal(b, sp.Data) {
					restored = false
				}
			}
		}
		outside := []string{}
		cr, del, chg, tch := sandbox.Diff(before, mid)
		for _, p := range append(append(append(cr, del...), chg...), tch...) {
			if p != "." {
				outside = append(outside, "verify:"+p)
			}
		}
		cr, del, chg, tch = sandbox.Diff(mid, after)
		listed := map[string]bool{}
		for _, p := range ro.Repaired {
			listed[p] = true
		}
		changedOK := true
		for _, p := range append(append(append(cr, del...), chg...), tch...) {
			if p == "." {
				continue
			}
			if !savedNames[p] {
				outside = append(outside, "repair:"+p)
				continue
			}
			// a written protected file must be its exact original and be listed
			var orig []byte
			for _, sp := range specs {
				if sp.Name == p {
					orig = sp.Data
				}
			}
			b, err := ioutil.ReadFile(filepath.Join(dir, p))
			if err != nil || !bytes.Equal(b, orig) || !listed[p] {
				changedOK = false
			}
		}
		lg.Emit(tracelog.M{"ev": "p1layout", "pad": l.Pad, "kinds": l.Kinds, "comment": l.Comment, "uni": l.Uni, "bad": l.Bad, "vols": l.Vols, "nsaved": l.NSaved,
			"expect_ok": l.ExpectOK,
			"verify":    tracelog.M{"err": vo.Err, "errtext": vo.ErrText + vo.Panic, "usable": vo.Usable, "unusable": vo.Unusable, "pusable": vo.PUsable},
			"repair":    tracelog.M{"err": ro.Err, "errtext": ro.ErrText + ro.Panic, "repaired": ro.Repaired}, "restored": restored, "outside": outside,
			"changed_ok": changedOK})
		os.RemoveAll(dir)
	}
	return sc.Err()
}
