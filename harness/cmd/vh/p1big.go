package main

import (
	"fmt"
	"math/rand"
	"os"
	"path/filepath"

	"verif/harness/gfref"
	"verif/harness/tracelog"
)

func init() {
	register("p1big", "seeded larger PAR1 sets: create, damage, verify, repair on the real code", runP1Big)
}

var uniNames = []string{"plain.dat", "with space.bin", "файл.dat", "文件.bin", "\U0001F600smile.dat", "áccent.txt", "\U00010348gothic", "UPPER.DAT", "dots.in.name", "x", "back\\slash.txt", "a[1]*?.dat", "-dash", "semi;colon&amp", "trailing.", "q'uo\"te"}

// index file base names: the volume names are derived from them (extension replaced), so their spelling matters
var p1Bases = []string{"arch", "backup", "data", "photos.tar", "a", "par", "x.p01", "with space", "UPPER", "r.a.p", "app", "100% done", "%d%s"}

func runP1Big(args []string) error {
	c := newCommon("p1big")
	count := c.fs.Int("n", 0, "number of scenarios")
	c.fs.Parse(args)
	lg, err := tracelog.Create(c.out)
	if err != nil {
		return err
	}
	defer lg.Close()
	rng := rand.New(rand.NewSource(c.seed*104729 + 7))
	n := *count
	if n == 0 {
		n = 60
		if c.tier == "thorough" {
			n = 600
		}
	}
	for idx := 0; idx < n; idx++ {
		nf := 1 + rng.Intn(6)
		nv := 1 + rng.Intn(5)
		switch idx % 10 {
		case 3:
			nf = 10 + rng.Intn(31)
		case 5:
			nv = 20 + rng.Intn(80)
		}
		singular := idx == 2
		if singular {
			nf, nv = 9, 86
		}
		// the limits of the volume search: exactly 99 volumes; file count + volume count = 256
		lastVolOnly := false
		switch idx {
		case 4:
			nf, nv = 3, 99
		case 6:
			nf, nv, lastVolOnly = 4, 99, true
		case 8:
			nf, nv, lastVolOnly = 200, 56, true
		case 14:
			nf, nv = 4, 2 // siblings with temporary-file / backup suffixes (see below)
		case 16, 18:
			nf, nv = 3, 3 // files of more than 1 MiB (several passes of any windowed coder); a gap in the volume numbers
		}
		var names []string
		prot := map[string][]byte{}
		anyNonEmpty := false
		for i := 0; i < nf; i++ {
			name := fmt.Sprintf("%02d-%s", i, uniNames[rng.Intn(len(uniNames))])
			if idx == 14 {
				name = []string{"report.doc", "report.doc.tmp", "REPORT.DOC", "report.doc.bak"}[i] // also a name that differs only in case
			} else if i > 0 && (i+idx)%6 == 5 {
				// a protected file whose name is another protected file's name plus a temporary-file / backup suffix
				name = names[i-1] + []string{".tmp", "~", ".bak", ".new", ".part"}[rng.Intn(5)]
			}
			sz := []int{0, 1, 2, 7, 100, 1000, 5000, 16383, 16384, 16385, 20000 + rng.Intn(50000)}[rng.Intn(11)]
			if idx == 16 || idx == 18 {
				sz = [][]int{{1258291, 700000, 33}, {2097152, 1048576 + 5, 2097152}}[(idx-16)/2][i]
			}
			if nf > 12 && sz > 5000 {
				sz = rng.Intn(3000)
			}
			if nf > 100 {
				sz = rng.Intn(40)
			}
			if nv > 30 && sz > 2000 {
				sz = rng.Intn(2000)
			}
			d := make([]byte, sz)
			rng.Read(d)
			if rng.Intn(4) == 0 {
				for k := range d {
					d[k] = byte(rng.Intn(2))
				}
			}
			if sz > 0 {
				anyNonEmpty = true
			}
			names = append(names, name)
			prot[name] = d
		}
		if !anyNonEmpty {
			prot[names[0]] = []byte{42}
		}
		dir := filepath.Join(c.dir, fmt.Sprintf("p1big-%d", idx))
		base := p1Bases[idx%len(p1Bases)]
		a, err := buildArch1(dir, names, prot, nv, base)
		if cr, ok := err.(*createRefused); ok {
			// Create refused a legitimate set (at most 255 files, files plus volumes at most 256): a judged event
			lg.Emit(tracelog.M{"ev": "p1op", "op": "create", "scn": idx, "small": false, "created": []string{}, "created_unexpected": []string{},
				"changed_by_create": []string{}, "res": tracelog.M{"err": "refused", "errtext": cr.err.Error()}, "writes": []string{}, "outside": []string{}, "changed_ok": true,
				"bad": []int{}, "vols": []int{}, "n": nf, "untouched": false})
			continue
		}
		if err != nil {
			return fmt.Errorf("scenario %d: %v", idx, err)
		}
		a.Others["readme.txt"] = []byte("bystander")
		for i, n := range names { // siblings with derived names (temporary-file / backup conventions): Repair must leave them alone
			if sib := n + []string{".tmp", "~", ".bak", ".new"}[i%4]; i < 4 && !hasKey(prot, sib) {
				a.Others[sib] = []byte("sibling of " + n)
			}
		}
		a.Others["other/deep.bin"] = []byte{1}
		{
			unexpected := []string{}
			for _, p := range a.CreateCreated {
				ok := p == a.Index
				for v := 1; v <= nv; v++ {
					if p == volName(base, v) {
						ok = true
					}
				}
				if !ok {
					unexpected = append(unexpected, p)
				}
			}
			lg.Emit(tracelog.M{"ev": "p1op", "op": "create", "scn": idx, "small": false, "created": a.CreateCreated, "created_unexpected": unexpected,
				"changed_by_create": a.CreateChanged, "res": tracelog.M{"err": ""}, "writes": []string{}, "outside": []string{}, "changed_ok": true,
				"bad": []int{}, "vols": []int{}, "n": nf, "untouched": false})
		}
		// damage
		disk := map[string][]byte{}
		for _, nme := range names {
			disk[nme] = prot[nme]
		}
		var dmg []string
		nd := rng.Intn(nf + 1)
		switch idx % 4 {
		case 0:
			nd = 0
		case 1:
			if nd > nv {
				nd = nv // exactly at or below capacity
			}
		}
		perm := rng.Perm(nf)
		vols := []int{}
		if idx == 10 || idx == 12 {
			// damage only beyond the first 16 KiB of a large file (the 16k hash still matches)
			big := make([]byte, 20000+idx)
			rng.Read(big)
			prot[names[0]] = big
			os.WriteFile(filepath.Join(dir, names[0]), big, 0644)
			if a, err = buildArch1(dir, names, prot, nv, base); err != nil {
				return err
			}
			a.Others["readme.txt"] = []byte("bystander")
			for i, n := range names { // siblings with derived names (temporary-file / backup conventions): Repair must leave them alone
				if sib := n + []string{".tmp", "~", ".bak", ".new"}[i%4]; i < 4 && !hasKey(prot, sib) {
					a.Others[sib] = []byte("sibling of " + n)
				}
			}
			for _, nme := range names {
				disk[nme] = prot[nme]
			}
			d := append([]byte{}, big...)
			if idx == 10 {
				d[17000] ^= 0x01
			} else {
				d = d[:16384]
			}
			disk[names[0]] = d
			dmg = []string{"damage beyond 16 KiB in " + names[0]}
			for v := 1; v <= nv; v++ {
				vols = append(vols, v)
			}
		} else if lastVolOnly {
			// one file is lost and only the highest-numbered volume survives
			disk[names[nf/2]] = nil
			dmg = []string{"delete " + names[nf/2], fmt.Sprintf("keep only volume %d", nv)}
			vols = []int{nv}
		} else if idx == 4 {
			for v := 1; v <= nv; v++ {
				vols = append(vols, v)
			}
		} else if idx == 16 || idx == 18 {
			// the longest file is lost; volume 1 is gone while 2 and 3 survive (a gap below the volumes that have to be used)
			disk[names[0]] = nil
			dmg = []string{"delete " + names[0], "keep volumes 2 and 3"}
			vols = []int{2, 3}
			if idx == 18 {
				disk[names[2]] = append([]byte{}, prot[names[2]][:len(prot[names[2]])-1]...)
				dmg = append(dmg, "truncate "+names[2])
			}
		} else if idx == 14 {
			// the base file is lost and must be restored while its siblings stay what they are
			disk[names[0]] = nil
			dmg = []string{"delete " + names[0]}
			vols = []int{1, 2}
		} else if singular {
			// entries 1 and 8 are destroyed; only volumes 1 and 86 survive: 1^85 = 8^85 in GF(2^8)
			if gfref.Pow8(1, 85) != gfref.Pow8(8, 85) {
				return fmt.Errorf("singular construction wrong")
			}
			disk[names[0]] = nil
			disk[names[7]] = append([]byte{1}, prot[names[7]]...)
			dmg = []string{"delete entry 1", "corrupt entry 8", "keep volumes 1 and 86"}
			vols = []int{1, 86}
		} else {
			for _, i := range perm[:nd] {
				f := names[i]
				switch rng.Intn(5) {
				case 0:
					disk[f] = nil
					dmg = append(dmg, "delete "+f)
				case 1:
					d := append([]byte{}, disk[f]...)
					if len(d) > 0 {
						d[rng.Intn(len(d))] ^= 0x40
					} else {
						d = []byte{0}
					}
					disk[f] = d
					dmg = append(dmg, "flip "+f)
				case 2:
					disk[f] = append(append([]byte{}, disk[f]...), 0)
					dmg = append(dmg, "append0 "+f)
				case 3:
					if len(disk[f]) > 0 {
						disk[f] = disk[f][:len(disk[f])-1]
					} else {
						disk[f] = nil
					}
					dmg = append(dmg, "truncate "+f)
				case 4:
					g := names[rng.Intn(nf)]
					disk[f] = append([]byte{0xEE}, prot[g]...)
					dmg = append(dmg, "garbage "+f)
				}
			}
			switch rng.Intn(5) {
			case 0: // all volumes
				for v := 1; v <= nv; v++ {
					vols = append(vols, v)
				}
			case 1: // none
			case 2: // exactly as many as damaged files (lowest)
				for v := 1; v <= nv && len(vols) < nd; v++ {
					vols = append(vols, v)
				}
			case 3: // one fewer than needed
				for v := nv; v >= 1 && len(vols) < nd-1; v-- {
					vols = append(vols, v)
				}
			default:
				for v := 1; v <= nv; v++ {
					if rng.Intn(2) == 0 {
						vols = append(vols, v)
					}
				}
			}
		}
		if dmg == nil {
			dmg = []string{}
		}
		ops := []string{"verify", "repair"}
		if idx%2 == 0 {
			ops = []string{"verifyall", "repairdc"}
		}
		extra := tracelog.M{"small": false, "scn": idx, "damage": dmg, "desc": fmt.Sprintf("files=%d vols=%d", nf, nv)}
		if err := a.runOps(lg, dir, disk, vols, ops, extra, idx); err != nil {
			return err
		}
		os.RemoveAll(dir)
	}
	return nil
}
