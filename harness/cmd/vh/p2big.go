package main

import (
	"bytes"
	"encoding/binary"
	"fmt"
	"hash/crc32"
	"math/rand"
	"os"
	"path/filepath"
	"sort"
	"strings"

	"verif/harness/gfref"
	"verif/harness/sandbox"
	"verif/harness/tracelog"
)

func init() {
	register("p2big", "seeded large PAR2 sets: create, damage, verify, repair on the real code with independent ground truth", runP2Big)
}

type scenario struct {
	desc    string
	names   []string
	prot    map[string][]byte
	s, r, g int
	damage  func(rng *rand.Rand, sc *scenario, disk map[string][]byte) []string // returns descriptions
	volLoss string                                                              // none | some | all | keepfirstlast
	dc      bool
	// staleOf: if set, the recovery VOLUMES come from a set created over these (slightly different) contents - same
	// names, lengths and first 16 KiB, hence the same file ids and the same recovery-set id: authentic packets of
	// the right set whose blocks do not belong to the data the index describes
	staleOf map[string][]byte
}

func genContent(rng *rand.Rand, n int, kind int, s int) []byte {
	b := make([]byte, n)
	switch kind {
	case 0: // random
		rng.Read(b)
	case 1: // low entropy incl. zeros
		for i := range b {
			b[i] = byte(rng.Intn(3))
		}
	case 2: // duplicate slices: a few distinct blocks repeated
		nb := 1 + rng.Intn(3)
		blocks := make([][]byte, nb)
		for i := range blocks {
			blocks[i] = make([]byte, s)
			rng.Read(blocks[i])
		}
		for off := 0; off < n; off += s {
			copy(b[off:], blocks[rng.Intn(nb)])
		}
	case 3: // random with zero runs (trailing zeros matter for padding)
		rng.Read(b)
		for k := 0; k < 3 && n > 0; k++ {
			st := rng.Intn(n)
			for i := st; i < n && i < st+s/2+1; i++ {
				b[i] = 0
			}
		}
		if n > 2 && rng.Intn(2) == 0 {
			b[n-1], b[n-2] = 0, 0
		}
	case 4: // constant non-zero fill: every slice equals the previous one, the partial last slice is its prefix
		for i := range b {
			b[i] = 0xFF
		}
	case 6: // all zero (every recovery block of an all-zero set is zero)
	case 5: // periodic: a fixed-width record repeated (period divides the slice size where it can)
		per := []int{1, 2, 4, 8}[rng.Intn(4)]
		if s%per != 0 {
			per = 1
		}
		rec := make([]byte, per)
		rng.Read(rec)
		if rec[0] == 0 {
			rec[0] = 0x5A
		}
		for i := range b {
			b[i] = rec[i%per]
		}
	}
	return b
}

func pickSize(rng *rand.Rand, s int, big bool) int {
	classes := []int{1, 2, s - 1, s, s + 1, 2*s + 1, 3 * s, 5*s - 1, 7*s + 3}
	if big {
		classes = append(classes, 16383, 16384, 16385, 32768, 20000+rng.Intn(50000), 1000+rng.Intn(4000))
	}
	n := classes[rng.Intn(len(classes))]
	if n < 1 {
		n = 1
	}
	return n
}

// damage operations on an in-memory directory (nil = absent)
func dmgDelete(rng *rand.Rand, sc *scenario, disk map[string][]byte, f string) string {
	disk[f] = nil
	return "delete " + f
}
func dmgFlip(rng *rand.Rand, sc *scenario, disk map[string][]byte, f string) string {
	d := append([]byte{}, disk[f]...)
	if len(d) == 0 {
		return "noop"
	}
	i := rng.Intn(len(d))
	d[i] ^= 1 << uint(rng.Intn(8))
	disk[f] = d
	return fmt.Sprintf("flip %s@%d", f, i)
}
func dmgOverwrite(rng *rand.Rand, sc *scenario, disk map[string][]byte, f string) string {
	d := append([]byte{}, disk[f]...)
	if len(d) == 0 {
		return "noop"
	}
	i := rng.Intn(len(d))
	n := 1 + rng.Intn(2*sc.s+1)
	for k := i; k < len(d) && k < i+n; k++ {
		d[k] = byte(rng.Intn(256))
	}
	disk[f] = d
	return fmt.Sprintf("overwrite %s@%d+%d", f, i, n)
}
func dmgInsert(rng *rand.Rand, sc *scenario, disk map[string][]byte, f string) string {
	d := disk[f]
	i := rng.Intn(len(d) + 1)
	n := 1 + rng.Intn(sc.s+3)
	ins := make([]byte, n)
	rng.Read(ins)
	out := append(append(append([]byte{}, d[:i]...), ins...), d[i:]...)
	disk[f] = out
	return fmt.Sprintf("insert %s@%d+%d", f, i, n)
}
func dmgRemove(rng *rand.Rand, sc *scenario, disk map[string][]byte, f string) string {
	d := disk[f]
	if len(d) < 2 {
		return "noop"
	}
	i := rng.Intn(len(d))
	n := 1 + rng.Intn(sc.s+3)
	if i+n > len(d) {
		n = len(d) - i
	}
	out := append(append([]byte{}, d[:i]...), d[i+n:]...)
	disk[f] = out
	return fmt.Sprintf("remove %s@%d+%d", f, i, n)
}
func dmgTruncate(rng *rand.Rand, sc *scenario, disk map[string][]byte, f string) string {
	d := disk[f]
	if len(d) == 0 {
		return "noop"
	}
	n := rng.Intn(len(d))
	disk[f] = append([]byte{}, d[:n]...)
	return fmt.Sprintf("truncate %s->%d", f, n)
}
func dmgAppend(rng *rand.Rand, sc *scenario, disk map[string][]byte, f string) string {
	n := 1 + rng.Intn(sc.s+2)
	g := make([]byte, n)
	if rng.Intn(2) == 0 {
		rng.Read(g)
	}
	disk[f] = append(append([]byte{}, disk[f]...), g...)
	return fmt.Sprintf("append %s+%d", f, n)
}
func dmgStripZeros(rng *rand.Rand, sc *scenario, disk map[string][]byte, f string) string {
	d := disk[f]
	n := len(d)
	for n > 0 && d[n-1] == 0 {
		n--
	}
	if n == len(d) {
		return "noop"
	}
	disk[f] = append([]byte{}, d[:n]...)
	return fmt.Sprintf("stripzeros %s->%d", f, n)
}

func standardDamage(rng *rand.Rand, sc *scenario, disk map[string][]byte) []string {
	var out []string
	names := sc.names
	nd := rng.Intn(4)
	for k := 0; k < nd; k++ {
		f := names[rng.Intn(len(names))]
		if disk[f] == nil {
			continue
		}
		switch rng.Intn(11) {
		case 0:
			out = append(out, dmgDelete(rng, sc, disk, f))
		case 1:
			out = append(out, dmgFlip(rng, sc, disk, f))
		case 2:
			out = append(out, dmgOverwrite(rng, sc, disk, f))
		case 3:
			out = append(out, dmgInsert(rng, sc, disk, f))
		case 4:
			out = append(out, dmgRemove(rng, sc, disk, f))
		case 5:
			out = append(out, dmgTruncate(rng, sc, disk, f))
		case 6:
			out = append(out, dmgAppend(rng, sc, disk, f))
		case 7:
			out = append(out, dmgStripZeros(rng, sc, disk, f))
		case 8: // swap with another file
			g := names[rng.Intn(len(names))]
			if g != f && disk[g] != nil {
				disk[f], disk[g] = disk[g], disk[f]
				out = append(out, "swap "+f+" "+g)
			}
		case 9: // another file's content turns up under this name
			g := names[rng.Intn(len(names))]
			if g != f && disk[g] != nil {
				disk[f] = append([]byte{}, disk[g]...)
				out = append(out, "copy "+g+" over "+f)
			}
		case 10: // emptied
			disk[f] = []byte{}
			out = append(out, "empty "+f)
		}
	}
	return out
}

func makeScenario(rng *rand.Rand, idx int, thorough bool) *scenario {
	ss := []int{4, 8, 12, 64, 512, 2000}
	sc := &scenario{prot: map[string][]byte{}}
	sc.s = ss[rng.Intn(len(ss))]
	big := false
	switch {
	case idx%17 == 5:
		sc.s = 65536
		big = true
	case idx%17 == 11 && thorough:
		sc.s = 131072
		big = true
	case idx%5 == 0:
		big = true
		if sc.s < 64 {
			sc.s = 512
		}
	}
	nf := 1 + rng.Intn(6)
	if idx%7 == 3 {
		nf = 7 + rng.Intn(6)
	}
	total := 0
	for i := 0; i < nf; i++ {
		name := fmt.Sprintf("f%02d.dat", i)
		if i%3 == 1 {
			name = fmt.Sprintf("sub/f%02d.bin", i)
		}
		if (i+idx)%4 == 2 {
			// names a reader must take literally on this platform: backslash, glob and shell characters,
			// spaces, upper case, trailing dot, deep directories (gopar's PAR2 writer refuses non-ASCII names)
			odd := []string{"report\\final%02d.txt", "with space %02d.dat", "-dash%02d.dat", "a[%02d].dat", "x*y?%02d.dat",
				"dot.%02d.", "UPPER%02d.DAT", "sub/deep/er/f%02d.bin", "%%41-%02d.txt", "semi;colon&%02d", "back\\sub\\f%02d", "a'b\"c%02d",
				"docs/.hidden%02d", "src/.config/f%02d.ini", "sub/..f%02d"} // dot-named components BELOW the top level are ordinary names
			name = fmt.Sprintf(odd[rng.Intn(len(odd))], i)
		}
		if (i+idx)%7 == 3 {
			// protected files that merely LOOK like files of the set: they share the index file's stem or extension
			bn := p2Bases[idx%len(p2Bases)]
			if !strings.ContainsAny(bn, "%") {
				name = []string{bn + "-2019.par2", bn + "2.par2", "x.par2", bn + "-old.PAR2", bn + ".par2.orig"}[rng.Intn(5)]
			}
		}
		if i > 0 && (i+idx)%6 == 5 {
			// a protected file whose name is another protected file's name plus a temporary-file / backup suffix
			name = sc.names[i-1] + []string{".tmp", "~", ".bak", ".new", ".part"}[rng.Intn(5)]
		}
		if _, dup := sc.prot[name]; dup {
			// the recovery set is a SET of files: the same name twice would hand Create the same input twice
			// (observation O1 of DESIGN.md, outside every listed property)
			name = fmt.Sprintf("f%02d.dat", i)
		}
		n := pickSize(rng, sc.s, big)
		if sc.s >= 65536 {
			n = []int{1, sc.s - 1, sc.s, sc.s + 1, 2*sc.s + 5, 70000}[rng.Intn(6)]
		}
		if idx%17 == 8 && i == 0 {
			// a length that is an exact multiple of 1 MiB with a slice size that does not divide it (chunked readers:
			// the last slice ends exactly where a read buffer ends)
			n = []int{1 << 20, 2 << 20}[(idx/17)%2]
			if sc.s < 512 || (1<<20)%sc.s == 0 {
				sc.s = 2000
			}
		}
		if total+n > 3000000 {
			n = 1 + rng.Intn(1000)
		}
		total += n
		sc.names = append(sc.names, name)
		sc.prot[name] = genContent(rng, n, rng.Intn(7), sc.s)
		if i > 0 && (i+idx)%5 == 1 {
			// an identical copy of the previous file under another name (every slice occurs an even number of times:
			// recovery block 0, the plain XOR of all slices, loses their contribution)
			sc.prot[name] = append([]byte{}, sc.prot[sc.names[i-1]]...)
		}
	}
	// keep the slice count moderate for tiny slice sizes
	nsl := 0
	for _, d := range sc.prot {
		nsl += (len(d) + sc.s - 1) / sc.s
	}
	if nsl > 6000 {
		for _, n := range sc.names {
			if len(sc.prot[n]) > 40*sc.s {
				sc.prot[n] = sc.prot[n][:40*sc.s+rng.Intn(sc.s)]
			}
		}
	}
	sc.r = 1 + rng.Intn(12)
	if idx%9 == 4 {
		sc.r = 13 + rng.Intn(60)
	}
	if idx%40 == 7 && thorough {
		sc.r = 100 + rng.Intn(200)
	}
	if sc.s >= 65536 && sc.r > 6 {
		sc.r = 1 + rng.Intn(6)
	}
	sc.g = []int{1, 2, 3, 4, 7, 8, 16, 33, 40}[rng.Intn(9)]
	sc.damage = standardDamage
	sc.volLoss = []string{"none", "some", "some", "all", "some"}[rng.Intn(5)]
	sc.dc = rng.Intn(3) == 0
	sc.desc = fmt.Sprintf("files=%d S=%d R=%d g=%d", nf, sc.s, sc.r, sc.g)
	return sc
}

// zeroTailScenario: files whose last (partial or full) slice ends in a run of zero bytes lose SOME of those zeros.
// Every slice is then still found in place (the last one with its zero padding at end of file), so the slice counts
// are clean although the file is too short - and a Repair that reports success must have lengthened it again.
func zeroTailScenario(rng *rand.Rand, idx int) *scenario {
	s := []int{64, 1024}[(idx/3)%2]
	sc := &scenario{prot: map[string][]byte{}, s: s, r: 3, g: 1 + idx%3, volLoss: "none", dc: idx%2 == 0}
	for i, n := range []int{3*s + s/2, 2 * s, 5*s + 7} {
		name := fmt.Sprintf("z%02d.bin", i)
		d := make([]byte, n)
		rng.Read(d)
		z := 1 + rng.Intn(s/3) // trailing zeros, all inside the last slice
		for k := n - z - 4; k < n; k++ {
			d[k] = 0
		}
		d[n-z-5] = 0x11
		sc.names = append(sc.names, name)
		sc.prot[name] = d
	}
	sc.desc = fmt.Sprintf("zero tails S=%d", s)
	sc.damage = func(rng *rand.Rand, sc *scenario, disk map[string][]byte) []string {
		var out []string
		for i, n := range sc.names {
			if i == 2 && idx == 30 {
				continue // one file stays intact
			}
			d := disk[n]
			cut := 1 + rng.Intn(4) // at most the 4 guaranteed zeros plus z >= 1
			disk[n] = append([]byte{}, d[:len(d)-cut]...)
			out = append(out, fmt.Sprintf("strip %d trailing zeros of %s", cut, n))
		}
		return out
	}
	return sc
}

// forgeCRC32 overwrites the last four bytes of b so that its IEEE CRC-32 becomes target (CRC-32 is affine: for every
// prefix exactly one four-byte suffix does it).
func forgeCRC32(b []byte, target uint32) bool {
	n := len(b)
	if n < 4 {
		return false
	}
	var rev [256]byte
	for i := 0; i < 256; i++ {
		rev[crc32.IEEETable[i]>>24] = byte(i)
	}
	reg := ^crc32.Update(0, crc32.IEEETable, b[:n-4])
	v := ^target
	for i := 0; i < 4; i++ {
		idx := rev[v>>24]
		v = ((v ^ crc32.IEEETable[idx]) << 8) | uint32(idx)
	}
	binary.LittleEndian.PutUint32(b[n-4:], v^reg)
	return crc32.ChecksumIEEE(b) == target
}

// crcScenario: slices whose CRC-32 values are special - two DIFFERENT slices with the same CRC-32 (only the MD5 tells
// them apart) and a slice whose CRC-32 is 0 (a value easily mistaken for "no entry").  The slice in front of the
// CRC-0 slice is destroyed by an insertion, so the CRC-0 slice is the first survivor after the edit and has to be
// found by the sliding search; exactly one recovery block exists.
func crcScenario(rng *rand.Rand) *scenario {
	const s = 64
	sc := &scenario{prot: map[string][]byte{}, s: s, r: 1, g: 2, volLoss: "none"}
	x := make([]byte, s)
	y := make([]byte, s)
	w := make([]byte, s)
	z := make([]byte, s)
	rng.Read(x)
	rng.Read(y)
	rng.Read(w)
	rng.Read(z)
	if !forgeCRC32(y, crc32.ChecksumIEEE(x)) || !forgeCRC32(z, 0) || bytes.Equal(x, y) {
		return nil
	}
	tail := make([]byte, 20)
	rng.Read(tail)
	main := append(append(append(append(append([]byte{}, x...), y...), w...), z...), tail...)
	other := make([]byte, 3*s+5)
	rng.Read(other)
	sc.names = []string{"main.bin", "other.bin"}
	sc.prot["main.bin"], sc.prot["other.bin"] = main, other
	sc.desc = "two slices with one CRC-32, a slice with CRC-32 0"
	sc.damage = func(rng *rand.Rand, sc *scenario, disk map[string][]byte) []string {
		d := disk["main.bin"]
		p := 2*s + 7
		disk["main.bin"] = append(append(append([]byte{}, d[:p]...), 0xA5), d[p:]...)
		return []string{fmt.Sprintf("insert main.bin@%d+1", p)}
	}
	return sc
}

// index file base names: volume discovery is by name (<base>.*.par2), so their spelling matters
var p2Bases = []string{"arch", "backup", "data.tar", "a", "par2", "set.vol", "with space", "UPPER", "x.par2", "vol00+01", "backup 100%", "50%done %d %s"}

// singularScenario builds a set in which exactly two slices are destroyed and only the
// recovery volumes holding exponent 0 and exponents >= 255 survive, with the two slices chosen
// (by search with the independent field) so that their constants agree in the 255th power:
// the PAR2 format's own singular combination.
func singularScenario(rng *rand.Rand) *scenario {
	sc := &scenario{prot: map[string][]byte{}, s: 4, r: 256, g: 2, volLoss: "keepfirstlast"}
	n := 160
	consts := gfref.Par2Consts(n)
	pi, pj := -1, -1
	for i := 0; i < n && pi < 0; i++ {
		for j := i + 1; j < n; j++ {
			if gfref.Pow16(consts[i], 255) == gfref.Pow16(consts[j], 255) {
				pi, pj = i, j
				break
			}
		}
	}
	sc.names = []string{"only.dat"}
	d := make([]byte, n*4)
	rng.Read(d)
	sc.prot["only.dat"] = d
	sc.desc = fmt.Sprintf("singular pair slices %d,%d exps {0,255}", pi, pj)
	sc.damage = func(rng *rand.Rand, sc *scenario, disk map[string][]byte) []string {
		x := append([]byte{}, disk["only.dat"]...)
		x[pi*4] ^= 0x55
		x[pj*4+1] ^= 0xAA
		disk["only.dat"] = x
		return []string{fmt.Sprintf("destroy slices %d and %d", pi, pj)}
	}
	return sc
}

// swapScenario: the same pair of slices as singularScenario plus a third damaged slice, with recovery
// blocks 0, 255 and 256 surviving: the system is solvable, but elimination meets a zero pivot in
// the second column and has to swap rows (both of the matrix and of the wide right-hand side).
func swapScenario(rng *rand.Rand) *scenario {
	sc := singularScenario(rng)
	sc.r = 257
	base := sc.damage
	sc.desc = "zero pivot, solvable: " + sc.desc + " + slice 150, exps {0,255,256}"
	sc.damage = func(rng *rand.Rand, sc *scenario, disk map[string][]byte) []string {
		d := base(rng, sc, disk)
		x := append([]byte{}, disk["only.dat"]...)
		x[150*4+2] ^= 0x3C
		disk["only.dat"] = x
		return append(d, "destroy slice 150")
	}
	return sc
}

// siblingScenario: protected files whose names are another protected file's name plus a temporary-file / backup
// suffix; the base file is lost and must be restored while its siblings stay what they are.
func siblingScenario(rng *rand.Rand) *scenario {
	sc := &scenario{prot: map[string][]byte{}, s: 8, r: 6, g: 2, volLoss: "none"}
	sc.names = []string{"report.doc", "report.doc.tmp", "REPORT.DOC", "report.doc.bak", "sub/x", "sub/x.tmp", "Sub/X"} // also names that differ only in case
	for i, n := range sc.names {
		d := make([]byte, 9+3*i)
		rng.Read(d)
		sc.prot[n] = d
	}
	sc.desc = "siblings with temporary-file / backup suffixes"
	sc.damage = func(rng *rand.Rand, sc *scenario, disk map[string][]byte) []string {
		disk["report.doc"] = nil
		disk["sub/x"] = nil
		return []string{"delete report.doc", "delete sub/x"}
	}
	return sc
}

// limitScenario: one protected file of exactly 32768 slices (the format's limit for a recovery set; 32768 checksum
// pairs in one packet), one slice damaged.
func limitScenario(rng *rand.Rand) *scenario {
	sc := &scenario{prot: map[string][]byte{}, s: 4, r: 2, g: 3, volLoss: "none"}
	sc.names = []string{"limit.bin"}
	d := make([]byte, 32768*4)
	rng.Read(d)
	sc.prot["limit.bin"] = d
	sc.desc = "one file of exactly 32768 slices"
	sc.damage = func(rng *rand.Rand, sc *scenario, disk map[string][]byte) []string {
		x := append([]byte{}, disk["limit.bin"]...)
		x[4*20000+1] ^= 0x10
		disk["limit.bin"] = x
		return []string{"flip a bit in slice 20000"}
	}
	return sc
}

// staleScenario: the index of one version of a set together with the recovery volumes of another version that has
// the same recovery-set id (the files differ only beyond their first 16 KiB); the big file is lost.  Whatever Repair
// reconstructs from those blocks is not the protected data: it must refuse (hash check) and write nothing.
func staleScenario(rng *rand.Rand) *scenario {
	sc := &scenario{prot: map[string][]byte{}, s: 2000, r: 12, g: 3, volLoss: "none", staleOf: map[string][]byte{}}
	sc.names = []string{"big.bin", "small.bin"}
	big := make([]byte, 20000)
	rng.Read(big)
	small := make([]byte, 700)
	rng.Read(small)
	sc.prot["big.bin"], sc.prot["small.bin"] = big, small
	other := append([]byte{}, big...)
	other[17000] ^= 0x40
	other[19999] ^= 0x01
	sc.staleOf["big.bin"], sc.staleOf["small.bin"] = other, small
	sc.desc = "index of one version, recovery volumes of another version with the same set id"
	sc.damage = func(rng *rand.Rand, sc *scenario, disk map[string][]byte) []string {
		disk["big.bin"] = nil
		return []string{"delete big.bin"}
	}
	return sc
}

// manyEqualScenario: exactly 256 and exactly 512 identical slices (a zero-filled file of 256 slices and a constant
// file of 512 slices; counters of eight bits wrap there) next to an ordinary file; one ordinary slice is damaged.
func manyEqualScenario(rng *rand.Rand) *scenario {
	sc := &scenario{prot: map[string][]byte{}, s: 8, r: 3, g: 2, volLoss: "none"}
	sc.names = []string{"zeros.bin", "ones.bin", "data.bin"}
	sc.prot["zeros.bin"] = make([]byte, 256*8)
	ones := make([]byte, 512*8)
	for i := range ones {
		ones[i] = 0x11
	}
	sc.prot["ones.bin"] = ones
	d := make([]byte, 70)
	rng.Read(d)
	sc.prot["data.bin"] = d
	sc.desc = "256 zero slices, 512 identical non-zero slices, one ordinary file"
	sc.damage = func(rng *rand.Rand, sc *scenario, disk map[string][]byte) []string {
		x := append([]byte{}, disk["data.bin"]...)
		x[9] ^= 0x04
		disk["data.bin"] = x
		return []string{"flip a bit in data.bin"}
	}
	return sc
}

// longNameScenario: a protected file whose name is 250 bytes long (the file system allows 255) and one in a
// sub-directory with a 240-byte name; both are lost and must be restored.
func longNameScenario(rng *rand.Rand) *scenario {
	sc := &scenario{prot: map[string][]byte{}, s: 64, r: 12, g: 2, volLoss: "none"}
	long1 := strings.Repeat("n", 246) + ".dat"
	long2 := "d/" + strings.Repeat("m", 236) + ".bin"
	sc.names = []string{"short.dat", long1, long2}
	for i, n := range sc.names {
		d := make([]byte, 100+60*i)
		rng.Read(d)
		sc.prot[n] = d
	}
	sc.desc = "file names of 250 and 240 bytes"
	sc.damage = func(rng *rand.Rand, sc *scenario, disk map[string][]byte) []string {
		disk[long1] = nil
		disk[long2] = nil
		return []string{"delete the two files with long names"}
	}
	return sc
}

func runP2Big(args []string) error {
	c := newCommon("p2big")
	count := c.fs.Int("n", 0, "number of scenarios (0 = tier default)")
	c.fs.Parse(args)
	lg, err := tracelog.Create(c.out)
	if err != nil {
		return err
	}
	defer lg.Close()
	rng := rand.New(rand.NewSource(c.seed*7919 + 13))
	thorough := c.tier == "thorough"
	n := *count
	if n == 0 {
		n = 120
		if thorough {
			n = 1500
		}
	}
	for idx := 0; idx < n; idx++ {
		var sc *scenario
		if idx == 3 {
			sc = singularScenario(rng)
		} else if idx == 6 {
			sc = swapScenario(rng)
		} else if idx == 9 {
			sc = siblingScenario(rng)
		} else if idx == 12 {
			sc = limitScenario(rng)
		} else if idx == 15 {
			sc = staleScenario(rng)
		} else if idx == 18 {
			sc = manyEqualScenario(rng)
		} else if idx == 21 {
			sc = siblingScenario(rng)
			sc.desc += " (the other twins lost)"
			sc.damage = func(rng *rand.Rand, sc *scenario, disk map[string][]byte) []string {
				disk["REPORT.DOC"] = nil
				disk["Sub/X"] = nil
				return []string{"delete REPORT.DOC", "delete Sub/X"}
			}
		} else if idx == 24 {
			sc = longNameScenario(rng)
		} else if idx == 27 || idx == 30 {
			sc = zeroTailScenario(rng, idx)
		} else if idx == 36 {
			sc = crcScenario(rng)
			if sc == nil {
				return fmt.Errorf("crc scenario: could not forge the checksums")
			}
		} else if idx == 33 {
			// the stale-volume set again, with BOTH files to be rewritten in one Repair (several goroutines, no double check)
			sc = staleScenario(rng)
			sc.g, sc.dc = 4, false
			sc.desc += " (both files lost)"
			sc.damage = func(rng *rand.Rand, sc *scenario, disk map[string][]byte) []string {
				disk["big.bin"], disk["small.bin"] = nil, nil
				return []string{"delete big.bin", "delete small.bin"}
			}
		} else {
			sc = makeScenario(rng, idx, thorough)
		}
		if err := runScenario(c, lg, rng, idx, sc); err != nil {
			return fmt.Errorf("scenario %d (%s): %v", idx, sc.desc, err)
		}
	}
	return nil
}

func runScenario(c *common, lg *tracelog.Log, rng *rand.Rand, idx int, sc *scenario) error {
	dir := filepath.Join(c.dir, fmt.Sprintf("big-%d", idx))
	defer os.RemoveAll(dir)
	bname := p2Bases[idx%len(p2Bases)]
	a, err := buildArch(dir, sc.names, sc.prot, sc.s, sc.r, sc.g, bname)
	if cr, ok := err.(*createRefused); ok {
		// Create refused a legitimate set: a judged event, not a harness failure
		lg.Emit(tracelog.M{"ev": "bigop", "op": "create", "scn": idx, "desc": sc.desc, "created": []string{}, "created_unexpected": []string{},
			"changed_by_create": []string{}, "res": tracelog.M{"err": "refused", "errtext": cr.err.Error()}, "writes": []string{}, "outside": []string{}, "changed_ok": true,
			"n": 0, "nsurv": 0, "nocc": 0, "exps": []int{}, "r_requested": sc.r, "blocks_beside_index": 0, "stale": false})
		return nil
	}
	if err != nil {
		return err
	}
	if sc.staleOf != nil {
		b, err := buildArch(filepath.Join(c.dir, fmt.Sprintf("big-%d-stale", idx)), sc.names, sc.staleOf, sc.s, sc.r, sc.g, bname)
		if err != nil {
			return err
		}
		os.RemoveAll(filepath.Join(c.dir, fmt.Sprintf("big-%d-stale", idx)))
		if !bytes.Equal(a.IndexB[:64], b.IndexB[:64]) && len(a.VolFiles) != len(b.VolFiles) {
			return fmt.Errorf("stale scenario: the two sets differ in layout")
		}
		for _, v := range a.VolFiles {
			if vb, ok := b.VolB[v]; ok {
				a.VolB[v] = vb
			}
		}
	}
	a.Others["readme.txt"] = []byte("bystander")
	a.Others["other/deep/file.bin"] = []byte{9, 9, 9}
	a.Others[bname+".stray.par2"] = []byte{} // matches <base>.*.par2 but holds no packet of the set
	for i, n := range sc.names {             // siblings with derived names (temporary-file / backup conventions): Repair must leave them alone
		if sib := n + []string{".tmp", "~", ".bak", ".new"}[i%4]; i < 4 && !hasKey(sc.prot, sib) {
			a.Others[sib] = []byte("sibling of " + n)
		}
	}
	{
		// what Create did: it may only create <base>.par2 and <base>.volNN+MM.par2
		unexpected := []string{}
		for _, p := range a.CreateCreated {
			if p != a.Index && a.VolB[p] == nil {
				unexpected = append(unexpected, p)
			}
		}
		lg.Emit(tracelog.M{"ev": "bigop", "op": "create", "scn": idx, "desc": sc.desc, "created": a.CreateCreated, "created_unexpected": unexpected,
			"changed_by_create": a.CreateChanged, "res": tracelog.M{"err": ""}, "writes": []string{}, "outside": []string{}, "changed_ok": true,
			"n": 0, "nsurv": 0, "nocc": 0, "exps": []int{}, "r_requested": sc.r, "blocks_beside_index": func() int {
				// distinct recovery blocks in the files a reader discovers beside the index (<base>.*.par2), by the independent tokenizer
				seen := map[int]bool{}
				for _, v := range a.VolFiles {
					for _, e := range a.VolExps[v] {
						seen[e] = true
					}
				}
				return len(seen)
			}()})
	}
	ps := &protSet{S: sc.s, Order: a.Order, Data: sc.prot}
	disk := map[string][]byte{}
	for _, nme := range sc.names {
		disk[nme] = sc.prot[nme]
	}
	dmg := sc.damage(rng, sc, disk)
	if dmg == nil {
		dmg = []string{}
	}
	// volume loss
	var vols []string
	switch sc.volLoss {
	case "none":
		vols = a.VolFiles
	case "all":
	case "keepfirstlast":
		for _, v := range a.VolFiles {
			ex := a.VolExps[v]
			if len(ex) > 0 && (ex[0] == 0 || ex[len(ex)-1] >= 255) {
				vols = append(vols, v)
			}
		}
	default:
		for _, v := range a.VolFiles {
			if rng.Intn(2) == 0 {
				vols = append(vols, v)
			}
		}
	}
	if err := a.materialise(dir, disk, vols); err != nil {
		return err
	}
	// recovery blocks may be stored more than once beside the index file (a volume copied under another
	// name, a copy of the index): the set of DISTINCT intact blocks is what counts
	if len(vols) > 0 && rng.Intn(3) == 0 {
		v := vols[rng.Intn(len(vols))]
		if err := sandbox.WriteFile(filepath.Join(dir, bname+".dup"+fmt.Sprint(rng.Intn(9))+".par2"), a.VolB[v]); err != nil {
			return err
		}
		dmg = append(dmg, "duplicate of volume "+v+" under another name")
		if rng.Intn(2) == 0 {
			if err := sandbox.WriteFile(filepath.Join(dir, bname+".idxcopy.par2"), a.IndexB); err != nil {
				return err
			}
		}
	}
	exps := []int{}
	for _, v := range vols {
		exps = append(exps, a.VolExps[v]...)
	}
	sort.Ints(exps)
	tr := computeTruth(ps, disk)
	intact := true
	for _, nme := range sc.names {
		if disk[nme] == nil || !bytes.Equal(disk[nme], sc.prot[nme]) {
			intact = false
		}
	}
	missingSure := []int{}
	ambiguous := 0
	for g := 0; g < tr.N; g++ {
		if !tr.Occ[g] {
			missingSure = append(missingSure, g)
		} else if !tr.Surv[g] {
			ambiguous++
		}
	}
	if len(missingSure) > 40 {
		missingSure = missingSure[:40] // only used to justify "singular"; larger systems are not justified here
	}
	index := filepath.Join(dir, a.Index)
	base := tracelog.M{"ev": "bigop", "scn": idx, "desc": sc.desc, "damage": dmg, "volloss": sc.volLoss, "stale": sc.staleOf != nil, "s": sc.s, "r": sc.r, "g": sc.g,
		"n": tr.N, "nsurv": tr.NSurv, "nocc": tr.NOcc, "intact": intact, "exps": exps, "missing_sure": missingSure,
		"nmissing_sure": tr.N - tr.NOcc, "ambiguous": ambiguous}
	emit := func(op string, extra tracelog.M) {
		ev := tracelog.M{}
		for k, v := range base {
			ev[k] = v
		}
		ev["op"] = op
		for k, v := range extra {
			ev[k] = v
		}
		lg.Emit(ev)
	}
	noAfter := tracelog.M{"verify": tracelog.M{"err": "", "needed": false, "unusable": 0},
		"repair": tracelog.M{"err": "", "repaired": []string{}, "writes": []string{}, "outside": []string{}}}

	// ---- Verify
	before, err := sandbox.Take(dir)
	if err != nil {
		return err
	}
	lio := newLogIO()
	vo := runVerify(index, sc.g, idx%2 == 0, lio)
	after, _ := sandbox.Take(dir)
	d := a.diffOp(dir, before, after, lio)
	emit("verify", tracelog.M{"res": tracelog.M{"err": vo.Err, "errtext": vo.ErrText + vo.Panic, "usable": vo.Usable, "unusable": vo.Unusable,
		"pusable": vo.PUsable, "punusable": vo.PUnusable, "needed": vo.Needed, "possible": vo.Possible, "repaired": []string{}},
		"writes": d.Writes, "outside": d.Outside, "restored": intact, "changed_ok": len(d.Writes) == 0, "listed_ok": true, "kept_or_restored": true, "after": noAfter})

	// ---- Repair
	lio = newLogIO()
	ro := runRepair(index, sc.g, sc.dc, idx%2 == 1, lio)
	after2, _ := sandbox.Take(dir)
	d2 := a.diffOp(dir, after, after2, lio)
	post := a.readDisk(dir)
	restored := true
	keptOrRestored := true
	for _, nme := range sc.names {
		eqOrig := post[nme] != nil && bytes.Equal(post[nme], sc.prot[nme])
		if !eqOrig {
			restored = false
		}
		same := (post[nme] == nil && disk[nme] == nil) || (post[nme] != nil && disk[nme] != nil && bytes.Equal(post[nme], disk[nme]))
		if !same && !eqOrig {
			keptOrRestored = false
		}
	}
	// every written protected file equals its original and is listed
	listed := map[string]bool{}
	for _, p := range ro.Repaired {
		listed[p] = true
	}
	changedOK := true
	for _, w := range d2.Writes {
		if post[w] == nil || !bytes.Equal(post[w], sc.prot[w]) || !listed[w] {
			changedOK = false
		}
	}
	listedOK := true
	for p := range listed {
		orig, isProt := sc.prot[p]
		if !isProt || post[p] == nil || !bytes.Equal(post[p], orig) {
			listedOK = false
		}
	}
	aft := noAfter
	if ro.Err == "" {
		v2 := runVerify(index, sc.g, false, nil)
		b3, _ := sandbox.Take(dir)
		lio3 := newLogIO()
		r3 := runRepair(index, sc.g, sc.dc, true, lio3)
		a3, _ := sandbox.Take(dir)
		d3 := a.diffOp(dir, b3, a3, lio3)
		aft = tracelog.M{"verify": tracelog.M{"err": v2.Err, "needed": v2.Needed, "unusable": v2.Unusable},
			"repair": tracelog.M{"err": r3.Err, "repaired": r3.Repaired, "writes": d3.Writes, "outside": d3.Outside}}
	}
	op := "repair"
	if sc.dc {
		op = "repairdc"
	}
	emit(op, tracelog.M{"res": tracelog.M{"err": ro.Err, "errtext": ro.ErrText + ro.Panic, "repaired": ro.Repaired,
		"usable": 0, "unusable": 0, "pusable": 0, "punusable": 0, "needed": false, "possible": false},
		"writes": d2.Writes, "outside": d2.Outside, "restored": restored, "changed_ok": changedOK, "listed_ok": listedOK,
		"kept_or_restored": keptOrRestored, "after": aft})
	return nil
}
