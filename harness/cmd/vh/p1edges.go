package main

import (
	"fmt"
	"path/filepath"

	"verif/harness/tracelog"
)

func init() {
	register("p1edges", "replay TLC-emitted Verify/Repair transitions of Par1Archive on the real par1 code", runP1Edges)
}

type p1Instance struct {
	Inst  string           `json:"inst"`
	Names []string         `json:"names"`
	Prot  map[string][]int `json:"prot"`
	NVols int              `json:"nvols"`
}

type p1Cases struct {
	Instance p1Instance `json:"instance"`
	Edges    []p2Edge   `json:"edges"`
}

func runP1Edges(args []string) error {
	c := newCommon("p1edges")
	c.fs.Parse(args)
	var cases p1Cases
	if err := readJSONFile(c.in, &cases); err != nil {
		return err
	}
	lg, err := tracelog.Create(c.out)
	if err != nil {
		return err
	}
	defer lg.Close()
	in := cases.Instance
	prot := map[string][]byte{}
	for n, v := range in.Prot {
		prot[n] = intsToBytes(v)
		if prot[n] == nil {
			prot[n] = []byte{}
		}
	}
	a, err := buildArch1(filepath.Join(c.dir, "pristine1-"+in.Inst), in.Names, prot, in.NVols, "set")
	if err != nil {
		return err
	}
	a.Others["notes.txt"] = []byte("unrelated file\n")
	a.Others["sub/inner.bin"] = []byte{1, 2, 3}
	a.Others["set.p00"] = []byte("looks like a volume but is not one")
	work := filepath.Join(c.dir, "edge1-"+in.Inst)
	for ei, e := range cases.Edges {
		pre := map[string][]byte{}
		for n, v := range e.Pre {
			pre[n] = intsToBytes(v)
			if pre[n] == nil && !(len(v) == 1 && v[0] == -1) {
				pre[n] = []byte{}
			}
		}
		extra := tracelog.M{"small": true, "names": in.Names, "prot": in.Prot, "pre": e.Pre, "model": e.Model, "modelpost": e.Post}
		ops := []string{e.Op}
		if e.Op == "verify" && ei%2 == 0 {
			ops = []string{"verifyall"}
		}
		if err := a.runOps(lg, work, pre, append([]int{}, e.PreVols...), ops, extra, ei); err != nil {
			return fmt.Errorf("edge %d: %v", ei, err)
		}
	}
	return nil
}
