package main

// p1objtrace: EXTENSION X03 - the typestate of the exported par1.Decoder object.
//
// Drives the real par1.Decoder (public API, real directory) through systematic and seeded
// random call sequences - methods in any order, any number of times, with the directory
// changing between the calls - and records one event per call (at its return) with its
// result and the projected directory state.  spec/Trace_Par1Object.tla replays the events
// through the actions of spec/Par1Object.tla.  Nothing is decided here.

import (
	"bytes"
	"fmt"
	"math/rand"
	"os"
	"path/filepath"

	"github.com/akalin/gopar/par1"

	"verif/harness/sandbox"
	"verif/harness/tracelog"
)

func init() {
	register("p1objtrace", "random / systematic call sequences on the real par1.Decoder object (extension X03)", runP1ObjTrace)
}

func p1ObjMenu(rng *rand.Rand, a *arch1, f string) []byte {
	d := a.Prot[f]
	cp := append([]byte{}, d...)
	switch rng.Intn(9) {
	case 0:
		return nil // absent
	case 1:
		return []byte{}
	case 2:
		if len(cp) > 0 {
			i := rng.Intn(len(cp))
			cp[i] = (cp[i] + 1) % 3
		}
		return cp
	case 3: // truncate
		if len(cp) > 0 {
			return cp[:rng.Intn(len(cp))]
		}
		return cp
	case 4:
		return append(cp, byte(rng.Intn(3)))
	case 5: // another file's content
		o := a.Names[rng.Intn(len(a.Names))]
		return append([]byte{}, a.Prot[o]...)
	case 6: // much longer than any volume's data
		return append(cp, bytes.Repeat([]byte{1}, 40)...)
	default:
		return cp // restore
	}
}

func runP1ObjTrace(args []string) error {
	c := newCommon("p1objtrace")
	n := c.fs.Int("n", 300, "number of random traces")
	length := c.fs.Int("len", 14, "events per random trace")
	c.fs.Parse(args)
	var cases p1Cases
	if err := readJSONFile(c.in, &cases); err != nil {
		return err
	}
	lg, err := tracelog.Create(c.out)
	if err != nil {
		return err
	}
	defer lg.Close()
	in := cases.Instance
	prot := map[string][]byte{}
	for nm, v := range in.Prot {
		prot[nm] = intsToBytes(v)
		if prot[nm] == nil {
			prot[nm] = []byte{}
		}
	}
	a, err := buildArch1(filepath.Join(c.dir, "pristine1-"+in.Inst), in.Names, prot, in.NVols, "set")
	if err != nil {
		return err
	}
	a.Others["notes.txt"] = []byte("unrelated file\n")
	a.Others["set.p00"] = []byte("looks like a volume but is not one")
	lg.Emit(tracelog.M{"ev": "instance", "inst": in.Inst, "names": in.Names, "prot": in.Prot, "nvols": in.NVols})
	work := filepath.Join(c.dir, "obj1-"+in.Inst)
	index := filepath.Join(work, a.Index)
	rng := rand.New(rand.NewSource(c.seed*6007 + 29))
	var dec *par1.Decoder

	blank := func(kind string) tracelog.M {
		return tracelog.M{"ev": kind, "f": "", "v": []int{}, "vol": 0, "dc": false, "err": "", "errtext": "", "ok": false,
			"usable": 0, "unusable": 0, "pusable": 0, "punusable": 0, "repaired": []string{}, "outside": []string{}, "alive": dec != nil}
	}
	guard1 := func(f func() error) (errClass, errText string) {
		defer func() {
			if r := recover(); r != nil {
				errClass, errText = "panic", fmt.Sprint(r)
			}
		}()
		err := f()
		return classifyPar1Err(err), errStr(err)
	}
	finish := func(ev tracelog.M) tracelog.M {
		ev["post"] = diskToJSON(a.readDisk(work))
		pv := []int{}
		for v := 1; v <= in.NVols; v++ {
			if b, err := os.ReadFile(filepath.Join(work, volName(a.Base, v))); err == nil && bytes.Equal(b, a.VolB[v]) {
				pv = append(pv, v)
			}
		}
		ev["postvols"] = pv
		return ev
	}
	step := func(kind string, arg interface{}) {
		ev := blank(kind)
		var before sandbox.Snapshot
		isCall := kind != "set" && kind != "delvol" && kind != "addvol"
		if isCall {
			before, _ = sandbox.Take(work)
		}
		switch kind {
		case "set":
			sv := arg.([2]interface{})
			f := sv[0].(string)
			p := filepath.Join(work, f)
			if sv[1] == nil {
				os.Remove(p)
				ev["v"] = []int{-1}
			} else {
				b := sv[1].([]byte)
				sandbox.WriteFile(p, b)
				ev["v"] = bytesToInts(b)
			}
			ev["f"] = f
		case "delvol":
			v := arg.(int)
			os.Remove(filepath.Join(work, volName(a.Base, v)))
			ev["vol"] = v
		case "addvol":
			v := arg.(int)
			sandbox.WriteFile(filepath.Join(work, volName(a.Base, v)), a.VolB[v])
			ev["vol"] = v
		case "new":
			ev["err"], ev["errtext"] = guard1(func() error {
				d, err := par1.NewDecoder(par1.DoNothingDecoderDelegate{}, index)
				if err == nil {
					dec = d
				}
				return err
			})
		case "loadfile":
			ev["err"], ev["errtext"] = guard1(func() error { return dec.LoadFileData() })
		case "loadparity":
			ev["err"], ev["errtext"] = guard1(func() error { return dec.LoadParityData() })
		case "counts":
			ev["err"], ev["errtext"] = guard1(func() error {
				fc := dec.FileCounts()
				ev["usable"], ev["unusable"], ev["pusable"], ev["punusable"] = fc.UsableDataFileCount, fc.UnusableDataFileCount, fc.UsableParityFileCount, fc.UnusableParityFileCount
				return nil
			})
		case "verifyall":
			ev["err"], ev["errtext"] = guard1(func() error {
				ok, err := dec.VerifyAllData()
				ev["ok"] = ok
				return err
			})
		case "repair":
			dc := arg.(bool)
			ev["dc"] = dc
			var rep []string
			ev["err"], ev["errtext"] = guard1(func() error {
				var err error
				rep, err = dec.Repair(dc)
				return err
			})
			out := []string{}
			for _, p := range rep {
				out = append(out, filepath.ToSlash(relTo(work, p)))
			}
			ev["repaired"] = out
		}
		if isCall {
			after, _ := sandbox.Take(work)
			ev["outside"] = a.diffOp(work, before, after, nil).Outside
		}
		lg.Emit(finish(ev))
	}
	allVols := func() []int {
		var v []int
		for i := 1; i <= in.NVols; i++ {
			v = append(v, i)
		}
		return v
	}
	reset := func() error {
		if err := a.materialise(work, a.Prot, allVols()); err != nil {
			return err
		}
		dec = nil
		ev := blank("reset")
		ev["post"] = diskToJSON(a.Prot)
		ev["postvols"] = append([]int{}, allVols()...)
		lg.Emit(ev)
		return nil
	}
	methods := []string{"loadfile", "loadparity", "counts", "verifyall", "repair", "repairdc"}
	call := func(m string) {
		switch m {
		case "repair":
			step("repair", false)
		case "repairdc":
			step("repair", true)
		default:
			step(m, nil)
		}
	}

	// (1) systematic: every sequence of up to 3 method calls after New, on five directory states
	var seqs [][]string
	var gen func(prefix []string, k int)
	gen = func(prefix []string, k int) {
		if len(prefix) > 0 {
			seqs = append(seqs, append([]string{}, prefix...))
		}
		if k == 0 {
			return
		}
		for _, m := range methods {
			gen(append(prefix, m), k-1)
		}
	}
	gen(nil, 3)
	last := a.Names[len(a.Names)-1]
	for di := 0; di < 5; di++ {
		for _, seq := range seqs {
			if err := reset(); err != nil {
				return err
			}
			switch di {
			case 1:
				step("set", [2]interface{}{a.Names[0], nil})
			case 2:
				for _, nm := range a.Names {
					step("set", [2]interface{}{nm, nil})
				}
			case 3:
				step("set", [2]interface{}{last, nil})
				step("delvol", 1)
			case 4:
				for v := 1; v <= in.NVols; v++ {
					step("delvol", v)
				}
			}
			step("new", nil)
			for _, m := range seq {
				call(m)
			}
		}
	}

	// (2) random: methods and directory changes interleaved
	for t := 0; t < *n; t++ {
		if err := reset(); err != nil {
			return err
		}
		for k := 0; k < *length; k++ {
			if dec == nil && rng.Intn(3) > 0 {
				step("new", nil)
				continue
			}
			x := rng.Intn(100)
			switch {
			case x < 22:
				f := a.Names[rng.Intn(len(a.Names))]
				b := p1ObjMenu(rng, a, f)
				var bi interface{}
				if b != nil {
					bi = b
				}
				step("set", [2]interface{}{f, bi})
			case x < 32:
				v := 1 + rng.Intn(in.NVols)
				if _, err := os.Stat(filepath.Join(work, volName(a.Base, v))); err == nil {
					step("delvol", v)
				} else {
					step("addvol", v)
				}
			case x < 36:
				step("new", nil)
			default:
				if dec == nil {
					continue
				}
				call(methods[rng.Intn(len(methods))])
			}
		}
	}
	return nil
}
