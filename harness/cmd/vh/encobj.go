package main

// encobj: EXTENSION X02 - the typestate of the exported par2.Encoder object.
//
// Drives the real par2.Encoder (public API, real directory) through every short and many seeded
// random sequences of {modify an input file, New, LoadFileData, ComputeParityData, Write} and
// records one event per step.  After each Write the set found on disk is projected onto the
// abstract state of spec/Par2EncoderObject.tla with the INDEPENDENT reference writer: which
// recorded version of the inputs the index file describes (every reference main / file
// description / checksum packet of that version is present), and which version's recovery blocks
// the volumes hold (reference blocks computed with the independent field).  Nothing is decided here.

import (
	"bytes"
	"fmt"
	"io/ioutil"
	"math/rand"
	"os"
	"path/filepath"
	"sort"
	"strings"

	"github.com/akalin/gopar/par2"

	"verif/harness/refpar2"
	"verif/harness/sandbox"
	"verif/harness/tracelog"
)

func init() {
	register("encobj", "call sequences on the real par2.Encoder object (extension X02)", runEncObj)
}

type encNopDelegate struct{}

func (encNopDelegate) OnDataFileLoad(i, n int, path string, byteCount int, err error) {}
func (encNopDelegate) OnIndexFileWrite(path string, byteCount int, err error)         {}
func (encNopDelegate) OnRecoveryFileWrite(start, count, total int, path string, dataByteCount, byteCount int, err error) {
}

func runEncObj(args []string) error {
	c := newCommon("encobj")
	nrand := c.fs.Int("n", 150, "number of random traces")
	c.fs.Parse(args)
	lg, err := tracelog.Create(c.out)
	if err != nil {
		return err
	}
	defer lg.Close()
	rng := rand.New(rand.NewSource(c.seed*104729 + 3))
	const S, R = 8, 3
	names := []string{"a.dat", "sub/b.bin", "c"}
	dir := filepath.Join(c.dir, "encobj")

	type version struct {
		files map[string][]byte
		set   *refpar2.Set
		recv  [][]byte
	}
	var versions []version // versions[v-1]
	var cur map[string][]byte
	snapshot := func() {
		cp := map[string][]byte{}
		var in []refpar2.InFile
		for _, n := range names {
			cp[n] = append([]byte{}, cur[n]...)
			in = append(in, refpar2.InFile{Name: n, Data: cp[n]})
		}
		set := refpar2.NewSet(in, S)
		v := version{files: cp, set: set}
		sl := set.AllSlices()
		for e := 0; e < R; e++ {
			v.recv = append(v.recv, refpar2.RecoveryBlock(sl, uint32(e)))
		}
		versions = append(versions, v)
	}
	writeInputs := func() error {
		for _, n := range names {
			if err := sandbox.WriteFile(filepath.Join(dir, filepath.FromSlash(n)), cur[n]); err != nil {
				return err
			}
		}
		return nil
	}
	var enc *par2.Encoder
	g := 1
	blank := func(kind string) tracelog.M {
		return tracelog.M{"ev": kind, "out": "", "errtext": "", "desc_ver": -1, "par_ver": -1, "partial": false, "index_present": false,
			"inputs_unchanged": true, "outside": []string{}, "ver": len(versions), "g": g}
	}
	reset := func() error {
		if err := sandbox.Fresh(dir); err != nil {
			return err
		}
		versions = nil
		cur = map[string][]byte{}
		for i, n := range names {
			d := make([]byte, []int{21, 8, 3}[i]+rng.Intn(12))
			rng.Read(d)
			cur[n] = d
		}
		snapshot()
		enc = nil
		g = []int{1, 2, 3, 8}[rng.Intn(4)]
		if err := writeInputs(); err != nil {
			return err
		}
		lg.Emit(blank("reset"))
		return nil
	}
	call := func(f func() error) (out, text string) {
		defer func() {
			if r := recover(); r != nil {
				out, text = "panic", fmt.Sprint(r)
			}
		}()
		if err := f(); err != nil {
			return "error", err.Error()
		}
		return "ok", ""
	}
	// projection of the directory onto the abstract archive state
	project := func(ev tracelog.M) {
		idx, err := ioutil.ReadFile(filepath.Join(dir, "out.par2"))
		ev["index_present"] = err == nil
		if err != nil {
			return
		}
		for vi := len(versions) - 1; vi >= 0; vi-- {
			st := versions[vi].set
			ok := bytes.Contains(idx, st.MainPacket())
			for i := range st.Files {
				ok = ok && bytes.Contains(idx, st.FileDescPacket(i)) && bytes.Contains(idx, st.IFSCPacket(i))
			}
			if ok {
				ev["desc_ver"] = vi + 1
				break
			}
		}
		blocks := map[uint32][]byte{}
		ents, _ := ioutil.ReadDir(dir)
		for _, e := range ents {
			if strings.HasPrefix(e.Name(), "out.vol") && strings.HasSuffix(e.Name(), ".par2") {
				b, _ := ioutil.ReadFile(filepath.Join(dir, e.Name()))
				pk, _ := refpar2.Tokenize(b)
				for _, p := range pk {
					if p.Type == refpar2.TypeRecv && p.HashOK() {
						if ex, data, ok := refpar2.ParseRecv(p.Body); ok {
							blocks[ex] = data
						}
					}
				}
			}
		}
		ev["partial"] = len(blocks) < R
		if len(blocks) == R {
			for vi := len(versions) - 1; vi >= 0; vi-- {
				ok := true
				for e := 0; e < R; e++ {
					ok = ok && bytes.Equal(blocks[uint32(e)], versions[vi].recv[e])
				}
				if ok {
					ev["par_ver"] = vi + 1
					break
				}
			}
		}
	}
	step := func(kind string) {
		ev := blank(kind)
		before, _ := sandbox.Take(dir)
		switch kind {
		case "modify":
			n := names[rng.Intn(len(names))]
			d := append([]byte{}, cur[n]...)
			switch rng.Intn(3) {
			case 0:
				d = append(d, byte(rng.Intn(256)))
			case 1:
				d[rng.Intn(len(d))] ^= 1 << uint(rng.Intn(8))
			default:
				if len(d) > 1 {
					d = d[:len(d)-1]
				} else {
					d = append(d, 7)
				}
			}
			cur[n] = d
			// every version must be distinguishable from every earlier one (the projection identifies versions by content)
			for dup := true; dup; {
				dup = false
				for _, v := range versions {
					same := true
					for _, nn := range names {
						same = same && bytes.Equal(v.files[nn], cur[nn])
					}
					dup = dup || same
				}
				if dup {
					cur[n] = append(cur[n], byte(rng.Intn(256)))
				}
			}
			writeInputs()
			snapshot()
			ev["ver"] = len(versions)
			lg.Emit(ev)
			return
		case "new":
			var paths []string
			for _, n := range names {
				paths = append(paths, filepath.Join(dir, filepath.FromSlash(n)))
			}
			ev["out"], ev["errtext"] = call(func() error {
				e, err := par2.NewEncoder(encNopDelegate{}, dir, paths, S, R, g)
				if err == nil {
					enc = e
				}
				return err
			})
		case "load":
			ev["out"], ev["errtext"] = call(func() error { return enc.LoadFileData() })
		case "compute":
			ev["out"], ev["errtext"] = call(func() error { return enc.ComputeParityData() })
		case "write":
			// a fresh output location for every Write: what is found afterwards is what this call wrote
			ents, _ := ioutil.ReadDir(dir)
			for _, e := range ents {
				if strings.HasPrefix(e.Name(), "out.") {
					os.Remove(filepath.Join(dir, e.Name()))
				}
			}
			before, _ = sandbox.Take(dir)
			ev["out"], ev["errtext"] = call(func() error { return enc.Write(filepath.Join(dir, "out.par2")) })
			project(ev)
		}
		after, _ := sandbox.Take(dir)
		cr, del, chg, tch := sandbox.Diff(before, after)
		outside := []string{}
		for _, p := range cr {
			if !(kind == "write" && strings.HasPrefix(p, "out.")) {
				outside = append(outside, "created:"+p)
			}
		}
		for _, l := range [][]string{del, chg, tch} {
			for _, p := range l {
				if e, ok := after[p]; ok && e.IsDir {
					continue
				}
				outside = append(outside, "modified:"+p)
			}
		}
		sort.Strings(outside)
		ev["outside"] = outside
		unchanged := true
		for _, n := range names {
			b, err := ioutil.ReadFile(filepath.Join(dir, filepath.FromSlash(n)))
			if err != nil || !bytes.Equal(b, cur[n]) {
				unchanged = false
			}
		}
		ev["inputs_unchanged"] = unchanged
		lg.Emit(ev)
	}

	alphabet := []string{"modify", "load", "compute", "write"}
	var seqs [][]string
	var gen func(prefix []string, k int)
	gen = func(prefix []string, k int) {
		if len(prefix) > 0 {
			seqs = append(seqs, append([]string{}, prefix...))
		}
		if k == 0 {
			return
		}
		for _, a := range alphabet {
			gen(append(prefix, a), k-1)
		}
	}
	depth := 4
	if c.tier == "thorough" {
		depth = 5
	}
	gen(nil, depth)
	for _, seq := range seqs {
		if err := reset(); err != nil {
			return err
		}
		step("new")
		for _, a := range seq {
			step(a)
		}
	}
	for t := 0; t < *nrand; t++ {
		if err := reset(); err != nil {
			return err
		}
		step("new")
		for k := 0; k < 12; k++ {
			x := rng.Intn(100)
			switch {
			case x < 20:
				if len(versions) < 6 {
					step("modify")
				}
			case x < 25:
				step("new")
			case x < 50:
				step("load")
			case x < 75:
				step("compute")
			default:
				step("write")
			}
		}
	}
	return nil
}
