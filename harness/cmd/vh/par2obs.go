package main

import (
	"crypto/md5"
	"encoding/hex"
	"io/ioutil"
	"path/filepath"
	"sort"

	"verif/harness/refpar2"
	"verif/harness/tracelog"
)

// The record view of PAR2 files for Par2Format.tla: raw fields and digests, no comparisons.

func hx(b [16]byte) string { return hex.EncodeToString(b[:]) }

func idBytes(b [16]byte) []int {
	out := make([]int, 16)
	for i, x := range b {
		out[i] = int(x)
	}
	return out
}

type inputFact struct {
	Name   string
	Data   []byte
	ID     [16]byte
	Record tracelog.M
}

func inputFacts(name string, data []byte, s int) inputFact {
	id := refpar2.FileID(data, name)
	pairs := []tracelog.M{}
	for _, p := range refpar2.SlicePairs(data, s) {
		pairs = append(pairs, tracelog.M{"md5": hx(p.MD5), "crc": int64(p.CRC)})
	}
	return inputFact{name, data, id, tracelog.M{"name": name, "len": len(data), "md5": hx(md5.Sum(data)), "md5_16k": hx(refpar2.Hash16k(data)),
		"id": hx(id), "idb": idBytes(id), "pairs": pairs}}
}

// sortFacts sorts by the specification's order of file ids.
func sortFacts(f []inputFact) []inputFact {
	out := append([]inputFact{}, f...)
	sort.Slice(out, func(i, j int) bool { return refpar2.IDLess(out[i].ID, out[j].ID) })
	return out
}

// observePackets turns a PAR2 byte stream into packet records; recovery data words are reported
// at the given word columns only.
func observePackets(data []byte, cols []int) ([]tracelog.M, int) {
	pkts, stop := refpar2.Tokenize(data)
	out := []tracelog.M{}
	for _, p := range pkts {
		r := tracelog.M{"off": p.Off, "len": int64(p.Len), "magic_ok": p.MagicOK, "complete": p.Complete, "hash_ok": p.HashOK(),
			"setid": hx(p.SetID), "type": p.TypeName()}
		if p.Complete {
			switch p.Type {
			case refpar2.TypeMain:
				if m, ok := refpar2.ParseMain(p.Body); ok {
					ids := []string{}
					for _, id := range m.IDs {
						ids = append(ids, hx(id))
					}
					r["slice_size"], r["nrecv"], r["ids"], r["body_md5"] = int64(m.SliceSize), int64(m.NumRecv), ids, hx(m.BodyMD5)
				} else {
					r["type"] = "main-malformed"
				}
			case refpar2.TypeFileDesc:
				if f, ok := refpar2.ParseFileDesc(p.Body); ok {
					padOK := len(f.NameRaw)-len(f.Name) <= 3
					for _, b := range f.NameRaw[len(f.Name):] {
						if b != 0 {
							padOK = false
						}
					}
					r["id"], r["hash"], r["hash16k"], r["length"], r["name"], r["computed_id"], r["padding_ok"] =
						hx(f.ID), hx(f.Hash), hx(f.Hash16k), int64(f.Length), f.Name, hx(f.Computed), padOK
				} else {
					r["type"] = "filedesc-malformed"
				}
			case refpar2.TypeIFSC:
				if id, pairs, ok := refpar2.ParseIFSC(p.Body); ok {
					ps := []tracelog.M{}
					for _, q := range pairs {
						ps = append(ps, tracelog.M{"md5": hx(q.MD5), "crc": int64(q.CRC)})
					}
					r["id"], r["pairs"] = hx(id), ps
				} else {
					r["type"] = "ifsc-malformed"
				}
			case refpar2.TypeRecv:
				if e, d, ok := refpar2.ParseRecv(p.Body); ok {
					ws := []int{}
					for _, c := range cols {
						if 2*c+1 < len(d) {
							ws = append(ws, int(d[2*c])|int(d[2*c+1])<<8)
						}
					}
					r["exp"], r["datalen"], r["words"] = int64(e), len(d), ws
				} else {
					r["type"] = "recv-malformed"
				}
			case refpar2.TypeCreator:
				r["client"] = string(trimNul(p.Body))
			}
		}
		out = append(out, r)
	}
	return out, stop
}

func trimNul(b []byte) []byte {
	for len(b) > 0 && b[len(b)-1] == 0 {
		b = b[:len(b)-1]
	}
	return b
}

// observeSetEvent builds the "set" event for Par2Format: inputs (sorted by id), the word columns
// of all input slices in specification order, and the record view of every file.
func observeSetEvent(dir string, indexName string, volNames []string, facts []inputFact, s, r int, maxProducts int) (tracelog.M, error) {
	sorted := sortFacts(facts)
	nsl := 0
	for _, f := range sorted {
		nsl += refpar2.NumSlices(len(f.Data), s)
	}
	nw := s / 2
	ncols := nw
	if nsl*r*ncols > maxProducts {
		ncols = maxProducts / (nsl*r + 1)
		if ncols < 1 {
			ncols = 1
		}
		if ncols > 8 {
			ncols = 8
		}
	}
	cols := []int{}
	if ncols >= nw {
		for c := 0; c < nw; c++ {
			cols = append(cols, c)
		}
	} else {
		// first, last and evenly spread columns
		seen := map[int]bool{}
		for k := 0; k < ncols; k++ {
			c := k * (nw - 1) / max(1, ncols-1)
			if ncols == 1 {
				c = nw / 2
			}
			if !seen[c] {
				seen[c] = true
				cols = append(cols, c)
			}
		}
	}
	slicewords := [][]int{}
	for _, f := range sorted {
		for k := 0; k < refpar2.NumSlices(len(f.Data), s); k++ {
			sl := refpar2.PadSlice(f.Data, k, s)
			ws := make([]int, len(cols))
			for i, c := range cols {
				ws[i] = int(sl[2*c]) | int(sl[2*c+1])<<8
			}
			slicewords = append(slicewords, ws)
		}
	}
	files := []tracelog.M{}
	names := append([]string{indexName}, volNames...)
	for i, n := range names {
		b, err := ioutil.ReadFile(filepath.Join(dir, n))
		if err != nil {
			return nil, err
		}
		pk, stop := observePackets(b, cols)
		kind := "volume"
		if i == 0 {
			kind = "index"
		}
		files = append(files, tracelog.M{"name": n, "size": len(b), "stop": stop, "kind": kind, "packets": pk})
	}
	srt := []tracelog.M{}
	for _, f := range sorted {
		srt = append(srt, f.Record)
	}
	return tracelog.M{"ev": "set", "s": s, "r": r, "sorted": srt, "cols": cols, "slicewords": slicewords, "files": files, "nslices": nsl}, nil
}
