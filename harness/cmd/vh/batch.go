package main

import (
	"bufio"
	"bytes"
	"fmt"
	"io"
	"os"
	"os/exec"
	"strconv"
	"strings"
	"syscall"
	"time"

	"verif/harness/tracelog"
)

// Batch worker processes (crash containment): a child executes a batch of cases with recover(),
// announcing each case before it starts ("START i") and after it ends ("DONE i") on stdout.  If
// the child dies (fatal error, memory limit, signal) or makes no progress within the per-case
// time limit, the in-flight case is known: it is re-run alone to confirm, an observation event is
// emitted for it, and the batch resumes after it.

type batchResult struct {
	harness map[int]string // the child died in harness code (no frame of the code under test on the stack): a harness failure
	fatal   map[int]string // case index -> detail, for cases that killed the child (confirmed by a solo re-run)
	flaky   map[int]string // died once, passed alone
	timeout map[int]bool
}

// superviseBatch runs "<self> <cmd> -worker -in <in> -from i -to j -out <part>" children until every
// case 0..n-1 has been executed or observed to be fatal.  Parts are appended to out in case order by
// the caller (each child writes its own part file; this function returns their paths).
func superviseBatch(cmdName string, extra []string, n int, perCase time.Duration, memLimitMB int, partPrefix string) ([]string, batchResult, error) {
	res := batchResult{harness: map[int]string{}, fatal: map[int]string{}, flaky: map[int]string{}, timeout: map[int]bool{}}
	var parts []string
	self, err := os.Executable()
	if err != nil {
		return nil, res, err
	}
	runChild := func(from, to int, part string) (lastStart, lastDone int, detail string, timedOut bool) {
		args := append([]string{cmdName, "-worker", "-from", strconv.Itoa(from), "-to", strconv.Itoa(to), "-out", part}, extra...)
		cmd := exec.Command(self, args...)
		cmd.Env = append(os.Environ(), fmt.Sprintf("VH_MEMLIMIT_MB=%d", memLimitMB))
		stdout, _ := cmd.StdoutPipe()
		var stderr bytes.Buffer
		cmd.Stderr = &stderr
		lastStart, lastDone = -1, -1
		if err := cmd.Start(); err != nil {
			return -1, -1, err.Error(), false
		}
		lines := make(chan string, 256)
		go func() {
			sc := bufio.NewScanner(stdout)
			for sc.Scan() {
				lines <- sc.Text()
			}
			close(lines)
		}()
		timer := time.NewTimer(perCase + 20*time.Second) // the first case also pays for process start
	loop:
		for {
			select {
			case l, ok := <-lines:
				if !ok {
					break loop
				}
				if strings.HasPrefix(l, "START ") {
					lastStart, _ = strconv.Atoi(l[6:])
				} else if strings.HasPrefix(l, "DONE ") {
					lastDone, _ = strconv.Atoi(l[5:])
				}
				if !timer.Stop() {
					select {
					case <-timer.C:
					default:
					}
				}
				timer.Reset(perCase)
			case <-timer.C:
				timedOut = true
				cmd.Process.Kill()
				break loop
			}
		}
		io.Copy(io.Discard, stdout)
		werr := cmd.Wait()
		if werr != nil {
			detail = werr.Error()
			if ee, ok := werr.(*exec.ExitError); ok {
				if ws, ok := ee.Sys().(syscall.WaitStatus); ok && ws.Signaled() {
					detail = "signal " + ws.Signal().String()
				}
			}
			se := stderr.String()
			if !strings.Contains(se, "github.com/akalin/gopar") && !strings.Contains(se, "out of memory") && !strings.Contains(se, "cannot allocate") && len(se) > 0 {
				detail = "HARNESS:" + detail
			}
			if i := strings.Index(se, "panic:"); i >= 0 && !strings.Contains(se, "fatal error:") {
				end := i + 200
				if end > len(se) {
					end = len(se)
				}
				detail += ": " + strings.Replace(se[i:end], "\n", " | ", -1)
			} else if i := strings.Index(se, "fatal error:"); i >= 0 {
				end := i + 160
				if end > len(se) {
					end = len(se)
				}
				detail += ": " + strings.Replace(se[i:end], "\n", " | ", -1)
			} else if len(se) > 0 {
				detail += ": " + tail(strings.Replace(se, "\n", " | ", -1), 200)
			}
		}
		return
	}
	next := 0
	pi := 0
	for next < n {
		part := fmt.Sprintf("%s-%d.ndjson", partPrefix, pi)
		pi++
		lastStart, lastDone, detail, timedOut := runChild(next, n, part)
		parts = append(parts, part)
		if lastDone == n-1 && detail == "" {
			break
		}
		if detail == "" && !timedOut && lastDone >= next {
			// child ended early without an error: resume after what it did
			next = lastDone + 1
			continue
		}
		if lastStart < next {
			return parts, res, fmt.Errorf("batch worker died before starting a case: %s", detail)
		}
		// in-flight case: lastStart.  Re-run it alone to confirm.
		solo := fmt.Sprintf("%s-%d.ndjson", partPrefix, pi)
		pi++
		_, d2, detail2, to2 := runChild(lastStart, lastStart+1, solo)
		if d2 == lastStart && detail2 == "" && !to2 {
			res.flaky[lastStart] = detail
			parts = append(parts, solo)
		} else {
			if timedOut || to2 {
				res.timeout[lastStart] = true
				detail = "no progress within the time limit; " + detail
			}
			if strings.HasPrefix(detail2, "HARNESS:") || strings.HasPrefix(detail, "HARNESS:") {
				res.harness[lastStart] = detail + " / alone: " + detail2
			} else {
				res.fatal[lastStart] = detail + " / alone: " + detail2
			}
			os.Remove(solo)
		}
		next = lastStart + 1
	}
	return parts, res, nil
}

// workerSetup applies the address-space limit requested by the supervisor.
func workerSetup() {
	if v := os.Getenv("VH_MEMLIMIT_MB"); v != "" {
		if mb, err := strconv.Atoi(v); err == nil && mb > 0 {
			lim := syscall.Rlimit{Cur: uint64(mb) << 20, Max: uint64(mb) << 20}
			syscall.Setrlimit(syscall.RLIMIT_AS, &lim)
		}
	}
}

func peakRSSKB() int64 {
	var ru syscall.Rusage
	syscall.Getrusage(syscall.RUSAGE_SELF, &ru)
	return ru.Maxrss
}

// appendParts copies the part files into the trace in order.
func appendParts(lg *tracelog.Log, parts []string, each func(line []byte)) error {
	for _, p := range parts {
		f, err := os.Open(p)
		if err != nil {
			continue
		}
		sc := bufio.NewScanner(f)
		sc.Buffer(make([]byte, 1<<20), 1<<26)
		for sc.Scan() {
			each(append([]byte{}, sc.Bytes()...))
		}
		f.Close()
		os.Remove(p)
	}
	return nil
}
