package main

import (
	"bufio"
	"bytes"
	"encoding/json"
	"fmt"
	"io/ioutil"
	"math/rand"
	"os"
	"path/filepath"
	"sort"
	"strings"

	"github.com/akalin/gopar/par2"

	"verif/harness/sandbox"
	"verif/harness/tracelog"
)

func init() {
	register("c05", "real par2.Create on TLC-enumerated shapes and seeded large sets; output observed by the independent tokenizer", runC05)
}

type c05Shape struct {
	S      int      `json:"s"`
	R      int      `json:"r"`
	Names  []string `json:"names"`
	Sizes  []int    `json:"sizes"`
	Layout [][]int  `json:"layout"`
}

func createAndObserve(lg *tracelog.Log, dir string, names []string, datas [][]byte, s, r, g int, desc string, layout [][]int, maxProducts int) error {
	if err := sandbox.Fresh(dir); err != nil {
		return err
	}
	var paths []string
	var facts []inputFact
	for i, n := range names {
		p := filepath.Join(dir, filepath.FromSlash(n))
		if err := sandbox.WriteFile(p, datas[i]); err != nil {
			return err
		}
		paths = append(paths, p)
		facts = append(facts, inputFacts(n, datas[i], s))
	}
	before, _ := sandbox.Take(dir)
	err := par2.Create(filepath.Join(dir, "out.par2"), paths, par2.CreateOptions{SliceByteCount: s, NumParityShards: r, NumGoroutines: g})
	if err != nil {
		return fmt.Errorf("par2.Create(%s): %v", desc, err)
	}
	after, _ := sandbox.Take(dir)
	created, deleted, changed, touched := sandbox.Diff(before, after)
	inputsUnchanged := true
	for i, n := range names {
		b, err := ioutil.ReadFile(filepath.Join(dir, filepath.FromSlash(n)))
		if err != nil || !bytes.Equal(b, datas[i]) {
			inputsUnchanged = false
		}
	}
	for _, p := range append(append(deleted, changed...), touched...) {
		if e, ok := after[p]; ok && e.IsDir {
			continue
		}
		inputsUnchanged = false
	}
	var vols []string
	for _, c := range created {
		if c != "out.par2" && strings.HasSuffix(c, ".par2") {
			vols = append(vols, c)
		}
	}
	sort.Strings(vols)
	ev, err := observeSetEvent(dir, "out.par2", vols, facts, s, r, maxProducts)
	if err != nil {
		return err
	}
	// the volume names the layout model predicts (drift only: naming is gopar's choice)
	predicted := []string{}
	for _, l := range layout {
		predicted = append(predicted, fmt.Sprintf("out.vol%02d+%02d.par2", l[0], l[1]))
	}
	sort.Strings(predicted)
	ev["g"], ev["desc"], ev["inputs_unchanged"], ev["created"], ev["predicted_volumes"] = g, desc, inputsUnchanged, sandbox.NonNil(created), predicted
	lg.Emit(ev)
	return nil
}

func runC05(args []string) error {
	c := newCommon("c05")
	mode := c.fs.String("mode", "full", "full | procs (a few sets with large coding matrices, run under several GOMAXPROCS values: what Create writes must not depend on it)")
	c.fs.Parse(args)
	lg, err := tracelog.Create(c.out)
	if err != nil {
		return err
	}
	defer lg.Close()
	rng := rand.New(rand.NewSource(c.seed*67 + 2))
	dir := filepath.Join(c.dir, "c05")
	defer os.RemoveAll(dir)
	thorough := c.tier == "thorough"
	// (A) shapes enumerated by TLC
	if c.in != "" {
		f, err := os.Open(c.in)
		if err != nil {
			return err
		}
		sc := bufio.NewScanner(f)
		sc.Buffer(make([]byte, 1<<20), 1<<24)
		i := 0
		for sc.Scan() {
			var sh c05Shape
			if err := json.Unmarshal(sc.Bytes(), &sh); err != nil {
				return err
			}
			i++
			if !thorough && i%3 != int(c.seed)%3 {
				continue
			}
			var datas [][]byte
			for _, n := range sh.Sizes {
				d := make([]byte, n)
				rng.Read(d)
				if i%4 == 0 {
					for k := range d {
						d[k] = byte(rng.Intn(2))
					}
				}
				datas = append(datas, d)
			}
			if err := createAndObserve(lg, dir, sh.Names, datas, sh.S, sh.R, []int{1, 2, 3, 8}[i%4], fmt.Sprintf("shape %d", i), sh.Layout, 1<<30); err != nil {
				return err
			}
		}
		f.Close()
	}
	// (B) seeded large sets; budget of field products TLC spends per set on the recovery data
	budget := 600000
	if thorough {
		budget = 5000000
	}
	if *mode == "procs" {
		// large coding matrices (slices x blocks >= 16384 elements) with block counts that no small worker count divides
		for i, r := range []int{7, 20, 33, 101} {
			sl := 4
			nsl := 2100 + rng.Intn(400)
			if i%2 == 1 {
				sl, nsl = 8, 900+rng.Intn(200)
			}
			d1 := make([]byte, sl*(nsl/2)-1)
			d2 := make([]byte, sl*(nsl-nsl/2))
			rng.Read(d1)
			rng.Read(d2)
			g := []int{1, 2, 5, 16}[i%4]
			if err := createAndObserve(lg, dir, []string{"p.bin", "q/r.bin"}, [][]byte{d1, d2}, sl, r, g, fmt.Sprintf("procs %d", i), nil, budget/2); err != nil {
				return err
			}
		}
		return nil
	}
	n := 24
	if thorough {
		n = 160
	}
	for i := 0; i < n; i++ {
		s := []int{4, 8, 12, 64, 512, 2000, 4096, 16384, 65536, 131072}[rng.Intn(10)]
		nf := 1 + rng.Intn(8)
		r := 1 + rng.Intn(12)
		switch i % 8 {
		case 1:
			r = 30 + rng.Intn(90)
		case 5:
			if thorough {
				r = 200 + rng.Intn(101)
			} else {
				r = 100 + rng.Intn(30)
			}
		}
		var names []string
		var datas [][]byte
		total := 0
		for k := 0; k < nf; k++ {
			name := fmt.Sprintf("in%02d.bin", k)
			if k%3 == 1 {
				name = fmt.Sprintf("d%d/in%02d.bin", k, k)
			}
			if k%5 == 4 {
				name = fmt.Sprintf("d/e e/f%02d", k)
			}
			if k%4 == 3 {
				// inputs that merely look like files of the set being written (same stem / same extension as out.par2)
				name = []string{"out-2019.par2", "out2.par2", "outs/x.par2", "out.par2.orig", "OUT.PAR2.bak"}[(i+k)%5]
			}
			for _, prev := range names {
				if prev == name { // the inputs are a SET of files
					name = fmt.Sprintf("in%02d.bin", k)
				}
			}
			sz := []int{1, s - 1, s, s + 1, 2*s + 1, 16383, 16384, 16385, 32768, 5*s + 2, 40000 + rng.Intn(30000)}[rng.Intn(11)]
			if sz < 1 {
				sz = 1
			}
			if s <= 12 && sz > 3000 {
				sz = 3000 + rng.Intn(100)
			}
			if total+sz > 4<<20 {
				sz = 1 + rng.Intn(2000)
			}
			total += sz
			d := make([]byte, sz)
			rng.Read(d)
			if k%2 == 1 {
				d = genContent(rng, sz, rng.Intn(7), s) // low-entropy, duplicate-slice, constant and periodic content
			}
			names = append(names, name)
			datas = append(datas, d)
		}
		g := []int{1, 2, 3, 5, 8, 16, 33, 40}[rng.Intn(8)]
		if err := createAndObserve(lg, dir, names, datas, s, r, g, fmt.Sprintf("seeded %d", i), nil, budget); err != nil {
			return err
		}
	}
	// many recovery blocks on a small set (the volume layout beyond 128 / 256 / 512 blocks): cheap for Create and for TLC
	for _, r := range []int{192 + rng.Intn(60), 256 + rng.Intn(3), 300 + rng.Intn(212), 513} {
		d1 := make([]byte, 9+rng.Intn(20))
		d2 := make([]byte, 4+rng.Intn(8))
		rng.Read(d1)
		rng.Read(d2)
		if err := createAndObserve(lg, dir, []string{"m.bin", "n/o.bin"}, [][]byte{d1, d2}, 4, r, 1+rng.Intn(3), fmt.Sprintf("many recovery blocks r=%d", r), nil, budget); err != nil {
			return err
		}
	}
	// a coding coefficient 0xffff (Const(152)^75): 160 slices, 80 recovery blocks, once with slices shorter
	// than a SIMD block (scalar kernels) and once with one SIMD block plus a scalar tail; every word judged
	for _, s := range []int{4, 36} {
		d := make([]byte, 160*s)
		rng.Read(d)
		if err := createAndObserve(lg, dir, []string{"coef.bin"}, [][]byte{d}, s, 80, 1+s%3, fmt.Sprintf("coefficient 0xffff, S=%d", s), nil, 1<<30); err != nil {
			return err
		}
	}
	// a set of more than 4 MiB with a slice size above 16 KiB that is no power of two (blocked / striped encoders:
	// several passes over each slice, stripe widths that do not divide it)
	{
		s := 40000
		d1 := make([]byte, 100*s)
		rng.Read(d1)
		d2 := make([]byte, 50*s-123)
		rng.Read(d2)
		if err := createAndObserve(lg, dir, []string{"wide1.bin", "sub/wide2.bin"}, [][]byte{d1, d2}, s, 3, 2, "6 MB, slice size 40000", nil, budget); err != nil {
			return err
		}
	}
	// many slices (tens of thousands): one per run in the thorough tier, ~9000 in quick
	{
		s := 4
		nsl := 9000
		if thorough {
			nsl = 32768
		}
		// exactly nsl slices in two files, both ending in a partial slice (32768 is the format's limit)
		n2 := nsl / 3
		d := make([]byte, nsl*s)
		rng.Read(d)
		d2 := d[:n2*s-1]
		d1 := d[n2*s : nsl*s-2]
		if err := createAndObserve(lg, dir, []string{"big.bin", "x/big2.bin"}, [][]byte{d1, d2}, s, 3, 16, "many slices", nil, budget); err != nil {
			return err
		}
	}
	return nil
}
