package main

import (
	"encoding/json"
	"errors"
	"fmt"
	"io/ioutil"
	"os"
	"path/filepath"
	"sort"
	"strings"
	"sync"

	"github.com/akalin/gopar/par2"
	"github.com/akalin/gopar/rsec16"

	"verif/harness/refpar2"
	"verif/harness/sandbox"
)

// ---------------------------------------------------------------------------------------
// error classes
// ---------------------------------------------------------------------------------------

func classifyPar2Err(err error) string {
	if err == nil {
		return ""
	}
	if _, ok := err.(rsec16.NotEnoughParityShardsError); ok {
		return "notenough"
	}
	msg := err.Error()
	switch {
	case msg == "singular matrix":
		return "singular"
	case msg == "no parity shards":
		return "noparity"
	case os.IsNotExist(err):
		return "notexist"
	}
	return "other"
}

// ---------------------------------------------------------------------------------------
// observing file system (hook H2): logs every call, passes it to the real one
// ---------------------------------------------------------------------------------------

type ioCall struct {
	Kind string `json:"kind"` // read | find | write
	Path string `json:"path"`
	Err  string `json:"err,omitempty"`
	N    int    `json:"n"`
}

type logIO struct {
	mu    sync.Mutex
	inner par2.VerifFileIO
	calls []ioCall
}

func newLogIO() *logIO { return &logIO{inner: par2.VerifDefaultFileIO()} }

func errStr(err error) string {
	if err == nil {
		return ""
	}
	return err.Error()
}

func (l *logIO) ReadFile(path string) ([]byte, error) {
	b, err := l.inner.ReadFile(path)
	l.mu.Lock()
	l.calls = append(l.calls, ioCall{"read", path, errStr(err), len(b)})
	l.mu.Unlock()
	return b, err
}

func (l *logIO) FindWithPrefixAndSuffix(prefix, suffix string) ([]string, error) {
	m, err := l.inner.FindWithPrefixAndSuffix(prefix, suffix)
	l.mu.Lock()
	l.calls = append(l.calls, ioCall{"find", prefix + "*" + suffix, errStr(err), len(m)})
	l.mu.Unlock()
	return m, err
}

func (l *logIO) WriteFile(path string, data []byte) error {
	err := l.inner.WriteFile(path, data)
	l.mu.Lock()
	l.calls = append(l.calls, ioCall{"write", path, errStr(err), len(data)})
	l.mu.Unlock()
	return err
}

func (l *logIO) writes() []string {
	var out []string
	for _, c := range l.calls {
		if c.Kind == "write" {
			out = append(out, c.Path)
		}
	}
	return out
}

// ---------------------------------------------------------------------------------------
// an archive created by the real par2.Create, kept pristine in memory
// ---------------------------------------------------------------------------------------

type arch struct {
	Names    []string          // protected names as given
	Order    []string          // names in the order of the main packet gopar wrote
	Prot     map[string][]byte // original contents
	S, R     int
	Index    string // index file name (relative)
	IndexB   []byte
	VolFiles []string          // volume file names (relative), sorted
	VolB     map[string][]byte // their pristine bytes
	VolExps  map[string][]int  // exponents per volume file (by the independent tokenizer)
	Others   map[string][]byte // bystander files (relative path -> bytes)
	// what par2.Create did to the directory (relative paths)
	CreateCreated, CreateChanged []string
}

// dirsOut drops directories (their mtime changes when entries are created in them).
func dirsOut(snap sandbox.Snapshot, paths []string) []string {
	out := []string{}
	for _, p := range paths {
		if e, ok := snap[p]; ok && e.IsDir {
			continue
		}
		out = append(out, p)
	}
	return out
}

func relTo(dir, p string) string {
	r, err := filepath.Rel(dir, p)
	if err != nil {
		return p
	}
	return r
}

// createRefused: the real Create returned an error for a set the harness considers legitimate.  The big-set
// drivers turn it into a judged event (C01 / C04 ... create_accepts_legitimate_set) instead of dying.
type createRefused struct{ err error }

func (c *createRefused) Error() string { return "Create refused the set: " + c.err.Error() }

// buildArch writes the protected files into dir, runs the real par2.Create and reads back what
// it wrote with the independent tokenizer.
func buildArch(dir string, names []string, prot map[string][]byte, s, r, g int, base string) (*arch, error) {
	if err := sandbox.Fresh(dir); err != nil {
		return nil, err
	}
	var paths []string
	for _, n := range names {
		p := filepath.Join(dir, filepath.FromSlash(n))
		if err := sandbox.WriteFile(p, prot[n]); err != nil {
			return nil, err
		}
		paths = append(paths, p)
	}
	index := filepath.Join(dir, base+".par2")
	sandbox.WriteFile(filepath.Join(dir, "bystander.txt"), []byte("bystander"))
	// bystanders whose names are derived from the names Create reads and writes (temporary-file, backup
	// and editor conventions): Create must leave them alone
	derived := []string{base + ".par2.tmp", base + ".par2~", base + ".par2.bak", base + ".vol00+01.par2.tmp", base + ".tmp"}
	if len(names) > 0 {
		derived = append(derived, names[0]+".tmp", names[0]+"~", names[len(names)-1]+".bak")
	}
	{
		isProt := map[string]bool{}
		for _, n := range names {
			isProt[n] = true
		}
		var keep []string
		for _, dn := range derived {
			if !isProt[dn] {
				keep = append(keep, dn)
			}
		}
		derived = keep
	}
	for _, dn := range derived {
		sandbox.WriteFile(filepath.Join(dir, filepath.FromSlash(dn)), []byte("derived-name bystander "+dn))
	}
	defer func() {
		for _, dn := range derived {
			os.Remove(filepath.Join(dir, filepath.FromSlash(dn)))
		}
	}()
	snapBefore, _ := sandbox.Take(dir)
	err := par2.Create(index, paths, par2.CreateOptions{SliceByteCount: s, NumParityShards: r, NumGoroutines: g})
	if err != nil {
		return nil, &createRefused{err}
	}
	snapAfter, _ := sandbox.Take(dir)
	os.Remove(filepath.Join(dir, "bystander.txt"))
	cr, del, chg, tch := sandbox.Diff(snapBefore, snapAfter)
	a := &arch{CreateCreated: sandbox.NonNil(cr), CreateChanged: sandbox.NonNil(dirsOut(snapAfter, append(append(del, chg...), tch...))),
		Names: names, Prot: prot, S: s, R: r, Index: base + ".par2", VolB: map[string][]byte{}, VolExps: map[string][]int{}, Others: map[string][]byte{}}
	a.IndexB, err = ioutil.ReadFile(index)
	if err != nil {
		return nil, err
	}
	ents, _ := ioutil.ReadDir(dir)
	for _, e := range ents {
		n := e.Name()
		if strings.HasPrefix(n, base+".") && strings.HasSuffix(n, ".par2") && n != base+".par2" { // what a reader discovers beside the index
			b, err := ioutil.ReadFile(filepath.Join(dir, n))
			if err != nil {
				return nil, err
			}
			a.VolFiles = append(a.VolFiles, n)
			a.VolB[n] = b
			pk, _ := refpar2.Tokenize(b)
			exps := []int{}
			for _, p := range pk {
				if p.Type == refpar2.TypeRecv && p.HashOK() {
					e, _, _ := refpar2.ParseRecv(p.Body)
					exps = append(exps, int(e))
				}
			}
			sort.Ints(exps)
			a.VolExps[n] = exps
		}
	}
	sort.Strings(a.VolFiles)
	// recovery-set order from the main packet of the index file
	pk, _ := refpar2.Tokenize(a.IndexB)
	idName := map[[16]byte]string{}
	for _, n := range names {
		idName[refpar2.FileID(prot[n], n)] = n
	}
	for _, p := range pk {
		if p.Type == refpar2.TypeMain {
			m, ok := refpar2.ParseMain(p.Body)
			if ok {
				a.Order = nil
				for _, id := range m.IDs {
					a.Order = append(a.Order, idName[id])
				}
			}
		}
	}
	return a, nil
}

// volByExps finds the volume file holding exactly the given exponents.
func (a *arch) volByExps(exps []int) string {
	for _, v := range a.VolFiles {
		if fmt.Sprint(a.VolExps[v]) == fmt.Sprint(exps) {
			return v
		}
	}
	return ""
}

// materialise writes a directory state: protected files (nil = absent), volume files present,
// index file, bystanders.
func (a *arch) materialise(dir string, disk map[string][]byte, vols []string) error {
	if err := sandbox.Fresh(dir); err != nil {
		return err
	}
	for _, n := range a.Names {
		p := filepath.Join(dir, filepath.FromSlash(n))
		if err := os.MkdirAll(filepath.Dir(p), 0755); err != nil {
			return err
		}
		if d, ok := disk[n]; ok && d != nil {
			if err := ioutil.WriteFile(p, d, 0644); err != nil {
				return err
			}
		}
	}
	if err := ioutil.WriteFile(filepath.Join(dir, a.Index), a.IndexB, 0644); err != nil {
		return err
	}
	for _, v := range vols {
		if err := ioutil.WriteFile(filepath.Join(dir, v), a.VolB[v], 0644); err != nil {
			return err
		}
	}
	for p, b := range a.Others {
		if _, isProt := a.Prot[p]; isProt {
			// harness invariant: a bystander must never be written over a protected file
			return fmt.Errorf("harness: bystander %q collides with a protected file", p)
		}
		if err := sandbox.WriteFile(filepath.Join(dir, filepath.FromSlash(p)), b); err != nil {
			return err
		}
	}
	return nil
}

// readDisk reads the current contents of the protected files (nil = absent).
func (a *arch) readDisk(dir string) map[string][]byte {
	out := map[string][]byte{}
	for _, n := range a.Names {
		b, err := ioutil.ReadFile(filepath.Join(dir, filepath.FromSlash(n)))
		if err != nil {
			out[n] = nil
			continue
		}
		if b == nil {
			b = []byte{}
		}
		out[n] = b
	}
	return out
}

// ---------------------------------------------------------------------------------------
// running the real operations and observing them
// ---------------------------------------------------------------------------------------

// recDelegate records the decoder's callbacks (the CLI's user-visible log): the order, the counters
// and the scan statistics are validated against the specification (conformance only: drift).
type recDelegate struct {
	par2.DoNothingDecoderDelegate
	mu     sync.Mutex
	Files  [][]int  // i, n, byteCount, hits, misses, err(0/1)
	Writes [][]int  // i, n, byteCount, err(0/1)
	WPaths []string // path of each write
	Parity []int    // i of each OnParityFileLoad
	Recv   []int    // exponents announced
}

func (r *recDelegate) OnDataFileLoad(i, n int, path string, byteCount, hits, misses int, err error) {
	r.mu.Lock()
	e := 0
	if err != nil {
		e = 1
	}
	r.Files = append(r.Files, []int{i, n, byteCount, hits, misses, e})
	r.mu.Unlock()
}

func (r *recDelegate) OnDataFileWrite(i, n int, path string, byteCount int, err error) {
	r.mu.Lock()
	e := 0
	if err != nil {
		e = 1
	}
	r.Writes = append(r.Writes, []int{i, n, byteCount, e})
	r.WPaths = append(r.WPaths, path)
	r.mu.Unlock()
}

func (r *recDelegate) OnParityFileLoad(i int, path string, err error) {
	r.mu.Lock()
	r.Parity = append(r.Parity, i)
	r.mu.Unlock()
}

func (r *recDelegate) OnRecoveryPacketLoad(exponent uint16, byteCount int) {
	r.mu.Lock()
	r.Recv = append(r.Recv, int(exponent))
	r.mu.Unlock()
}

func (r *recDelegate) json(dir string) map[string]interface{} {
	files, writes := r.Files, r.Writes
	if files == nil {
		files = [][]int{}
	}
	if writes == nil {
		writes = [][]int{}
	}
	wp := []string{}
	for _, p := range r.WPaths {
		wp = append(wp, filepath.ToSlash(relTo(dir, p)))
	}
	par, rec := r.Parity, r.Recv
	if par == nil {
		par = []int{}
	}
	if rec == nil {
		rec = []int{}
	}
	return map[string]interface{}{"files": files, "writes": writes, "wpaths": wp, "parity": par, "recv": rec}
}

// current delegate used by runVerify / runRepair (nil = none); set by drivers that want the log
var curDelegate *recDelegate

type verifyObs struct {
	Err       string `json:"err"`
	ErrText   string `json:"errtext"`
	Usable    int    `json:"usable"`
	Unusable  int    `json:"unusable"`
	PUsable   int    `json:"pusable"`
	PUnusable int    `json:"punusable"`
	Needed    bool   `json:"needed"`
	Possible  bool   `json:"possible"`
	Panic     string `json:"panic"`
}

type repairObs struct {
	Err      string   `json:"err"`
	ErrText  string   `json:"errtext"`
	Repaired []string `json:"repaired"` // relative to the archive directory
	Panic    string   `json:"panic"`
}

// opDiff is what changed in the directory during one operation.
type opDiff struct {
	Writes  []string // protected files written or rewritten (relative names)
	Outside []string // any other path created / deleted / changed / touched
}

func runVerify(index string, g int, viaHook bool, lio *logIO) (o verifyObs) {
	defer func() {
		if r := recover(); r != nil {
			o = verifyObs{Err: "panic", Panic: fmt.Sprint(r)}
		}
	}()
	var res par2.VerifyResult
	var err error
	vopts := par2.VerifyOptions{NumGoroutines: g}
	if curDelegate != nil {
		vopts.VerifyDelegate = curDelegate
	}
	if viaHook {
		res, err = par2.VerifVerify(lio, index, vopts)
	} else {
		res, err = par2.Verify(index, vopts)
	}
	o.Err = classifyPar2Err(err)
	o.ErrText = errStr(err)
	if err == nil {
		c := res.ShardCounts
		o.Usable, o.Unusable, o.PUsable, o.PUnusable = c.UsableDataShardCount, c.UnusableDataShardCount, c.UsableParityShardCount, c.UnusableParityShardCount
		o.Needed, o.Possible = c.RepairNeeded(), c.RepairPossible()
	}
	return o
}

func runRepair(index string, g int, dc bool, viaHook bool, lio *logIO) (o repairObs) {
	defer func() {
		if r := recover(); r != nil {
			o = repairObs{Err: "panic", Panic: fmt.Sprint(r), Repaired: []string{}}
		}
	}()
	var res par2.RepairResult
	var err error
	opts := par2.RepairOptions{DoubleCheck: dc, NumGoroutines: g}
	if curDelegate != nil {
		opts.RepairDelegate = curDelegate
	}
	if viaHook {
		res, err = par2.VerifRepair(lio, index, opts)
	} else {
		res, err = par2.Repair(index, opts)
	}
	o.Err = classifyPar2Err(err)
	o.ErrText = errStr(err)
	dir := filepath.Dir(index)
	o.Repaired = []string{}
	for _, p := range res.RepairedPaths {
		o.Repaired = append(o.Repaired, filepath.ToSlash(relTo(dir, p)))
	}
	return o
}

// diffOp classifies the snapshot difference (and, when available, the logged write calls)
// into writes to protected files and anything else.
func (a *arch) diffOp(dir string, before, after sandbox.Snapshot, lio *logIO) opDiff {
	created, deleted, changed, touched := sandbox.Diff(before, after)
	prot := map[string]bool{}
	for _, n := range a.Names {
		prot[n] = true
	}
	d := opDiff{Writes: []string{}, Outside: []string{}}
	seen := map[string]bool{}
	add := func(p string) {
		p = filepath.ToSlash(p)
		if prot[p] {
			if !seen[p] {
				seen[p] = true
				d.Writes = append(d.Writes, p)
			}
		} else {
			if !seen[p] {
				seen[p] = true
				d.Outside = append(d.Outside, p)
			}
		}
	}
	for _, l := range [][]string{created, deleted, changed, touched} {
		for _, p := range l {
			if e, ok := after[p]; ok && e.IsDir {
				if eb, ok2 := before[p]; ok2 && eb.IsDir {
					continue // directory mtime changes when a file in it is (re)created
				}
			}
			add(p)
		}
	}
	if lio != nil {
		for _, w := range lio.writes() {
			add(relTo(dir, w))
		}
	}
	sort.Strings(d.Writes)
	sort.Strings(d.Outside)
	return d
}

func bytesToInts(b []byte) []int {
	if b == nil {
		return []int{-1}
	}
	out := make([]int, len(b))
	for i, x := range b {
		out[i] = int(x)
	}
	return out
}

func intsToBytes(v []int) []byte {
	if len(v) == 1 && v[0] == -1 {
		return nil
	}
	out := make([]byte, len(v))
	for i, x := range v {
		out[i] = byte(x)
	}
	return out
}

func diskToJSON(d map[string][]byte) map[string][]int {
	out := map[string][]int{}
	for k, v := range d {
		out[k] = bytesToInts(v)
	}
	return out
}

func readJSONFile(path string, v interface{}) error {
	b, err := ioutil.ReadFile(path)
	if err != nil {
		return err
	}
	return json.Unmarshal(b, v)
}

var errBadInput = errors.New("bad input")

func hasKey(m map[string][]byte, k string) bool {
	_, ok := m[k]
	return ok
}

// optionalPacket returns a packet a PAR 2.0 reader need not interpret: each of the specification's optional types
// in several shapes (typical, empty arrays, all-zero bodies, zero sizes).  A reader that interprets such a packet
// must survive it and still see the same set; a reader that does not must ignore it.  k in 1..15; nil otherwise.
func optionalPacket(setID [16]byte, id0 [16]byte, name0 string, sliceSize int, k int) []byte {
	mk := func(name string) [16]byte {
		var t [16]byte
		copy(t[:], "PAR 2.0\x00"+name)
		return t
	}
	uniName := []byte{}
	for _, r := range name0 {
		uniName = append(uniName, byte(r), 0) // UTF-16LE of the same (ASCII) name
	}
	for (16+len(uniName))%4 != 0 {
		uniName = append(uniName, 0)
	}
	switch k {
	case 1:
		return refpar2.Frame(setID, mk("UniFileN"), append(append([]byte{}, id0[:]...), uniName...))
	case 2:
		return refpar2.Frame(setID, mk("CommASCI"), []byte("a comment.  "))
	case 3:
		return refpar2.Frame(setID, mk("CommUni\x00"), append(make([]byte, 16), 'c', 0, 'o', 0))
	case 4:
		return refpar2.Frame(setID, mk("FileSlic"), append(append([]byte{}, id0[:]...), 0, 0, 0, 0, 0, 0, 0, 0, 1, 2, 3, 4))
	case 5:
		return refpar2.Frame(setID, mk("RFSC\x00\x00\x00\x00"), append(append([]byte{}, id0[:]...), make([]byte, 20)...))
	case 6:
		return refpar2.Frame(setID, mk("PkdMain\x00"), make([]byte, 24))
	case 7:
		return refpar2.Frame(setID, mk("PkdRecvS"), make([]byte, 12))
	case 8:
		return refpar2.Frame(setID, mk("CommUni\x00"), make([]byte, 20)) // hash of the ASCII comment + an all-null comment
	case 9:
		return refpar2.Frame(setID, mk("CommUni\x00"), make([]byte, 16)) // empty comment array
	case 10:
		return refpar2.Frame(setID, mk("CommASCI"), []byte{0, 0, 0, 0})
	case 11:
		return refpar2.Frame(setID, mk("UniFileN"), append(append([]byte{}, id0[:]...), 0, 0, 0, 0))
	case 12: // packed main: subslice size 0, slice size of the set, no files
		b := make([]byte, 20)
		b[8] = byte(sliceSize)
		return refpar2.Frame(setID, mk("PkdMain\x00"), b)
	case 13: // packed main: subslice 4, slice size of the set, one file id
		b := make([]byte, 20)
		b[0], b[8], b[16] = 4, byte(sliceSize), 1
		return refpar2.Frame(setID, mk("PkdMain\x00"), append(b, id0[:]...))
	case 14:
		return refpar2.Frame(setID, mk("PkdRecvS"), make([]byte, 16))
	case 15:
		return refpar2.Frame(setID, mk("FileSlic"), append(append([]byte{}, id0[:]...), make([]byte, 8)...))
	}
	return nil
}
