package main

// p1encobj: EXTENSION X04 - the typestate of the exported par1.Encoder object.
//
// Drives the real par1.Encoder (public API, real directory) through every short and many seeded
// random sequences of {modify an input file, New, LoadFileData, ComputeParityData, Write} and
// records one event per step.  After each Write the set found on disk is projected onto the
// abstract state of spec/Par1EncoderObject.tla with the INDEPENDENT PAR1 reference reader/writer:
// which recorded version of the inputs the index volume's file list describes, which version's
// parity (reference parity over the independent GF(2^8)) the volume files hold, and how many
// volume files there are.  Nothing is decided here.

import (
	"bytes"
	"fmt"
	"io/ioutil"
	"math/rand"
	"os"
	"path/filepath"
	"sort"
	"strings"

	"github.com/akalin/gopar/par1"

	"verif/harness/refpar1"
	"verif/harness/sandbox"
	"verif/harness/tracelog"
)

func init() {
	register("p1encobj", "call sequences on the real par1.Encoder object (extension X04)", runP1EncObj)
}

type enc1NopDelegate struct{}

func (enc1NopDelegate) OnDataFileLoad(i, n int, path string, byteCount int, err error) {}
func (enc1NopDelegate) OnVolumeFileWrite(i, n int, path string, dataByteCount, byteCount int, err error) {
}

func runP1EncObj(args []string) error {
	c := newCommon("p1encobj")
	nrand := c.fs.Int("n", 150, "number of random traces")
	c.fs.Parse(args)
	lg, err := tracelog.Create(c.out)
	if err != nil {
		return err
	}
	defer lg.Close()
	rng := rand.New(rand.NewSource(c.seed*92821 + 5))
	const R = 2
	names := []string{"a.dat", "b.bin", "c"}
	dir := filepath.Join(c.dir, "p1encobj")

	type version struct {
		files map[string][]byte
		spec  []refpar1.FileSpec
		par   [][]byte
	}
	var versions []version // versions[v-1]
	var cur map[string][]byte
	snapshot := func() {
		cp := map[string][]byte{}
		var in []refpar1.FileSpec
		for _, n := range names {
			cp[n] = append([]byte{}, cur[n]...)
			in = append(in, refpar1.FileSpec{Name: n, Data: cp[n], Saved: true})
		}
		v := version{files: cp, spec: in}
		for e := 1; e <= R; e++ {
			v.par = append(v.par, refpar1.Parity(in, e))
		}
		versions = append(versions, v)
	}
	writeInputs := func() error {
		for _, n := range names {
			if err := sandbox.WriteFile(filepath.Join(dir, filepath.FromSlash(n)), cur[n]); err != nil {
				return err
			}
		}
		return nil
	}
	var enc *par1.Encoder
	blank := func(kind string) tracelog.M {
		return tracelog.M{"ev": kind, "out": "", "errtext": "", "desc_ver": -1, "par_ver": -1, "nvol": 0, "index_present": false,
			"inputs_unchanged": true, "outside": []string{}, "ver": len(versions)}
	}
	reset := func() error {
		if err := sandbox.Fresh(dir); err != nil {
			return err
		}
		versions = nil
		cur = map[string][]byte{}
		for i, n := range names {
			d := make([]byte, []int{21, 8, 3}[i]+rng.Intn(12))
			rng.Read(d)
			cur[n] = d
		}
		snapshot()
		enc = nil
		if err := writeInputs(); err != nil {
			return err
		}
		lg.Emit(blank("reset"))
		return nil
	}
	call := func(f func() error) (out, text string) {
		defer func() {
			if r := recover(); r != nil {
				out, text = "panic", fmt.Sprint(r)
			}
		}()
		if err := f(); err != nil {
			return "error", err.Error()
		}
		return "ok", ""
	}
	// projection of the directory onto the abstract archive state
	project := func(ev tracelog.M) {
		idx, err := ioutil.ReadFile(filepath.Join(dir, "out.par"))
		ev["index_present"] = err == nil
		var vols [][]byte
		ents, _ := ioutil.ReadDir(dir)
		for _, e := range ents {
			if strings.HasPrefix(e.Name(), "out.p") && e.Name() != "out.par" {
				b, _ := ioutil.ReadFile(filepath.Join(dir, e.Name()))
				vols = append(vols, b)
			}
		}
		ev["nvol"] = len(vols)
		if err != nil {
			return
		}
		// the index volume describes version v iff its file list is the reference file list of v
		// (names, lengths, both hashes, status) and its set hash is v's
		iv := refpar1.Tokenize(idx)
		for vi := len(versions) - 1; vi >= 0; vi-- {
			ref := refpar1.Tokenize(refpar1.BuildVolume(versions[vi].spec, 0, nil))
			ok := iv.OK && len(iv.Entries) == len(ref.Entries) && iv.Header.SetHash == ref.Header.SetHash && iv.Header.VolumeNumber == 0
			for k := 0; ok && k < len(ref.Entries); k++ {
				ok = iv.Entries[k].Name == ref.Entries[k].Name && iv.Entries[k].FileBytes == ref.Entries[k].FileBytes &&
					iv.Entries[k].Hash == ref.Entries[k].Hash && iv.Entries[k].Hash16k == ref.Entries[k].Hash16k && iv.Entries[k].Status == ref.Entries[k].Status
			}
			if ok {
				ev["desc_ver"] = vi + 1
				break
			}
		}
		if len(vols) == R {
			for vi := len(versions) - 1; vi >= 0; vi-- {
				ok := true
				for e := 1; e <= R; e++ {
					b, err := ioutil.ReadFile(filepath.Join(dir, fmt.Sprintf("out.p%02d", e)))
					if err != nil {
						ok = false
						break
					}
					pv := refpar1.Tokenize(b)
					ok = ok && pv.OK && pv.Header.VolumeNumber == uint64(e) && bytes.Equal(pv.Data, versions[vi].par[e-1])
				}
				if ok {
					ev["par_ver"] = vi + 1
					break
				}
			}
		}
	}
	step := func(kind string) {
		ev := blank(kind)
		before, _ := sandbox.Take(dir)
		switch kind {
		case "modify":
			n := names[rng.Intn(len(names))]
			d := append([]byte{}, cur[n]...)
			switch rng.Intn(3) {
			case 0:
				d = append(d, byte(rng.Intn(256)))
			case 1:
				d[rng.Intn(len(d))] ^= 1 << uint(rng.Intn(8))
			default:
				if len(d) > 1 {
					d = d[:len(d)-1]
				} else {
					d = append(d, 7)
				}
			}
			cur[n] = d
			// every version must be distinguishable from every earlier one BY ITS PARITY as well as by its
			// file list (the projection identifies versions by content; PAR1 parity is blind to trailing zeros)
			for dup := true; dup; {
				dup = false
				var in []refpar1.FileSpec
				for _, nn := range names {
					in = append(in, refpar1.FileSpec{Name: nn, Data: cur[nn], Saved: true})
				}
				for _, v := range versions {
					same := true
					for e := 1; e <= R; e++ {
						same = same && bytes.Equal(refpar1.Parity(in, e), v.par[e-1])
					}
					dup = dup || same
				}
				if dup {
					cur[n] = append(cur[n], byte(1+rng.Intn(255)))
				}
			}
			writeInputs()
			snapshot()
			ev["ver"] = len(versions)
			lg.Emit(ev)
			return
		case "new":
			var paths []string
			for _, n := range names {
				paths = append(paths, filepath.Join(dir, filepath.FromSlash(n)))
			}
			ev["out"], ev["errtext"] = call(func() error {
				e, err := par1.NewEncoder(enc1NopDelegate{}, paths, R)
				if err == nil {
					enc = e
				}
				return err
			})
		case "load":
			ev["out"], ev["errtext"] = call(func() error { return enc.LoadFileData() })
		case "compute":
			ev["out"], ev["errtext"] = call(func() error { return enc.ComputeParityData() })
		case "write":
			// a fresh output location for every Write: what is found afterwards is what this call wrote
			ents, _ := ioutil.ReadDir(dir)
			for _, e := range ents {
				if strings.HasPrefix(e.Name(), "out.") {
					os.Remove(filepath.Join(dir, e.Name()))
				}
			}
			before, _ = sandbox.Take(dir)
			ev["out"], ev["errtext"] = call(func() error { return enc.Write(filepath.Join(dir, "out.par")) })
			project(ev)
		}
		after, _ := sandbox.Take(dir)
		cr, del, chg, tch := sandbox.Diff(before, after)
		outside := []string{}
		for _, p := range cr {
			if !(kind == "write" && strings.HasPrefix(p, "out.")) {
				outside = append(outside, "created:"+p)
			}
		}
		for _, l := range [][]string{del, chg, tch} {
			for _, p := range l {
				if e, ok := after[p]; ok && e.IsDir {
					continue
				}
				outside = append(outside, "modified:"+p)
			}
		}
		sort.Strings(outside)
		ev["outside"] = outside
		unchanged := true
		for _, n := range names {
			b, err := ioutil.ReadFile(filepath.Join(dir, filepath.FromSlash(n)))
			if err != nil || !bytes.Equal(b, cur[n]) {
				unchanged = false
			}
		}
		ev["inputs_unchanged"] = unchanged
		lg.Emit(ev)
	}

	alphabet := []string{"modify", "load", "compute", "write"}
	var seqs [][]string
	var gen func(prefix []string, k int)
	gen = func(prefix []string, k int) {
		if len(prefix) > 0 {
			seqs = append(seqs, append([]string{}, prefix...))
		}
		if k == 0 {
			return
		}
		for _, a := range alphabet {
			gen(append(prefix, a), k-1)
		}
	}
	depth := 4
	if c.tier == "thorough" {
		depth = 5
	}
	gen(nil, depth)
	for _, seq := range seqs {
		if err := reset(); err != nil {
			return err
		}
		step("new")
		for _, a := range seq {
			step(a)
		}
	}
	for t := 0; t < *nrand; t++ {
		if err := reset(); err != nil {
			return err
		}
		step("new")
		for k := 0; k < 12; k++ {
			x := rng.Intn(100)
			switch {
			case x < 20:
				if len(versions) < 6 {
					step("modify")
				}
			case x < 25:
				step("new")
			case x < 50:
				step("load")
			case x < 75:
				step("compute")
			default:
				step("write")
			}
		}
	}
	return nil
}
