#!/bin/sh
# Run once after a fresh restore, offline: sanity-build the harness and parse the specifications.
# Every check rebuilds what it needs from /repo's working tree itself.
set -e
cd "$(dirname "$0")"
export GOFLAGS=-mod=mod GOPROXY=off GOSUMDB=off GOTOOLCHAIN=local
cp /repo/go.sum harness/go.sum
mkdir -p .work/setup
(cd harness && go build -tags verif -o ../.work/setup/vh ./cmd/vh)
rm -rf .work/setup
python3 tools/sany_all.py
echo setup ok
