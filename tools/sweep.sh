#!/bin/sh
# usage: [CHECKS="C01 C09"] tools/sweep.sh <tier> <seed>...   runs every registered check (or those in CHECKS) once per seed; prints one line per run
tier=$1; shift
for s in "$@"; do
  for c in ${CHECKS:-C01 C02 C03 C04 C05 C06 C07 C08 C09 C10 C11 C12 C13 C14 C15 C16 C17 C18 C19 C20}; do
    t0=$(date +%s)
    VERIF_SEED=$s ./check $c $tier > .sweep.$c.$s.out 2> .sweep.$c.$s.err; rc=$?
    t1=$(date +%s)
    echo "seed=$s $c rc=$rc wall=$((t1-t0))s $(grep -c VIOLATION .sweep.$c.$s.out) violations $(grep -c KNOWN-FINDING .sweep.$c.$s.out) known"
    if [ $rc -ne 0 ]; then tail -5 .sweep.$c.$s.err; fi
    rm -f .sweep.$c.$s.out .sweep.$c.$s.err
  done
done
