"""Binding self-tests: corrupt one recorded field of one event and require that the trace
specification rejects exactly that event.  Used with ./check <id> <tier> --selftest; the outcome
is written to the evidence file under coverage.binding_selftest."""
import copy, json


def _first(events, pred):
    for i, e in enumerate(events):
        try:
            if pred(e):
                return i
        except Exception:
            pass
    return None


def _mut(events, pred, fn):
    i = _first(events, pred)
    if i is None:
        return None
    ev = copy.deepcopy(events[max(0, i - 3): i + 4])     # a short window keeps the judge fast
    j = i - max(0, i - 3)
    fn(ev[j])
    return ev, j + 1



def _holder(e):
    """a failed Repair ('notenough') in which some file f holds the whole content of another file g whose own
    name does not: returns f, or None"""
    if e.get("ev") != "op" or e["op"] not in ("repair", "repairdc") or e["res"]["err"] != "notenough":
        return None
    for f in e["names"]:
        for g in e["names"]:
            if g != f and e["pre"][f] == e["prot"][g] and e["pre"][g] != e["prot"][g] and \
               not any(h not in (f, g) and e["pre"][h] == e["prot"][g] for h in e["names"]):
                return f
    return None


def _wipe_holder(e):
    f = _holder(e)
    e["post"][f] = e["prot"][f]        # f regains its original: the only copy of g's slices is gone
    e["res"]["repaired"] = [f]
    e["writes"] = [f]


# module -> list of (name, predicate selecting the event, corruption, clause that must reject it)
CORRUPTIONS = {
    "Trace_C08": [
        ("flip one product", lambda e: e["ev"] == "times" and e["a"] > 5, lambda e: e["r"].__setitem__(4, e["r"][4] ^ 1), "C08.times"),
        ("wrong inverse", lambda e: e["ev"] == "inv", lambda e: e["r"].__setitem__(0, e["r"][0] ^ 2), "C08.inverse"),
        ("wrong remainder", lambda e: e["ev"] == "pdiv" and len(e["d"]) > 1, lambda e: e["r"].append(63) if 63 not in e["r"] else e["r"].remove(63), "C08.poly_div"),
    ],
    "Trace_Archive": [
        ("one more usable slice than occurs", lambda e: e.get("ev") == "op" and e["op"] == "verify" and e["res"]["err"] == "" and e["res"]["unusable"] > 0 and e["obs"]["nocc"] == e["res"]["usable"],
         lambda e: e["res"].__setitem__("usable", e["res"]["usable"] + 1), "C03.usable_sound"),
        ("a bystander changed", lambda e: e.get("ev") == "op", lambda e: e.__setitem__("outside", ["notes.txt"]), "C02.nothing_else_changed"),
        ("success without restoration", lambda e: e.get("ev") == "op" and e["op"] != "verify" and e["res"]["err"] == "" and e["res"]["repaired"],
         lambda e: e["post"].__setitem__(e["res"]["repaired"][0], [9, 9]), "C01.ok_implies_restored"),
        ("a failed Repair restores a file that held the only copy of another file's slices", lambda e: _holder(e) is not None, _wipe_holder, "C14.failure_loses_no_slice"),
    ],
    "Trace_ArchiveBig": [
        ("restored flag off", lambda e: e["op"] in ("repair", "repairdc") and e["res"]["err"] == "", lambda e: e.__setitem__("restored", False), "C01.ok_implies_restored"),
        ("singular with the wrong columns", lambda e: e["res"]["err"] == "singular", lambda e: e.__setitem__("missing_sure", [e["missing_sure"][0], e["missing_sure"][1] - 1]), "C01.within_capacity"),
    ],
    "Trace_Par1": [
        ("count off by one", lambda e: e["op"] in ("verify", "verifyall") and e["res"]["err"] == "", lambda e: e["res"].__setitem__("usable", e["res"]["usable"] + 1), "C04.counts_are_truth"),
        ("second repair writes", lambda e: e["op"] in ("repair", "repairdc") and e["res"]["err"] == "", lambda e: e["after"]["repair"].__setitem__("writes", ["a"]), "C14.success_is_fixpoint"),
    ],
    "Trace_C05": [
        ("one recovery word", lambda e: True, lambda e: [p for f in e["files"] for p in f["packets"] if p["type"] == "recv"][0]["words"].__setitem__(0, 1 ^ [p for f in e["files"] for p in f["packets"] if p["type"] == "recv"][0]["words"][0]), "C05.recovery_data"),
        ("packet hash flag", lambda e: True, lambda e: e["files"][0]["packets"][1].__setitem__("hash_ok", False), "C05.framing"),
    ],
    "Trace_C06": [
        ("a block not found", lambda e: e["ev"] == "layout" and e["verify"]["err"] == "", lambda e: e["verify"].__setitem__("pusable", e["verify"]["pusable"] - 1), "C06.every_recovery_block_found"),
    ],
    "Trace_C07": [
        ("nil error but not restored", lambda e: e["err"] == "" and len(e["availd"]) < e["d"], lambda e: e.__setitem__("restored", False), "C07.nil_error_means_original"),
        ("one parity word", lambda e: e["haswords"] and len(e["pwords"][0]) > 0, lambda e: e["pwords"][0].__setitem__(0, e["pwords"][0][0] ^ 1), "C07.parity_is_specified_sum"),
    ],
    "Trace_C09": [
        ("one output word", lambda e: e["ev"] == "kern" and e["len"] >= 8, lambda e: e["out"].__setitem__(2, e["out"][2] ^ 0x100), "C09.every_word_is_field_product"),
        ("canary damaged", lambda e: e["ev"] == "kern", lambda e: e.__setitem__("canary_ok", False), "C09.canaries_intact"),
    ],
    "Trace_C10": [
        ("control hash", lambda e: e["ev"] == "p1set", lambda e: e["files"][1].__setitem__("control_stored", "00" * 16), "C10.writer.header"),
        ("parity byte", lambda e: e["ev"] == "p1set" and e["maxlen"] > 0, lambda e: e["files"][1]["datacols"].__setitem__(0, (e["files"][1]["datacols"][0] + 1) % 256), "C10.writer.parity_data"),
    ],
    "Trace_C11": [
        ("one entry of the inverse", lambda e: e["ev"] == "inv" and e["res"] == "ok" and e["n"] >= 3, lambda e: e["x"][1].__setitem__(1, e["x"][1][1] ^ 1), "C11.inverse_times_m_is_identity"),
        ("bogus kernel vector", lambda e: e["ev"] == "inv" and e["res"] == "singular" and e["n"] >= 2, lambda e: e.__setitem__("cert", [1] * e["n"]), "C11.error_only_if_singular"),
    ],
    "Trace_C12": [
        ("steps swapped within a worker", lambda e: e["ev"] == "sched" and len(e["steps"]) > 3,
         lambda e: e["steps"].__setitem__(0, [e["steps"][0][0], 1, 1, e["steps"][0][3], e["steps"][0][4]]), "C12.behaviour_of_spec"),
        ("overlapping range", lambda e: e["ev"] == "ranges" and len(e["ranges"]) > 1, lambda e: e["ranges"][1].__setitem__(0, e["ranges"][1][0] - 16), "C12.partition_is_spec"),
    ],
    "Trace_C13": [
        ("more blocks than intact", lambda e: e["fmt"] == "par2" and e["verify"]["err"] == "", lambda e: e["verify"].__setitem__("pusable", len(e["intact_exps"]) + 1), "C13.verify_result_truthful"),
        ("panic", lambda e: True, lambda e: e["repair"].__setitem__("err", "panic"), "C13.terminates_normally"),
    ],
    "Trace_C15": [("a path outside", lambda e: True, lambda e: e.__setitem__("outside", ["outer/x"]), "C15.nothing_touched_outside")],
    "Trace_C17": [("different bytes", lambda e: True, None, "C17.same_key_same_bytes")],
    "Trace_C18": [
        ("swallowed error", lambda e: e["k"] > 0 and e["k"] <= len(e["calls"]) and not e["pair"], lambda e: e["res"].__setitem__("err", False), "C18.failure_is_reported"),
        ("calls out of order", lambda e: e["k"] == 0 and "find" in e["calls"], lambda e: e["calls"].reverse(), "C18.call_log_is_step_language"),
    ],
    "Trace_C19": [("written file with the wrong hash", lambda e: True, lambda e: e.__setitem__("written", [{"name": "a.bin", "matches_declared": False}]), "C19.written_files_match_declared_hashes")],
    "Trace_C20": [("status 0 on damage", lambda e: e["c"]["cmd"] == "verify" and e["truth"]["needed"] and e["c"]["usage"] == "none" and e["truth"]["index_ok"],
                   lambda e: e.__setitem__("status", 0), "C20.zero_without_success")],
}


def run(ctx, module, events, judge_fn):
    """judge_fn(list of events) -> verdict list.  Returns a list of result records."""
    out = []
    for name, pred, fn, clause in CORRUPTIONS.get(module, []):
        if module == "Trace_C17":
            if len(events) < 2:
                continue
            ev = copy.deepcopy(events[:2])
            ev[1]["key"] = ev[0]["key"]
            ev[1]["digests"] = dict(ev[0]["digests"], **{"out.extra": "deadbeef:1"})
            idx = 2
        else:
            m = _mut(events, pred, fn)
            if m is None:
                out.append({"corruption": name, "module": module, "result": "no suitable event"})
                continue
            ev, idx = m
        vd = judge_fn(ev)
        hit = any(v.get("i") == idx and v.get("clause", "").startswith(clause) for v in vd)
        out.append({"corruption": name, "module": module, "expected_clause": clause, "rejected": hit})
    return out
