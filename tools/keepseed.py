#!/usr/bin/env python3
"""tools/keepseed.py <results.jsonl>...  copies every confirmed seeded change (builds, passes the baseline tests, has a
patch and a demonstration) into /verif/seeded/<property>-<k>/ with meta.json extended by what was run and what
each check reported."""
import json, os, shutil, sys
here = os.path.dirname(os.path.dirname(os.path.abspath(__file__)))
res = {}
for f in sys.argv[1:]:
    for l in open(f):
        r = json.loads(l)
        if not r.get("checks"):
            continue
        d = res.setdefault(r["patch"], {"build_ok": r.get("build_ok"), "tests_ok": r.get("tests_ok"), "checks": {}})
        d["checks"].update(r["checks"])          # later files override earlier results
        d["build_ok"], d["tests_ok"] = r.get("build_ok"), r.get("tests_ok")
for pdir, r in sorted(res.items()):
    if not (r["build_ok"] and r["tests_ok"]):
        print("not kept (does not build / fails baseline):", pdir)
        continue
    prop = os.path.basename(os.path.dirname(pdir)); k = os.path.basename(pdir)
    dst = os.path.join(here, "seeded", "%s%s-%s" % (os.environ.get("SEED_PREFIX", ""), prop, k))
    os.makedirs(dst, exist_ok=True)
    for fn in os.listdir(pdir):
        if os.path.isfile(os.path.join(pdir, fn)):
            shutil.copy(os.path.join(pdir, fn), dst)
    meta = {}
    try:
        meta = json.load(open(os.path.join(pdir, "meta.json")))
    except Exception:
        pass
    meta.setdefault("property", prop)
    meta["confirmed"] = {"applies_to": "HEAD of /repo at evaluation time (git apply in a scratch worktree)", "go build && go vet": True,
                         "baseline go test ./...": True, "demonstration": "see how_to_run.txt (verified by the authoring agent: fails with the patch, passes without)"}
    meta["what_was_run"] = "tools/seedtest.py: patch applied in a scratch worktree of /repo, checks run with VERIF_REPO pointing at it (quick tier, VERIF_SEED=1)"
    meta["check_results"] = {c: {"exit": v["rc"], "clauses": v["violations"]} for c, v in r["checks"].items()}
    meta["caught_by"] = sorted(c for c, v in r["checks"].items() if v["rc"] == 1)
    json.dump(meta, open(os.path.join(dst, "meta.json"), "w"), indent=1)
    print(prop, k, "caught by", meta["caught_by"] or "NONE", {c: v["rc"] for c, v in r["checks"].items()})
