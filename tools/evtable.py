#!/usr/bin/env python3
"""tools/evtable.py   prints one markdown row per evidence file: what the last run of each check covered"""
import json, glob, os
here = os.path.dirname(os.path.dirname(os.path.abspath(__file__)))
print("| id | tier | seed | TLC design-level states / transitions | events of the real code judged by TLC | known-finding events | wall s |")
print("|---|---|---|---|---|---|---|")
for f in sorted(glob.glob(os.path.join(here, "evidence", "*.json"))):
    e = json.load(open(f)); c = e.get("coverage", {})
    print("| %s | %s | %s | %s / %s | %s | %s | %s |" % (e.get("property_id"), e.get("tier"), e.get("seed"), c.get("states"), c.get("transitions"),
          c.get("events_judged_by_tlc"), c.get("known_finding_events"), int(e.get("wall_s", 0))))
