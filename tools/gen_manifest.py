#!/usr/bin/env python3
"""Generates /verif/MANIFEST.json from the table below (kept here so the manifest stays valid)."""
import json, os, subprocess
here = os.path.dirname(os.path.dirname(os.path.abspath(__file__)))

# property id -> (category, technique, text, note, design_ref)
CLAIMED = {
 "C08": ("model_checking",
         "TLA+ definitional field GF.tla: TLC exhausts the laws on small fields + generator walk; trace validation of recorded gf2p16/gf2 calls (all a x basis, inverses, Pow classes, polynomials) by TLC; 2^32 closure sweeps nominate to TLC",
         "TLC model-checks the parametric field specification (GF.tla, GF2Poly.tla) exhaustively on GF(4), GF(8), GF(16), GF(256) and small GF(2)[x] and walks the 65535-step generator cycle of GF(2^16)/0x1100B; the real gf2p16.T.Times/Div/Inverse/Pow and gf2.Poly64.Times/Div are bound to it by trace validation: >10^6 recorded products/quotients (every a with every basis element and boundary partners), every inverse, Pow at every exponent class up to 2^32-1 are judged by TLC with the same operators instantiated at W=16; bilinear-closure sweeps over all 2^32 pairs extend the judged basis products to every pair.",
         "Trusts TLC, the Bitwise/Json/Functions Java overrides, and that the Go closure sweep reports its mismatches (it only nominates; the products it relies on are judged by TLC).",
         "DESIGN.md section 5 C08"),
 "C01": ("model_checking",
         "TLA+ directory state machine Par2Archive.tla: TLC exhausts bounded instances (damage menu x volume subsets) checking C01 action properties with real GF(2^16) singularity; every emitted Repair transition replayed on real par2.Create/Repair; seeded large sets judged by TLC trace specs",
         "TLC model-checks the PAR2 directory state machine (Par2Archive.tla with Par2Scan, Par2Const, Matrix over GF(2^16)) on bounded instances and proves the algorithm layer satisfies 'within capacity => restored, or justified singular' on every transition; every Repair transition TLC explores is materialised on a real directory (archives from the real par2.Create, goroutines 1/2/3/8) and executed by the real par2.Repair, and each execution is judged by TLC from the logged bytes (Trace_Archive); seeded large sets (up to 128 KiB slices, hundreds of slices, R up to 300, goroutines up to 40, all damage kinds, any subset of volumes lost, a constructed singular case whose determinant TLC recomputes) are judged by Trace_ArchiveBig with ground truth from an observer that TLC cross-checks on every small event.",
         "Checksums idealised as injective; the large-set ground truth comes from the Go observer (cross-checked by TLC on all small events); scope is bounded/sampled, not a proof.",
         "DESIGN.md section 5 C01"),
 "C03": ("model_checking",
         "Par2Archive.tla/Par2Scan.tla: TLC checks Survivors <= usable <= Occurring etc. on every Verify transition of bounded instances; each Verify transition replayed on real par2.Verify and judged by TLC from logged bytes; large seeded sets judged with observer truth",
         "TLC checks the Verify truthfulness clauses (usable_sound, usable_complete, counts_total, recovery_count, possible_iff_capacity, clean_implies_intact) on every Verify transition of the bounded Par2Archive instances and on every replay of those transitions through the real par2.Verify (TLC recomputes Survivors/Occurring from the logged bytes), plus on seeded large sets; the small alphabet {0,1,2} makes TLC reach the 'all slices findable but files wrong' patterns by itself.",
         "Checksums idealised as injective; known finding D5 (clean although files differ when all slices findable) is reported as KNOWN-FINDING, any other violation of clean_implies_intact has its own clause.",
         "DESIGN.md section 5 C03"),
 "C02": ("model_checking",
         "Par2Archive.tla / Par1Archive.tla write-discipline action properties checked by TLC on every transition; every Verify/Repair transition replayed on a real directory with bystander files, whole-tree snapshots + hooked write-call log; TLC trace specs judge each execution",
         "TLC checks C02_WriteDiscipline / C02_VolumesUntouched / C02_ListedMeansWritten as action properties on every transition of the bounded PAR2 and PAR1 directory state machines (all damage states including beyond capacity, all volume subsets, double-check on and off); each Verify/Repair transition is then executed by the real code on a real directory containing unrelated files and a sub-directory, with a recursive snapshot (bytes, inode, mtime, mode) before and after and the write calls logged through the build-tagged file-system hook; TLC judges every execution (and every Create of the seeded large sets) with the clauses write_discipline, listed_means_written, nothing_else_changed, verify_modifies_nothing, create_touches_only_archive.",
         "Snapshot granularity (a same-bytes rewrite within one timestamp tick is only seen on the hooked half of the runs); damaged/foreign recovery files are exercised under C13/C19.",
         "DESIGN.md section 5 C02"),
 "C04": ("model_checking",
         "Par1Archive.tla (GF(2^8)/0x11D, files as shards): TLC exhausts bounded instances; every Verify/Repair transition replayed on real par1.Create/Verify/Repair; seeded sets up to 40 files / 99 volumes incl. a constructed singular case whose determinant TLC recomputes",
         "TLC model-checks the PAR1 directory state machine on bounded instances (every damage state x every subset of volumes; empty files next to non-empty ones; duplicate contents) proving counts = truth, untouched => clean with full parity check, within capacity => restored or justified singular; every Verify/Repair transition is replayed on archives written by the real par1.Create and judged by TLC (Trace_Par1); seeded larger sets (Unicode names with surrogate pairs, sizes around 16 KiB and up to 70 KiB, up to 99 volumes, loss patterns none/at capacity/over capacity/all volumes) are judged the same way, 'singular' being accepted only when TLC's determinant over GF(2^8) is zero.",
         "MD5 idealised as injective; bounded/sampled scope; klauspost/reedsolomon is part of the implementation under test, not of the oracle.",
         "DESIGN.md section 5 C04"),
 "C14": ("model_checking",
         "TLC explores the damage/restore/volume/Verify/Repair graph of Par2Archive and Par1Archive to closure (action properties C14_*); every Verify/Repair edge of the closed graph replayed on the real code with follow-up Verify + hooked second Repair",
         "The reachable graph of the bounded PAR2 and PAR1 directory state machines is explored to closure by TLC (every history over damage, restore, delete/restore volume, Verify, Repair, Repair with double-check ends in one of its states) with the action properties success_is_fixpoint, failure_keeps_or_restores, verify_pure; because no state survives between gopar calls except the directory, replaying every Verify/Repair edge from its materialised source state on the real code covers every finite history: each successful real Repair is followed by a real Verify (must be clean) and a second real Repair whose write calls are logged through the hook (must write nothing); failed repairs must leave every file as it was or restored.",
         "Closed damage menu (bounded variants per file); PAR2 and PAR1; liveness (convergence as volumes arrive) follows from fixpoint + within-capacity clauses rather than being checked as a temporal formula.",
         "DESIGN.md section 5 C14"),
 "C12": ("model_checking",
         "Parallel.tla worker-pool model: TLC explores all interleavings (Static, RaceFree, Result, OverwriteFirst, <>joined) and the partition for every (len<=512,g<=40); every interleaving of the small graphs forced on the real goroutines through a gate hook with bytes compared after each step; recorded step sequences validated as behaviours of the spec; race-detector grid",
         "TLC exhausts every interleaving of the worker-pool specification (one step per kernel call, barrier) for several shapes and proves race freedom of the model, completeness of the result at the barrier and termination under fairness, and the static partition properties for every even length up to 512 and every goroutine count up to 40. The spec is bound to rsec16.applyMatrixParallelData three ways: every maximal path (all 34,650 interleavings of 3 workers x 4 calls, all of the smaller shapes, seeded random maximal paths of the larger ones) is forced on the real goroutines with a blocking hook before each kernel call, the output bytes compared with an independent reference after every step, and the recorded call sequence validated by TLC as a behaviour of the spec; the partition ranges the real code uses on a (len, g) grid are validated against the spec; the ungated grid runs under the Go race detector with several GOMAXPROCS; par2.Create/Repair are compared byte-for-byte across goroutine options.",
         "A kernel call is treated as atomic (justified by disjoint ranges and checked by the race detector on the real code); schedules beyond the small shapes are sampled.",
         "DESIGN.md section 5 C12"),
 "C16": ("model_checking",
         "ScanP.tla/Par2Scan.tla: TLC enumerates every small original x every insertion/deletion and checks Survivors<=Found<=Occurring; each case executed on real par2.Verify/Repair with exactly as many recovery blocks as non-surviving slices; random-content grid over slice sizes/offsets judged with observer truth",
         "TLC checks the scan specification (truth layer Survivors/Occurring versus the transcribed greedy scan) on every original file over {0,1} of the configured lengths and every insertion and deletion (every position, lengths 1..6), then each of those cases is executed on the real par2.Verify - usable count between TLC's own bounds and equal to the model's greedy count - and on the real par2.Repair with exactly as many recovery blocks as slices that do not survive; a second driver covers slice sizes 4..2000, every residue of the file length modulo the slice size, edit positions across the file, edit lengths up to S+3 and content moved to another protected name on random content.",
         "Checksums idealised as injective; on random content Survivors equals the slices the edit does not overlap.",
         "DESIGN.md section 5 C16"),
 "C07": ("model_checking",
         "RSCoder.tla (transcribed ReconstructData over Matrix.tla and real GF(2^16)): TLC checks every availability pattern for small (d,p), both coders; each pattern replayed on real rsec16; seeded large codes; every 'singular' decided by TLC's own determinant from the spec's entries",
         "TLC runs the transcription of rsec16's ReconstructData (row choice, augmentation, row reduction) for every availability pattern of every small code with unit-vector data over the real GF(2^16) and checks nil=>original, too-few<=>typed error, Cauchy always / MDS, Vandermonde iff the lowest-rows system is non-singular, and the specification's facts about its constants; every pattern is then replayed on the real NewCoderCauchy / NewCoderPAR2Vandermonde / GenerateParity / ReconstructData with random data at several shard lengths and goroutine counts (for tiny shards TLC also recomputes every parity word from the definitions); seeded codes up to (3000,64) and (300,300) with erasure sets around the capability, non-contiguous parity rows and the format's singular combinations found by search are judged with TLC recomputing each determinant.",
         "restored / supplied-unchanged are byte comparisons by the harness; seeded codes keep k <= 48 missing shards.",
         "DESIGN.md section 5 C07"),
 "C11": ("model_checking",
         "Matrix.tla: TLC pushes EVERY matrix over GF(2)/GF(4)/GF(8)/GF(16) through the transcribed rowReduceForInverse (error <=> Det=0 <=> kernel vector, result*M=I, [M|N]->M^-1N); real gf2p16.Matrix calls on structured matrices up to 150 (300) judged by TLC with full products / Freivalds probes / verified kernel-vector certificates",
         "The step-by-step TLA+ transcription of rowReduceForInverse is model-checked on every n x n matrix over tiny fields (every pivot position, swap pattern and late singularity) against the truth layer (determinant, kernel vectors, products); the same Matrix module instantiated at GF(2^16) judges recorded calls of the real Inverse / RowReduceForInverse / Times on random, Vandermonde, Cauchy, permutation, triangular, swap-at-every-pivot, rank-deficient (first/middle/last pivot) and low-rank matrices: a result is accepted only if TLC's own product gives the identity (full for n<=40, Freivalds above), an error only with a kernel vector TLC verifies, and for n<=12 the result must equal the transcribed algorithm's.",
         "Freivalds probes above n=40 (error 2^-48); certificates are untrusted inputs verified by TLC.",
         "DESIGN.md section 5 C11"),
 "C09": ("model_checking",
         "Kernels.tla decomposition model checked by TLC for all lengths/paths; real kernels on all dispatch paths driven through the build-tagged hook with guard-paged, canary-bracketed buffers; every output word judged by TLC against GF!Mul; fault/canary flags observed; constant x word closure sweep",
         "TLC checks that the dispatch/decomposition model (portable loop, scalar assembly with its word count, SSSE3 blocks + scalar tail) tiles every buffer exactly for all even lengths up to 512 and around 2^16/2^17; the real kernels are then driven on every path - portable Go in byte and word form, scalar assembly, SSSE3 assembly, and the exported functions with the dispatch flag forced both ways - for mul and muladd, every even length 0..320 and lengths around 64 KiB and 128 KiB, seeded source/destination offsets, constants including 0, 1, 2, 3, 0x8000, 0xFFFF, on mmapped buffers that end or start flush against inaccessible pages with canaries; TLC judges every output word with the definitional field product and asserts the observed no-fault, canary-intact and input-unchanged flags; a sweep over constants x all 65536 word values per path nominates any mismatch to TLC.",
         "Memory safety is observed by instrumentation (guard pages, canaries), not derived by the model; windows + T.Times comparison for buffers over 4 KiB; only amd64 with SSSE3 can drive all three paths.",
         "DESIGN.md section 5 C09"),
 "C05": ("model_checking",
         "Par2Format.tla truth layer over a record view from an independent tokenizer: TLC judges every file the real par2.Create writes (framing, hashes, set id, file ids and LE order, checksums, exponents exactly once, recovery words = sum slice_i*Const(i)^e with Const defined from the exclusion rule); TLC enumerates the small shapes and checks layout/constants",
         "The PAR2 format is specified in TLA+ (Par2Format.tla over GF.tla and Par2Const.tla, where the constants are defined from the specification's exclusion rule and checked to be 32768 distinct elements of order 65535). TLC checks the volume layout for every R and enumerates small input shapes; every shape and a seeded family of large sets (sizes around the slice size and around 16384, slice sizes 4..128 KiB, up to hundreds of recovery blocks in several volume files, thousands to 32768 slices, goroutines 1..40) go through the real par2.Create; an independent tokenizer (written from the PAR 2.0 specification, importing nothing from gopar) turns every written file into records and TLC decides framing, packet MD5s, set id, file ids and their little-endian order, file/16k hashes, per-slice MD5/CRC32, creator packets, 'blocks 0..n-1 exactly once' and the recovery data itself (every word for small sets, seeded word columns of every block for large ones).",
         "MD5/CRC32 computed by Go's standard library inside the observer; sampled word columns for large sets.",
         "DESIGN.md section 5 C05"),
 "C06": ("model_checking",
         "Par2Reader.tla reader model: TLC checks layout invariance over 60,480 layouts (packet order/duplication/foreign+unknown packets x exponent schemes x distributions x volume styles x file-name classes); each layout written by a reference writer (itself judged by Par2Format) and run through real par2.Verify/Repair; results compared with gopar's canonical output by TLC",
         "TLC checks on the reader specification (readFile as an order-insensitive fold, literal prefix/suffix discovery, union by exponent) that every layout of the class opens identically and yields exactly the recovery blocks stored beside the index; every layout (a seeded 4000 in the quick tier, all 60,480 in the thorough tier) is materialised by an independent reference writer whose bytes TLC first judges with Par2Format, then the real par2.Verify and par2.Repair run on it with two fixed damages and relative/absolute index paths, and TLC requires the same verify counts, every recovery block found, the same repair outcome and restored bytes as for gopar's own canonical output of the same data and damage.",
         "Small fixed data set (2 files / 3 slices); names restricted to ASCII; reference writer validated by the format specification rather than trusted.",
         "DESIGN.md section 5 C06"),
 "C10": ("model_checking",
         "Par1Format.tla truth layer over an independent PAR1 tokenizer judges what real par1.Create writes (header, control/set hash, UTF-16LE entries, parity = sum i^(v-1)*file_i over GF(2^8)/0x11D); TLC enumerates reader-direction layouts (non-saved entries at every position, comments, surrogate names) materialised by a reference writer and read by real par1.Verify/Repair",
         "Writer direction: every file the real par1.Create writes for seeded sets is tokenized by an observer written from the PAR 1.0 specification and TLC (Par1Format.tla over GF(2^8)/0x11D) decides header fields, offsets and sizes, control hash, set hash, UTF-16LE entries and the parity data. Reader direction: TLC enumerates 2,752 cases = index layouts (1-3 saved entries with 0-2 entries not saved at every position, with/without comment, names with surrogate pairs) x damaged subsets x surviving volumes and checks that capacity alone decides; each is written by the reference writer (whose output Par1Format judges first) and read by the real par1.Verify and par1.Repair, TLC requiring counts over saved entries only, exact restoration within capacity and the typed too-few error otherwise.",
         "Small files in the reader direction; reference writer validated by the format specification.",
         "DESIGN.md section 5 C10"),
 "C20": ("model_checking",
         "Cli.tla: admissible exit statuses as a function of request and ground truth; TLC enumerates all 668 (format, command spelling, archive state, cwd, path spelling, usage class) combinations and checks the table's sanity; each is run with the built par binary on a constructed directory and TLC judges status, post-state and crash flag",
         "The exit-status contract is a TLA+ function (Cli!Admissible, Cli!PostOK) over what was asked and what is really on disk; TLC enumerates every combination of format, command spelling, archive state, invocation directory, path spelling and usage-error class (668 cases), checks that 0 is admissible only for full success and usage errors give exactly 3, and emits the cases; each is executed with the par binary built from the working tree (-tags verif) in a freshly constructed directory whose ground truth (repair needed / possible / index intact) is derived from the bytes by the harness, and TLC judges the exit status, the post-state (repair 0 => every file intact; create 0 => a set that verifies clean; verify/usage change nothing) and the crash flag.",
         "Reading of 'another non-zero status' as not in {0,1,2,3}; one fixed data set per format.",
         "DESIGN.md section 5 C20"),
 "C17": ("model_checking",
         "TLC enumerates the variation space of Create (input order, goroutines, cwd, path spelling, library/CLI, kernel path, repetition); each configuration executed on the real code; a stateful TLA+ trace specification states the 2-safety property (same key => same bytes) over all recorded executions",
         "The variation space is a TLA+ model (1,260 configurations in the quick tier, 3,330 in the thorough tier) whose Key operator names exactly the parameters the output may depend on; every configuration is executed through the library or the built par binary in a fresh directory, and the trace specification - which carries state: the first output seen per key - rejects any execution whose written files differ from an earlier one with the same key, any failing Create, and any write outside the set.",
         "Three file sets per format; digests stand for bytes.",
         "DESIGN.md section 5 C17"),
 "C15": ("model_checking",
         "PathSafety.tla (lexical Clean/Contained + gopar's two acceptance rules): TLC proves rule => containment for all 2,340 names of the bounded alphabet; every name x position written by reference writers into a repairable archive inside a canary tree; real Verify/Repair/Create; whole-tree snapshot judged by TLC",
         "TLC checks for every name over the component alphabet (parent, self, empty, dot-prefixed and ordinary components; leading/trailing separators) that the PAR2 and PAR1 acceptance rules imply lexical containment; each of those names is then placed at a position of an otherwise valid, fully repairable PAR2 and PAR1 archive written by the reference writers, with the declared files missing, inside a canary tree with decoys where an escaping name would land; the real Verify and Repair run, the whole tree is snapshotted before and after, and TLC asserts that nothing outside the archive's directory tree (PAR1: the directory itself) was created, modified or deleted; PAR2 Create is checked to refuse inputs outside the index file's tree and to write nothing when it refuses.",
         "Lexical containment only (no symlinks); bounded name length/alphabet.",
         "DESIGN.md section 5 C15"),
 "C13": ("model_checking",
         "MC_C13.tla: TLC enumerates structural corruption / truncation / interrupted-Create descriptors and checks result truthfulness on the reader model; each descriptor (plus PAR1 analogue and byte-level fuzz) mapped to bytes by the independent tokenizer and run through real Verify/Repair in crash-containing batch worker processes; TLC judges termination, truthfulness, write discipline",
         "The corruption space is a TLA+ model: 1,658 descriptors for PAR2 (bit flips per packet region, cuts at and inside every packet, emptied/garbage/deleted files, deleted subsets, every prefix of Create's writes torn at every packet boundary, with/without data damage) on which TLC checks that the reader model only ever reports intact blocks and needs an intact index; the harness maps every descriptor to byte offsets with its own tokenizer, adds the PAR1 analogue and seeded byte-level flips and cuts (about 2,850 cases quick, 13,000 thorough), and executes the real Verify and Repair in batch worker processes that announce each case, so that a panic, a fatal runtime error, the address-space limit or a hang is attributed to its case and re-run alone; TLC judges every event: terminated normally, any result reports no more usable recovery blocks / volumes / slices than independent observers find intact, Repair wrote only exact originals, success means restored.",
         "Error-versus-skip on damaged files left open as in the property; one base set per format.",
         "DESIGN.md section 5 C13"),
 "C19": ("model_checking",
         "MC_C19.tla: TLC enumerates the field x boundary-value / structural mutation space for PAR1 and PAR2 and classifies semantic validity; mutating reference writers re-checksum consistently; singles and seeded pairs run through real Verify/Repair in batch worker processes under an address-space limit; TLC judges crash, memory, declared-hash and validity clauses",
         "The input space is a TLA+ model (343 single mutations: numeric fields x boundary values, removal/duplication of packet types, id list edits, wrong hashes, wrong-size recovery data, x index/volumes/all) with a truth-layer classification of which mutants still describe a valid set; the reference writers apply each mutation and re-checksum everything consistently so that only semantic validation can reject it; singles with data intact / the mutated file missing, plus seeded pairs, run through the real Verify and Repair in batch worker processes (each case announced, RLIMIT_AS 3 GiB, per-case time limit, solo re-run of a case that kills its worker); TLC judges every event: no panic / fatal error / hang, RSS growth within base + 64 x (bytes present + declared slice size), every file written matches the archive's own declared MD5 and length, nothing else modified, valid mutants verify clean and repair.",
         "Memory measured by RSS growth per case; OOM within the allowance of a huge declared slice size is not counted; pairs are sampled.",
         "DESIGN.md section 5 C19"),
 "C18": ("model_checking",
         "IOFaults.tla step-language model of Create/Verify/Repair with fault actions checked by TLC; injecting file system through the build-tagged hook fails every I/O call index x kind (and pairs) on real directories; TLC validates each recorded call log against the step language and judges the four clauses",
         "Each operation is specified as a sequence of I/O calls with fault actions (error without effect; write error after a partial write) and TLC checks for every shape and fault that the failure is reported, that exactly the writes before it completed and that only a failing write can tear a file. The real par1/par2 Create, Verify and Repair are driven through the exported hook with a file system that fails exactly one call: every call index of the fault-free run, both kinds for writes, on several archive states per format, plus seeded pairs (fault, faulted rerun, clean rerun). TLC validates every recorded call log as the operation's step language cut at the fault (the binding) and judges: error returned, failed write not listed as repaired, nothing but the path being written or completed exact writes changed, clean rerun equals the fault-free run whenever the torn file leaves the damage within capacity.",
         "EIO as the injected error; shapes' counts measured on the fault-free run of the same state.",
         "DESIGN.md section 5 C18"),
}

# dimensions added after the seeded-change rounds 3 and 4 (appended to the level text)
ADDED = {
 "C18": " Index file cut at a packet boundary (states short-index..).",
 "C16": " A second file edited in the same state (insertion inside its last full slice). Forged CRC-32 values: the first survivor behind the edit has CRC-32 0; two slices share one CRC-32. Small-scope instance i5 (three files, contents rotated among the names, one slice corrupted, one recovery block) replayed edge by edge.",
 "C12": " Wide codes (32, 64, 256 data shards) over 16-100 byte shards with 300 (3000) free-running repetitions per goroutine count. Lengths of a few whole 64 KiB blocks plus a remainder; goroutine counts 4, 6, 7.",
 "C06": " All optional PAR2 packet types in 15 shapes; sets with non-recovery-set files. A second creator packet with different text in one file.",
 "C01": " Big sets also vary the index base name, use literal odd protected names (backslash, glob and shell characters, spaces), protected siblings and bystanders with temporary-file / backup suffixes, duplicated volumes and a copy of the index. Create refusing a legitimate set is a judged event (create_accepts_legitimate_set); files of exactly 1 and 2 MiB; case twins deleted in both orders; set-lookalike and temp-suffix protected names. Dot-named components below the top level; files that lost only some of the zero bytes their last slice ends in. Forged CRC-32 values (two different slices with one CRC-32; a slice with CRC-32 0). Small-scope instance i5 (three files, contents rotated among the names, one slice corrupted, one recovery block) replayed edge by edge.",
 "C02": " Bystanders with names derived from the names Create / Repair read and write (.tmp, ~, .bak) are present around every Create and Repair of the big sets. Stale recovery volumes of the same set id with every file lost (several files rewritten in one Repair). Small-scope instance i5 (three files, contents rotated among the names, one slice corrupted, one recovery block) replayed edge by edge.",
 "C03": " Big sets include volumes copied under another name (distinct-block count), literal odd names and several index base names. Files of exactly 1 and 2 MiB with a slice size that does not divide them; 256 / 512 identical slices. Small-scope instance i5 (three files, contents rotated among the names, one slice corrupted, one recovery block) replayed edge by edge.",
 "C04": " Big sets vary the index base name and include protected siblings with temporary-file / backup suffixes. Create refusing a legitimate set (e.g. 200 files + 56 volumes) is a judged event. PAR1 files of 1.2 and 2 MiB with a gap in the volume numbers.",
 "C05": " A reduced list of sets with large coding matrices is recorded again in processes started with other GOMAXPROCS values. Inputs named like files of the set being written; constant, periodic and all-zero contents; hundreds of recovery blocks. A 6 MB set with slice size 40000.",
 "C07": " Erasure patterns whose elimination needs overlapping row exchanges are found by simulating the elimination with the independent field; 2 MiB shards; the seeded codes are run again under GOMAXPROCS=3. Every fifth round with a spare parity shard puts garbage into that spare (only 'nil error means originals' and 'supplied shards untouched' are judged there); a supplied shard removed from the caller's slice counts as altered; every small pattern is visited again after other codes were used (process-wide caches).",
 "C08": " A reduced list (table ends, chunk boundaries, all inverses) is recorded again in processes started with other GOMAXPROCS values. Every base with 33 large exponents (nominated Pow sweep).",
 "C09": " Buffers of 2 MiB and more (>= 65536 SIMD blocks); a reduced list (top constants, chunk boundaries) is recorded again under other GOMAXPROCS values. Touching buffers (consecutive halves of one allocation, both orders) and multiplication in place (in and out the same slice).",
 "C10": " Reference-written layouts include entries named like another entry plus a temporary-file / backup suffix. Long, mostly non-saved file lists (255, 256, 257, 300 entries); seven comment shapes; parity columns around every 64 KiB multiple.",
 "C11": " Dimensions 257 and 300 in the quick tier; small matrices whose elimination factors are the table's top constants are recorded again under other GOMAXPROCS values. RowReduceForInverse with the right-hand side (N_L | I) the coder passes.",
 "C13": " The goroutine count varies with the case; data state 'all protected files gone' within capacity. Data state 'zerotail': a data file lost some of the zero bytes its last slice ends in. Length fields that swallow the next packet; sixteen bytes of packet magic plus an extreme length inside packet bodies; a returned result must count every intact recovery block.",
 "C14": " Convergence includes the within-capacity clauses (once the recovery files present suffice, Repair succeeds). Zero-tail scenario (slices all in place, file too short). Instance i5 (three files, one recovery block, contents rotated among the names with one slice corrupted) with the clause that a Repair giving up for lack of recovery blocks loses no slice present anywhere before (C14_FailureLosesNoSlice, P_C14d).",
 "C15": " Create refusal cases include siblings whose names merely start with the archive directory's name; names include the compound component x/.. Every refusal case again over the complete output of an earlier, larger Create under the same index name.",
 "C17": " Dimensions: five input orders, goroutine counts incl. 3, default slice size, and 'prior' (the directory already holds longer files under the names Create writes). An input that is a symbolic link to another input; prior 'staleother' (output of an earlier Create over inputs differing only beyond the first 16 KiB). Goroutine count 2 in the quick tier. The first input listed a second time (set 5), in every spelling.",
 "C19": " PAR1 sets of 255, 256, 257 and 300 entries. Two related fields extreme at once: full cross product for seven field pairs (enumerated by the model); optional packets and non-recovery-set files as valid structural mutations. Count and exponent mutants again in a PAR2 world with slice size 4096. A volume without main packet combined with every recovery-packet mutation.",
 "C20": " Two index base names; archive state 'appended'; a share of the cases runs with GOMAXPROCS=1 and 3. Create with a single operand in four spellings (usage error 3).",
}

NOT_YET = "check under construction in this round; not claimed until it runs green on the unchanged tree"

def main():
    props = [json.loads(l) for l in open(os.path.join(here, "properties.jsonl"))]
    hooks_commits = subprocess.run(["git", "-C", "/repo", "log", "--format=%H %s"], stdout=subprocess.PIPE).stdout.decode().splitlines()
    hook_commits = [l.split()[0] for l in hooks_commits if "verif hook" in l]
    m = {
        "version": 1,
        "setup_cmd": "./setup.sh",
        "hooks": {
            "guard": "verif",
            "enable": "go build -tags verif (harness module with replace github.com/akalin/gopar => /repo; GOFLAGS=-mod=mod GOPROXY=off GOSUMDB=off GOTOOLCHAIN=local)",
            "baseline_off_cmd": "cd /repo && GOFLAGS=-mod=mod GOPROXY=off GOSUMDB=off GOTOOLCHAIN=local go test -vet=off -count=1 -timeout 25m ./...",
            "source_commits": hook_commits,
            "add_only": True,
        },
        "engines": [
            {"name": "tlc", "path": "/opt/veriftools/tla/tla2tools.jar", "serves_properties": sorted(CLAIMED.keys()),
             "kind_free_text": "TLC 1.8.0 explicit-state model checker: design-level model checking of spec/*.tla and trace validation (spec/Trace_*.tla) of executions recorded from the real code"},
            {"name": "vh", "path": "/verif/harness/cmd/vh", "serves_properties": sorted(CLAIMED.keys()),
             "kind_free_text": "Go harness built against /repo with -tags verif: drivers, independent observers/reference writers, replayers of TLC-generated cases; emits ndjson events; never decides"},
        ],
        "checks": [],
        "notes": "Every verdict is produced by TLC evaluating the TLA+ specification under /verif/spec (DESIGN.md section 1). ./check <id> quick|thorough; exit 2 = inconclusive. Known findings: /verif/known_findings.json.",
        "not_applicable": [],
    }
    for p in props:
        pid = p["id"]
        if pid in CLAIMED:
            cat, tech, text, note, ref = CLAIMED[pid]
            m["checks"].append({
                "property_id": pid,
                "quick_cmd": "./check %s quick" % pid,
                "thorough_cmd": "./check %s thorough" % pid,
                "evidence_file": "/verif/evidence/%s.json" % pid,
                "replay_cmd_template": "./check %s --replay {path}" % pid,
                "engine": "tlc",
                "level_claimed": {"category": cat, "text": text + ADDED.get(pid, ""), "design_ref": ref},
                "level_note": note,
                "technique": tech,
            })
        else:
            m["not_applicable"].append({"property_id": pid, "reason": NOT_YET})
    with open(os.path.join(here, "MANIFEST.json"), "w") as f:
        json.dump(m, f, indent=1)
    print("MANIFEST.json: %d checks, %d not_applicable" % (len(m["checks"]), len(m["not_applicable"])))

if __name__ == "__main__":
    main()
