#!/usr/bin/env python3
"""tools/seedbatch.py <out.jsonl> <pdir:check[,check]>...   evaluates seeded changes in parallel on scratch worktrees /tmp/wt/eval1..4"""
import json, os, subprocess, sys, threading, queue
here = os.path.dirname(os.path.dirname(os.path.abspath(__file__)))
out = sys.argv[1]
q = queue.Queue()
for a in sys.argv[2:]:
    pdir, checks = a.split(":")
    q.put((pdir, checks.split(",")))
lock = threading.Lock()
def worker(wt):
    while True:
        try:
            pdir, checks = q.get_nowait()
        except queue.Empty:
            return
        p = subprocess.run([sys.executable, os.path.join(here, "tools", "seedtest.py"), pdir, wt] + checks, stdout=subprocess.PIPE, stderr=subprocess.PIPE)
        line = p.stdout.decode().strip().splitlines()[-1] if p.stdout.strip() else json.dumps({"patch": pdir, "error": p.stderr.decode()[-400:]})
        with lock:
            with open(out, "a") as f:
                f.write(line + "\n")
            print(line, flush=True)
ths = [threading.Thread(target=worker, args=("/tmp/wt/eval%d" % i,)) for i in (1, 2, 3, 4)]
for t in ths: t.start()
for t in ths: t.join()
