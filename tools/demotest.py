#!/usr/bin/env python3
"""tools/demotest.py <seeded dir> <scratch worktree>: runs the demonstration of a seeded change with the patch
(must fail) and without it (must pass), following how_to_run.txt (cp demo_test.go <pkg>/...; go test ...)."""
import json, os, re, subprocess, sys, shlex
pdir, wt = sys.argv[1], sys.argv[2]
env = dict(os.environ, GOFLAGS="-mod=mod", GOPROXY="off", GOSUMDB="off", GOTOOLCHAIN="local")
how = open(os.path.join(pdir, "how_to_run.txt")).read()
cp = re.search(r"cp\s+\S*demo_test\.go\s+(\S+)", how)
gt = re.search(r"(go test[^\n#]*)", how)
if not cp or not gt:
    print(json.dumps({"dir": pdir, "error": "cannot parse how_to_run.txt"})); sys.exit(0)
dest = cp.group(1)
m = re.search(r"(cmd/par|par1|par2|rsec16|gf2p16|gf2)/[\w.]+$", dest)
if not m:
    print(json.dumps({"dir": pdir, "error": "cannot find package in " + dest})); sys.exit(0)
rel = m.group(0)
cmd = gt.group(1).strip()
cmd = re.sub(r"\s+2>&1.*$", "", cmd)
def sh(c):
    p = subprocess.run(c, cwd=wt, shell=True, env=env, stdout=subprocess.PIPE, stderr=subprocess.STDOUT, timeout=900)
    return p.returncode, p.stdout.decode("utf-8", "replace")
sh("git checkout -q -- . && git clean -fdq")
import shutil
def run(with_patch):
    if with_patch:
        rc, out = sh("git apply " + shlex.quote(os.path.join(pdir, "patch.diff")))
        if rc != 0:
            return None, out
    shutil.copy(os.path.join(pdir, "demo_test.go"), os.path.join(wt, rel))
    rc, out = sh("timeout 600 " + cmd)
    sh("git checkout -q -- . && git clean -fdq")
    return rc, out[-300:]
a, ao = run(True)
b, bo = run(False)
print(json.dumps({"dir": pdir, "cmd": cmd, "with_patch_rc": a, "without_patch_rc": b, "ok": (a not in (0, None)) and b == 0,
                  "tail_with": ao[-160:] if a in (0, None) else "", "tail_without": bo[-160:] if b != 0 else ""}))
