#!/usr/bin/env python3
"""Evaluate a seeded change against the checks WITHOUT touching /repo: the patch is applied in a
scratch worktree and the checks are pointed at it (VERIF_REPO).  Evidence/replays go to scratch.

  tools/seedtest.py <dir with patch.diff> <worktree> <check ids...>

Prints one JSON line: {"patch":..., "build_ok":..., "tests_ok":..., "checks": {id: {"rc":..., "violations":[clauses]}}}
"""
import json, os, subprocess, sys, tempfile, shutil, re
here = os.path.dirname(os.path.dirname(os.path.abspath(__file__)))
env0 = dict(os.environ, GOFLAGS="-mod=mod", GOPROXY="off", GOSUMDB="off", GOTOOLCHAIN="local")

def sh(cmd, cwd, timeout=1800, env=None):
    p = subprocess.run(cmd, cwd=cwd, shell=isinstance(cmd, str), stdout=subprocess.PIPE, stderr=subprocess.STDOUT, timeout=timeout, env=env or env0)
    return p.returncode, p.stdout.decode("utf-8", "replace")

def main():
    pdir, wt = sys.argv[1], sys.argv[2]
    checks = sys.argv[3:]
    tier = os.environ.get("SEED_TIER", "quick")
    res = {"patch": pdir, "worktree": wt, "checks": {}}
    sh("git checkout -q -- . && git clean -fdq", wt)
    rc, out = sh(["git", "apply", os.path.join(pdir, "patch.diff")], wt)
    if rc != 0:
        res["apply_error"] = out[-500:]
        print(json.dumps(res)); return
    try:
        rc, out = sh("go build ./... && go vet ./...", wt)
        res["build_ok"] = rc == 0
        rc, out = sh("go test -count=1 ./...", wt)
        res["tests_ok"] = rc == 0 and "FAIL" not in out
        scratch = tempfile.mkdtemp(prefix="seedtest-")
        for c in checks:
            env = dict(env0, VERIF_REPO=wt, VERIF_EVIDENCE_DIR=os.path.join(scratch, "ev"), VERIF_REPLAY_DIR=os.path.join(scratch, "rp"),
                       VERIF_WORK_DIR=os.path.join(scratch, "work"))
            try:
                rc, out = sh([os.path.join(here, "check"), c, tier], here, timeout=3000, env=env)
            except subprocess.TimeoutExpired:
                rc, out = 2, "timeout"
            clauses = re.findall(r"clause: (\S+)", out)
            res["checks"][c] = {"rc": rc, "violations": sorted(set(clauses)), "inconclusive": re.findall(r"INCONCLUSIVE[^\n]*", out)[:1]}
        shutil.rmtree(scratch, ignore_errors=True)
    finally:
        sh("git checkout -q -- . && git clean -fdq", wt)
    print(json.dumps(res))

if __name__ == "__main__":
    main()
