#!/usr/bin/env python3
"""Parse every module under spec/ with SANY (in a scratch copy)."""
import os, shutil, subprocess, sys, tempfile
here = os.path.dirname(os.path.dirname(os.path.abspath(__file__)))
spec = os.path.join(here, "spec")
work = os.path.join(here, ".work", "sany-%d" % os.getpid())
shutil.rmtree(work, ignore_errors=True)
os.makedirs(work)
bad = 0
try:
    for f in os.listdir(spec):
        if f.endswith(".tla"):
            shutil.copy(os.path.join(spec, f), work)
    mods = sorted(f for f in os.listdir(work) if f.endswith(".tla"))
    jar = "/opt/veriftools/tla/tla2tools.jar:/opt/veriftools/tla/CommunityModules-deps.jar"
    p = subprocess.run(["java", "-cp", jar, "tla2sany.SANY"] + mods, cwd=work, stdout=subprocess.PIPE, stderr=subprocess.STDOUT)
    out = p.stdout.decode("utf-8", "replace")
    if p.returncode != 0 or "error" in out.lower().replace("errors: 0", ""):
        errs = [l for l in out.splitlines() if "rror" in l]
        if p.returncode != 0 or errs:
            print(out[-3000:])
            bad = 1
    print("SANY parsed %d modules" % len(mods))
finally:
    shutil.rmtree(work, ignore_errors=True)
sys.exit(bad)
