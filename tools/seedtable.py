#!/usr/bin/env python3
"""tools/seedtable.py <prefix>   prints the markdown table rows of DESIGN.md 13.7 for seeded/<prefix>*/meta.json"""
import json, os, sys
here = os.path.dirname(os.path.dirname(os.path.abspath(__file__)))
pre = sys.argv[1] if len(sys.argv) > 1 else ""
print("| id | property | change (author's summary, shortened) | caught by | note |")
print("|---|---|---|---|---|")
for d in sorted(os.listdir(os.path.join(here, "seeded"))):
    if not d.startswith(pre):
        continue
    try:
        m = json.load(open(os.path.join(here, "seeded", d, "meta.json")))
    except Exception:
        continue
    summ = " ".join(str(m.get("summary", "")).split())[:170].replace("|", "/")
    files = ", ".join(m.get("files_changed", [])[:3])
    print("| %s | %s | %s (%s) | %s | %s |" % (d, m.get("property", ""), summ, files, ", ".join(m.get("caught_by", [])) or "**none**", m.get("note", "")))
