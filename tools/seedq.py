#!/usr/bin/env python3
"""tools/seedq.py <queue.txt> <out.jsonl>   long-running evaluator of seeded changes: every line
"<dir with patch.diff>:<check>[,<check>...]" appended to the queue file is evaluated once (tools/seedtest.py)
on one of the scratch worktrees /tmp/wt/eval1..4; a line "STOP" ends it."""
import json, os, subprocess, sys, threading, queue, time
here = os.path.dirname(os.path.dirname(os.path.abspath(__file__)))
qfile, out = sys.argv[1], sys.argv[2]
q = queue.Queue(); lock = threading.Lock(); stop = threading.Event()
def worker(wt):
    while True:
        item = q.get()
        if item is None:
            return
        pdir, checks = item
        p = subprocess.run([sys.executable, os.path.join(here, "tools", "seedtest.py"), pdir, wt] + checks, stdout=subprocess.PIPE, stderr=subprocess.PIPE)
        line = p.stdout.decode().strip().splitlines()[-1] if p.stdout.strip() else json.dumps({"patch": pdir, "error": p.stderr.decode()[-400:]})
        with lock:
            with open(out, "a") as f:
                f.write(line + "\n")
ths = [threading.Thread(target=worker, args=("/tmp/wt/eval%d" % i,)) for i in (1, 2, 3, 4)]
for t in ths: t.start()
seen = 0
while not stop.is_set():
    lines = open(qfile).read().splitlines() if os.path.exists(qfile) else []
    for l in lines[seen:]:
        l = l.strip()
        if l == "STOP":
            stop.set(); break
        if l:
            pdir, checks = l.split(":")
            q.put((pdir, checks.split(",")))
    seen = len(lines)
    time.sleep(5)
for t in ths: q.put(None)
for t in ths: t.join()
