#!/usr/bin/env python3
"""tools/coverage.py [cfg-glob-substring ...]   non-vacuity audit of the design-level models.

Runs every spec/MC_*.cfg (or those whose name contains one of the given substrings) with TLC's `-coverage 1` in a
scratch directory and reports, per configuration: state counts, next-state actions that never produced a state, and
sub-expressions of the specification that were never evaluated (count 0) - an action never taken or a property
whose antecedent never holds means the property was not exercised by that model.  Writes coverage/summary.json."""
import glob, json, os, re, shutil, sys, tempfile
sys.path.insert(0, os.path.dirname(os.path.abspath(__file__)))
import vlib

ACT = re.compile(r"^<(\w+) line (\d+), col (\d+) to line (\d+), col (\d+) of module (\w+)>: (\d+):(\d+)")
EXP = re.compile(r"^\s*\|*line (\d+), col (\d+) to line (\d+), col (\d+) of module (\w+): (\d+)\s*$")
STD = {"Naturals", "Integers", "Sequences", "FiniteSets", "TLC", "Json", "SequencesExt", "FiniteSetsExt", "Functions", "Folds", "Bags"}


def module_of(cfg):
    base = os.path.basename(cfg)[:-4]
    for m in sorted((os.path.basename(p)[:-4] for p in glob.glob(os.path.join(vlib.SPEC, "MC_*.tla"))), key=len, reverse=True):
        if base == m or base.startswith(m + "_"):
            return m
    return None


def src_line(mod, ln):
    try:
        return open(os.path.join(vlib.SPEC, mod + ".tla")).read().split("\n")[ln - 1].strip()
    except Exception:
        return ""


def main():
    want = sys.argv[1:]
    out = {}
    scratch = os.environ.get("VERIF_WORK_DIR") or tempfile.gettempdir()
    for cfg in sorted(glob.glob(os.path.join(vlib.SPEC, "MC_*.cfg"))):
        name = os.path.basename(cfg)
        if want and not any(w in name for w in want):
            continue
        mod = module_of(cfg)
        if not mod:
            continue
        d = tempfile.mkdtemp(prefix="cov-", dir=scratch)
        try:
            r = vlib.tlc(d, mod, cfg=name, workers=12, timeout=int(os.environ.get("COV_TIMEOUT", "2400")), coverage=True)
        except Exception as e:      # noqa
            out[name] = {"error": str(e)[:300]}
            shutil.rmtree(d, ignore_errors=True)
            continue
        shutil.rmtree(d, ignore_errors=True)
        acts, zero_acts, zero_exprs, nexpr = [], [], [], 0
        seen = set()
        lines = r.lines
        starts = [i for i, l in enumerate(lines) if "coverage statistics" in l]
        if starts:                       # TLC prints interim snapshots every minute: only the final one counts
            lines = lines[starts[-1]:]
        for l in lines:
            m = ACT.match(l)
            if m:
                a = {"action": m.group(1), "module": m.group(6), "line": int(m.group(2)), "distinct": int(m.group(7)), "generated": int(m.group(8))}
                acts.append(a)
                if a["generated"] == 0 and a["action"] not in ("Init",):
                    zero_acts.append(a)
                continue
            m = EXP.match(l)
            if m and m.group(5) not in STD:
                nexpr += 1
                if int(m.group(6)) == 0:
                    key = (m.group(5), int(m.group(1)))
                    if key not in seen:
                        seen.add(key)
                        zero_exprs.append({"module": m.group(5), "line": int(m.group(1)), "text": src_line(m.group(5), int(m.group(1)))[:160]})
        out[name] = {"module": mod, "ok": bool(r.ok), "rc": r.rc, "distinct_states": r.states, "states_generated": r.generated, "wall_s": round(r.wall, 1),
                     "actions": acts, "actions_never_taken": zero_acts, "expressions_counted": nexpr, "lines_with_an_unevaluated_expression": zero_exprs}
        print("%-34s ok=%s states=%d actions=%d never_taken=%d zero_lines=%d  %.0fs" % (name, r.ok, r.states, len(acts), len(zero_acts), len(zero_exprs), r.wall), flush=True)
    os.makedirs(os.path.join(vlib.VERIF, "coverage"), exist_ok=True)
    p = os.path.join(vlib.VERIF, "coverage", "summary.json")
    old = {}
    if want and os.path.exists(p):
        old = json.load(open(p))
    old.update(out)
    json.dump(old, open(p, "w"), indent=1, sort_keys=True)


if __name__ == "__main__":
    main()
