"""X05 (extension, not a listed property) - the file layer under par1/par2 and the fidelity of memfs.MemFS.

  ./check X05 [quick|thorough]

TLC checks on a bounded universe of paths that the in-memory double (memfs.MemFS, on which nearly all of the
repository's own tests run) and the operating-system file layer (defaultFileIO) agree on every call outside seven
NAMED deviations, that every named deviation really is a difference, and that each is a map by itself
(spec/FileIO.tla).  The same seeded call sequences are then applied to the real OS layer in a sandbox and to a
real MemFS; spec/Trace_FileIO.tla replays both through the model."""
import json, os, threading, time
import vlib

RULE = ("TLC explores every sequence of ReadFile / WriteFile / Remove / Move / FindWithPrefixAndSuffix / Mkdir over the bounded "
        "universe and checks F_FaithfulOutsideDeviations, F_ReadYourWrites, F_RemoveRemoves, F_MoveIsRemoveThenWrite, "
        "F_FindIsFilter, F_QueriesArePure, F_OSWellFormed and that every named deviation is a real difference; every recorded "
        "call on the real OS layer and on the real memfs.MemFS is replayed through the same actions (Trace_FileIO): each "
        "result must equal its model's prediction, and with equivalent states and no named deviation the two observed results "
        "must be equal.")
ASSUME = ["paths are relative to one working directory, components are non-empty and are not '.' or '..'",
          "the suffix given to FindWithPrefixAndSuffix does not contain the separator (as in gopar's own calls)",
          "Linux error classes: not-exist (ENOENT) versus other (ENOTDIR, EISDIR)"]


def judge_chunks(ctx, trace, k):
    lines = [l for l in open(trace) if l.strip()]
    starts = [i for i, l in enumerate(lines) if '"op":"reset"' in l]
    if not starts:
        raise vlib.Inconclusive("no trace recorded")
    k = max(1, min(k, len(starts)))
    per = (len(starts) + k - 1) // k
    cuts = [starts[i] for i in range(0, len(starts), per)] + [len(lines)]
    results, errors = [None] * (len(cuts) - 1), []

    def work(c):
        try:
            d = ctx.work.sub("judge-fs-%d" % c)
            p = os.path.join(d, "part.ndjson")
            with open(p, "w") as f:
                f.writelines(lines[cuts[c]:cuts[c + 1]])
            results[c] = vlib.judge(d, "Trace_FileIO", p, timeout=1700)
        except Exception as e:     # noqa
            errors.append(e)
    ths = [threading.Thread(target=work, args=(c,)) for c in range(len(cuts) - 1)]
    t0 = time.time()
    for t in ths: t.start()
    for t in ths: t.join()
    if errors:
        raise errors[0] if isinstance(errors[0], vlib.Inconclusive) else vlib.Inconclusive(str(errors[0]))
    verdicts, total = [], 0
    for c, (vd, n, r) in enumerate(results):
        total += n
        for v in vd:
            v = dict(v); v["i"] = v["i"] + cuts[c]
            verdicts.append(v)
        ctx.tlc_cmds.append(r.cmd)
    ctx.events_judged += total
    vlib.log("[X05] judge Trace_FileIO x%d: %d events, %d verdicts, %.1fs" % (len(cuts) - 1, total, len(verdicts), time.time() - t0))
    return verdicts


def selftest(ctx, ev):
    """corrupt one recorded result / drop one recorded call and require the judge to reject"""
    import copy
    starts = [i for i, e in enumerate(ev) if e["op"] == "reset"]
    tr = None
    for a, b in zip(starts, starts[1:] + [len(ev)]):
        t = ev[a:b]
        wi = [i for i, e in enumerate(t) if e["op"] == "write" and e["os"]["err"] == ""]
        ri = [i for i, e in enumerate(t) if e["op"] == "read" and e["os"]["err"] == "" and e["mem"]["err"] == ""]
        if wi and ri and wi[0] < ri[-1]:
            tr, w0, r0 = t, wi[0], ri[-1]
            break
    if tr is None:
        raise vlib.Inconclusive("selftest: no suitable trace")
    res = []

    def judge(t, name):
        d = ctx.work.sub("selftest-fs-" + name)
        p = os.path.join(d, "part.ndjson")
        vlib.write_ndjson(p, t)
        vd, n, r = vlib.judge(d, "Trace_FileIO", p, timeout=600)
        return vd
    t1 = copy.deepcopy(tr); t1[r0]["mem"]["val"] = [9, 9, 9]          # MemFS returned other bytes
    t2 = copy.deepcopy(tr); t2[r0]["os"]["err"] = "notexist"; t2[r0]["os"]["val"] = []   # the OS lost the file
    t3 = copy.deepcopy(tr)
    p0 = t3[r0]["p"]
    t3 = [e for e in t3 if not (e["op"] in ("write", "move") and (e["p"] == p0 or e["q"] == p0))]   # the writes of that file not recorded
    for name, t, want in (("memfs bytes differ", t1, "X05.conf.mem.read"), ("os lost the file", t2, "X05.conf.os.read"),
                          ("writes dropped from the log", t3, "X05.conf.")):
        vd = judge(t, name.split()[0])
        ok = any(v["clause"].startswith(want) for v in vd)
        vlib.log("[X05] selftest %s: %s" % (name, "rejected" if ok else "NOT REJECTED"))
        res.append({"module": "Trace_FileIO", "corruption": name, "rejected": ok, "clauses": sorted({v["clause"] for v in vd})})
        if not ok:
            raise vlib.Inconclusive("binding self-test failed: %s accepted" % name)
    return res


def run(ctx):
    r = ctx.mc("MC_FileIO", "MC_FileIO.cfg", "file layer: OS vs MemFS", workers=12, timeout=1700)
    uni = r.tagged("UNIVERSE")[0]
    cases = ctx.work.path("fs-universe.json")
    with open(cases, "w") as f:
        json.dump(uni, f)

    def once():
        out = ctx.drive(["fsobj", "-in", cases, "-n", "300" if not ctx.thorough else "3000", "-len", "30"], out_name="fsobj.ndjson")
        ev = vlib.read_ndjson(out)
        vd = judge_chunks(ctx, out, 8)
        if ctx.selftest and not ctx.extra.get("binding_selftest"):
            ctx.extra["binding_selftest"] = selftest(ctx, ev)
        ctx.traces = sum(1 for e in ev if e.get("op") == "reset")
        calls = [e for e in ev if e.get("op") not in ("reset", "mkdir")]
        ctx.extra["calls"] = len(calls)
        ctx.extra["calls_where_os_and_memfs_differ"] = sum(1 for e in calls if e["os"] != e["mem"])
        return ev, vd
    events, verdicts = once()
    ctx.samples = [e for e in events if e.get("op") == "find"][:3]
    return ctx.finish(verdicts, events, RULE, ASSUME, rerun=once)
