"""C14 - Repair converges and is idempotent over any history of damage and repair."""
import vlib
from checks import archive

RULE = ("TLC explores the damage/restore/volume/Verify/Repair graph of Par2Archive (and Par1Archive) to closure and checks "
        "C14_SuccessIsFixpoint, C14_FailureKeepsOrRestores, C14_VerifyPure on every transition; every Verify/Repair edge "
        "of the closed graph is replayed on the real code (successful repairs are followed by a real Verify and a real "
        "second Repair whose write calls are logged through the H2 file-system hook); seeded random walks / large sets "
        "are judged with the same clauses.")
ASSUME = ["every disk state of the closed graph is reachable by damage events alone, so replaying each edge from a "
          "materialised source state covers every finite history (no state survives between gopar calls except the directory)"]


def run(ctx):
    def once():
        return archive.combine(archive.small_scope(ctx, ["C14."]),
                               archive.big_sets(ctx, ["C14."], "c14"),
                               archive.par1_family(ctx, ["C14."]))
    events, verdicts = once()
    ctx.samples = archive.pick_samples(events)
    return ctx.finish(verdicts, events, RULE, ASSUME, rerun=once)
