"""C14 - Repair converges and is idempotent over any history of damage and repair."""
import vlib
from checks import archive

RULE = ("TLC explores the damage/restore/volume/Verify/Repair graph of Par2Archive (and Par1Archive) to closure and checks "
        "C14_SuccessIsFixpoint, C14_FailureKeepsOrRestores, C14_VerifyPure on every transition; every Verify/Repair edge "
        "of the closed graph is replayed on the real code (successful repairs are followed by a real Verify and a real "
        "second Repair whose write calls are logged through the H2 file-system hook); seeded random walks / large sets "
        "are judged with the same clauses; the convergence statement itself is model-checked as a temporal formula (MC_Par2Live: frozen, within capacity and solvable leads to all files intact for good, under weak fairness of Repair only); convergence includes the within-capacity clauses (once the recovery files present suffice, Repair succeeds).")
ASSUME = ["every disk state of the closed graph is reachable by damage events alone, so replaying each edge from a "
          "materialised source state covers every finite history (no state survives between gopar calls except the directory)"]


def run(ctx):
    def once():
        # "repeated attempts as more recovery files arrive converge to the original data": once the recovery files
        # present suffice, Repair must succeed - the within-capacity clauses are part of convergence
        return archive.combine(archive.small_scope(ctx, ["C14.", "C01.within_capacity"]),
                               archive.big_sets(ctx, ["C14.", "C01.within_capacity"], "c14"),
                               archive.par1_family(ctx, ["C14.", "C04.within_capacity"]))
    # convergence as a temporal formula: frozen /\ within capacity /\ solvable ~> [] all intact, under WF(Repair)
    for inst in (["i1", "i4"] if ctx.thorough else ["i1"]):
        ctx.mc("MC_Par2Live", "MC_Par2Live_%s.cfg" % inst, "C14 convergence (leads-to under weak fairness of Repair), instance " + inst,
               workers=8, timeout=2400)
    for inst in (["j1", "j2"] if ctx.thorough else ["j1"]):
        ctx.mc("MC_Par1Live", "MC_Par1Live_%s.cfg" % inst, "C14 convergence for PAR1 (leads-to under weak fairness of Repair), instance " + inst,
               workers=8, timeout=2400)
    if ctx.selftest:
        # non-vacuity: without fairness the same property must be violated
        r = vlib.tlc(ctx.work.sub("mc-live-nofair"), "MC_Par2Live", "MC_Par2Live_nofair.cfg", workers=4, timeout=900)
        bad = not any("Temporal property Converges was violated" in l for l in r.lines)
        ctx.extra.setdefault("binding_selftest", []).append({"module": "MC_Par2Live", "corruption": "fairness removed", "rejected": not bad})
        if bad:
            raise vlib.Inconclusive("liveness self-test: Converges holds even without fairness (vacuous)")
    events, verdicts = once()
    ctx.samples = archive.pick_samples(events)
    return ctx.finish(verdicts, events, RULE, ASSUME, rerun=once)
