"""C05 - Created PAR2 sets are valid PAR2 and carry the specified Reed-Solomon data."""
import json
import vlib

RULE = ("design level: TLC checks the volume layout (blocks 0..R-1 exactly once for every R <= 300) and the specification's "
        "facts about its constants (32768, distinct, order 65535, first eight) and enumerates small input shapes; A: every "
        "shape (1-3 files, names in sub-directories, sizes 1, S-1, S, S+1, 2S+1, S in {4,8}, R in {1,2,3,4,8}) goes through "
        "the real par2.Create and the independent tokenizer, Par2Format judging framing, packet hashes, set id, file ids and "
        "their little-endian order, hashes, per-slice checksums, creator, exponents exactly once and EVERY recovery word; B: "
        "seeded sets (sizes around S and 16384, S up to 128 KiB, R up to 130 (300), up to 9000 (32768) slices, goroutines "
        "1..40) with seeded word columns of every recovery block.  distinct = distinct events.")
ASSUME = ["MD5/CRC32 are Go's standard library, computed inside the observer; Par2Format decides which bytes are hashed and which field must equal the digest",
          "for large sets TLC recomputes a bounded number of word columns of every recovery block (first, last and evenly spread)"]


def run(ctx):
    def once():
        r = ctx.mc("MC_C05", "MC_C05.cfg", "volume layout, constants, shapes", workers=10)
        shapes = r.tagged("SHAPE")
        sp = ctx.work.path("shapes.ndjson")
        with open(sp, "w") as f:
            for s in shapes:
                f.write(json.dumps(s) + "\n")
        t = ctx.drive(["c05", "-in", sp], out_name="c05.ndjson")
        ev = vlib.read_ndjson(t)
        vd = ctx.judge("Trace_C05", t, parallel=10, xmx="3g", timeout=3000)
        # configurations: what Create writes must not depend on GOMAXPROCS (large coding matrices, odd block counts)
        parts = [(ev, vd)]
        for procs in ((3, 5, 7, 12) if ctx.thorough else (3, 7)):
            t2 = ctx.drive(["c05", "-mode", "procs"], out_name="c05-procs%d.ndjson" % procs, env_extra={"GOMAXPROCS": str(procs)})
            parts.append((vlib.read_ndjson(t2), ctx.judge("Trace_C05", t2, parallel=4, xmx="3g", timeout=3000)))
        from checks import archive
        ev, vd = archive.combine(*parts)
        obs = [v for v in vd if v["clause"].startswith("OBS.")]
        if obs:
            raise vlib.Inconclusive("observer order wrong: %s" % obs[:2])
        ctx.extra["shapes_from_tlc"] = len(shapes)
        ctx.extra["volume_name_drift"] = sum(1 for e in ev if e["predicted_volumes"] and sorted(e["predicted_volumes"]) != sorted(x for x in e["created"] if x != "out.par2"))
        ctx.extra["max_slices"] = max(e["nslices"] for e in ev)
        ctx.extra["max_r"] = max(e["r"] for e in ev)
        return ev, [v for v in vd if v["clause"].startswith("C05.")]
    events, verdicts = once()

    def brief(e):
        e = dict(e)
        e["slicewords"] = e["slicewords"][:4]
        e["files"] = [dict(f, packets=f["packets"][:6]) for f in e["files"][:2]]
        return e
    ctx.samples = [brief(events[0]), brief(events[-1])]
    return ctx.finish(verdicts, events, RULE, ASSUME, rerun=once)
