"""C13 - Corruption, truncation and interrupted writes never crash or mislead."""
import json
import vlib

RULE = ("design level: TLC enumerates structural corruption descriptors of a valid PAR2 set (every file x every packet x region "
        "{magic, length-low, length-high, hash, set id, type, body} x {lowest, middle, highest bit}; cuts at every packet boundary, "
        "inside every header at 4 offsets and inside every body at 3; emptied / garbage / deleted; every subset of files deleted; "
        "every prefix of Create's sequence of file writes with the last write torn at every packet boundary; with and without a "
        "damaged data file) and checks on the reader model that every RESULT is truthful; the harness adds the PAR1 analogue (every "
        "header and entry field x 3 bits, cuts at every field boundary, prefixes) and seeded byte-level flips/cuts; every case runs the "
        "real Verify and Repair in batch worker processes (panic, fatal error, memory limit and hang are observations) and TLC judges: "
        "terminates normally; a result reports no more recovery blocks / volumes / slices than are really intact; Repair writes only "
        "exact originals; success means restored.")
ASSUME = ["whether a damaged file makes the run fail or is skipped is left open (either is admissible)",
          "intact recovery blocks are found by an independent robust scan (magic + length + digest at any offset)"]


def run(ctx):
    def once():
        r = ctx.mc("MC_C13", "MC_C13.cfg", "corruption descriptors; results truthful on the reader model", workers=4)
        descs = r.tagged("DESC")
        dp = ctx.work.path("descs.ndjson")
        with open(dp, "w") as f:
            for d in descs:
                f.write(json.dumps(d) + "\n")
        t = ctx.drive(["c13", "-in", dp], out_name="c13.ndjson")
        ev = vlib.read_ndjson(t)
        ev.sort(key=lambda e: e["case"])
        vlib.write_ndjson(t, ev)
        vd = ctx.judge("Trace_C13", t)
        ctx.extra["descriptors_from_tlc"] = len(descs)
        ctx.extra["cases_run"] = len(ev)
        ctx.extra["results_vs_errors"] = {"verify_result": sum(1 for e in ev if e["verify"]["err"] == ""), "verify_error": sum(1 for e in ev if e["verify"]["err"] != "")}
        return ev, vd
    events, verdicts = once()
    ctx.samples = [events[0], events[len(events) // 2], [e for e in events if e["verify"]["err"] == ""][3], events[-1]]
    return ctx.finish(verdicts, events, RULE, ASSUME, rerun=once)
