"""C08 - GF(2^16) and GF(2)[x] arithmetic is the arithmetic of the PAR2 field."""
import vlib
from checks import archive

PROCS_QUICK = (3, 7)
PROCS_THOROUGH = (1, 2, 3, 5, 6, 7, 9, 11, 12, 13)

RULE = ("design level: every case <<field, a, b>> of GF(4), GF(8), GF(16), GF(256)/0x11D and GF(2)[x] "
        "(degree < PolyW) plus the 65535-step generator walk in GF(2^16)/0x1100B; conformance: one event "
        "per recorded batch of gf2p16.T.Times/Div/Inverse/Pow or gf2.Poly64.Times/Div calls "
        "(all 65536 a x {basis, 0, 1, 0xFFFF, seeded, log-sum boundary partners}, all inverses, Pow on "
        "bases x exponent classes up to 2^32-1), each judged by TLC against GF!Mul / GF2Poly; plus closure "
        "sweeps over all 2^32 pairs whose mismatches are nominated to TLC; a reduced list (table ends, chunk boundaries, all inverses) is recorded again in "
        "processes started with other GOMAXPROCS values.  distinct = distinct events.")

ASSUME = ["GF!FastMul equals the definitional GF!Mul: every table entry is checked by its recurrence and "
          "FastMul = Mul on all a x basis b in an ASSUME of the trace spec",
          "closure sweeps (bilinearity, Div = Times o Inverse) run in Go and only nominate cases",
          "Div and Inverse are not called with a zero divisor (documented panic)"]


def run(ctx):
    ctx.mc("MC_C08", "MC_C08_thorough.cfg" if ctx.thorough else "MC_C08.cfg", "field laws small scope + generator walk",
           workers=14, timeout=3000)

    def once():
        trace = ctx.drive(["c08"])
        events = vlib.read_ndjson(trace)
        verdicts = ctx.judge("Trace_C08", trace, parallel=12, xmx="3g", timeout=3000)     # every event is judged on its own
        parts = [(events, verdicts)]
        # configurations: the tables are built at package initialisation; they must not depend on GOMAXPROCS
        for procs in (PROCS_THOROUGH if ctx.thorough else PROCS_QUICK):
            t = ctx.drive(["c08", "-mode", "procs"], out_name="c08-procs%d.ndjson" % procs, env_extra={"GOMAXPROCS": str(procs)})
            parts.append((vlib.read_ndjson(t), ctx.judge("Trace_C08", t, parallel=4, xmx="3g")))
        ctx.extra["gomaxprocs_values"] = [16] + list(PROCS_THOROUGH if ctx.thorough else PROCS_QUICK)
        return archive.combine(*parts)

    events, verdicts = once()
    ctx.samples = [events[1], events[3], [e for e in events if e["ev"] == "pow"][5],
                   [e for e in events if e["ev"] == "pdiv"][40], events[-1]]
    ctx.extra["sweeps"] = [e for e in events if e["ev"] == "sweep"]
    return ctx.finish(verdicts, events, RULE, ASSUME, rerun=once)
