"""X06 (extension, not a listed property) - UNBOUNDED safety of the two Encoder typestate models by an inductive
invariant discharged with Apalache (spec/Apa_EncoderObjects.tla).

  ./check X06 [quick|thorough]

TLC first checks that every behaviour of Par2EncoderObject (X02) and of Par1EncoderObject (X04) - the models the
real objects are bound to by trace validation - is a behaviour of Apa_EncoderObjects (refinement under the obvious
mapping of the archive record).  Apalache then proves, for ANY number of input versions:
  1. Init => IndInv          2. IndInv /\\ Next => IndInv'          3. IndInv /\\ Next => ActInv
and, as a self-test of the method, must REFUTE ActInvTooStrong in one step.  No code of /repo is executed here: the
binding to the code is X02's and X04's."""
import os, shutil, subprocess, tempfile, time
import vlib

RULE = ("TLC: Par2EncoderObject and Par1EncoderObject refine Apa_EncoderObjects (MC_ApaRefine2, MC_ApaRefine1). Apalache 0.58: "
        "Init => IndInv (length 0); IndInv /\\ Next => IndInv' (length 1 from IndInit); IndInv /\\ Next => ActInv (length 1 "
        "from IndInit); ActInvTooStrong must be violated. Unbounded in the number of input versions; R in {1,2,3}, both formats.")
ASSUME = ["the restatement of the two machines in Apa_EncoderObjects is tied to the TLC models by refinement, not by construction",
          "no code is executed by this check; X02 and X04 bind the models to the real objects"]


def apalache(work, args, expect_ok, what):
    d = tempfile.mkdtemp(prefix="apa-", dir=work)
    shutil.copy(os.path.join(vlib.SPEC, "Apa_EncoderObjects.tla"), d)
    t0 = time.time()
    try:
        p = subprocess.run(["apalache-mc", "check", "--cinit=CInit", "--out-dir=" + os.path.join(d, "out")] + args + ["Apa_EncoderObjects.tla"],
                           cwd=d, stdout=subprocess.PIPE, stderr=subprocess.STDOUT, timeout=900)
    except subprocess.TimeoutExpired:
        raise vlib.Inconclusive("apalache timed out: " + what)
    out = p.stdout.decode(errors="replace")
    ok = "The outcome is: NoError" in out
    bad = "The outcome is: Error" in out
    shutil.rmtree(d, ignore_errors=True)
    vlib.log("[X06] apalache %s: %s, %.1fs" % (what, "no error" if ok else ("violated" if bad else "??"), time.time() - t0))
    if not (ok or bad):
        raise vlib.Inconclusive("apalache gave no outcome for %s:\n%s" % (what, out[-1500:]))
    if ok != expect_ok:
        raise vlib.Inconclusive("apalache: %s %s" % (what, "was expected to hold but is violated" if expect_ok else "was expected to be violated but holds"))
    return {"query": what, "args": args, "outcome": "no error" if ok else "violated", "expected": True}


def run(ctx):
    ctx.mc("MC_ApaRefine2", "MC_ApaRefine2.cfg", "Par2EncoderObject refines Apa_EncoderObjects", workers=2, timeout=600)
    ctx.mc("MC_ApaRefine1", "MC_ApaRefine1.cfg", "Par1EncoderObject refines Apa_EncoderObjects", workers=2, timeout=600)
    w = ctx.work.sub("apalache")
    ctx.extra["apalache"] = [
        apalache(w, ["--init=Init", "--inv=IndInv", "--length=0"], True, "Init => IndInv"),
        apalache(w, ["--init=IndInit", "--inv=IndInv", "--length=1"], True, "IndInv /\\ Next => IndInv'"),
        apalache(w, ["--init=IndInit", "--inv=ActInv", "--length=1"], True, "IndInv /\\ Next => ActInv"),
        apalache(w, ["--init=IndInit", "--inv=ActInvTooStrong", "--length=1"], False, "self-test: ActInvTooStrong is refuted"),
    ]
    ctx.samples = ctx.extra["apalache"]
    return ctx.finish([], [], RULE, ASSUME)
