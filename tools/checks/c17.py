"""C17 - Create is deterministic and invariant under irrelevant variation."""
import json
import vlib

RULE = ("TLC enumerates the variation space (format x file set x permutation of the input list x goroutine count x current "
        "directory {set dir, parent, unrelated} x path spelling {relative, absolute, ./x, d//x, d/../d/x} x library / command line "
        "x kernel dispatch path x repetition); every configuration runs the real Create in a fresh directory; the trace "
        "specification is the 2-safety property itself: it remembers the digests of all written files for each KEY (format, file "
        "set, and for PAR1 the input order) and rejects any later run with the same KEY and different bytes.")
ASSUME = ["SHA-256 (truncated to 64 bits + length) stands for the bytes of each written file", "PAR1 output legitimately depends on the order of the input list (the property exempts PAR2 only)"]


def run(ctx):
    def once():
        r = ctx.mc("MC_C17", "MC_C17_thorough.cfg" if ctx.thorough else "MC_C17_quick.cfg", "variation space of Create", workers=4)
        cfgs = r.tagged("CONFIG")
        # group by key so that the first event of each key is the plain configuration
        cfgs.sort(key=lambda c: (c["format"], c["set"], c["perm"] != "given", c["rep"], c.get("prior", "fresh"), c["via"], c["spell"], c["cwd"], c["g"], c["kernel"]))
        # the driver changes the process's working directory, so parallelism is by process: K shards, merged back
        # into the canonical order
        import threading
        K = 6
        par = ctx.par
        vh = ctx.vh
        outs, errs = [None] * K, []

        def shard(k):
            try:
                cp = ctx.work.path("cfgs-%d.ndjson" % k)
                with open(cp, "w") as f:
                    for c in cfgs[k::K]:
                        f.write(json.dumps(c) + "\n")
                out = ctx.work.path("c17-%d.ndjson" % k)
                so, se, wall = vlib.run_vh(vh, ["c17", "-par", par, "-in", cp, "-out", out, "-tier", ctx.tier, "-seed", str(ctx.seed),
                                                "-dir", ctx.work.sub("sandbox-%d" % k)], timeout=3000)
                outs[k] = vlib.read_ndjson(out)
            except Exception as e:      # noqa
                errs.append(e)
        ths = [threading.Thread(target=shard, args=(k,)) for k in range(K)]
        for th in ths: th.start()
        for th in ths: th.join()
        if errs:
            raise errs[0] if isinstance(errs[0], vlib.Inconclusive) else vlib.Inconclusive(str(errs[0]))
        ev = []
        for i in range(len(cfgs)):
            sh = outs[i % K]
            if i // K >= len(sh):
                raise vlib.Inconclusive("driver shard %d recorded %d of %d configurations" % (i % K, len(sh), len(cfgs[i % K::K])))
            ev.append(sh[i // K])
        t = ctx.work.path("c17.ndjson")
        vlib.write_ndjson(t, ev)
        vd = ctx.judge("Trace_C17", t)
        ctx.extra["configurations"] = len(cfgs)
        ctx.extra["keys"] = len(set(e["key"] for e in ev))
        return ev, vd
    events, verdicts = once()
    ctx.samples = [events[0], events[len(events) // 2], events[-1]]
    return ctx.finish(verdicts, events, RULE, ASSUME, rerun=once, exhaustive=True)
