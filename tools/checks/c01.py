"""C01 - PAR2 repair restores every protected file exactly, within recovery capacity."""
import vlib
from checks import archive

RULE = ("A (spec -> code): TLC exhausts Par2Archive on bounded instances (damage menu per file x every subset of "
        "volume files) and emits every Verify/Repair transition; each is materialised on a real directory with "
        "archives written by the real par2.Create and executed with par2.Repair for goroutines 1,2,3,8; "
        "B (code -> spec): seeded large sets with ground truth computed by an independent observer. "
        "Every execution is judged by TLC (Trace_Archive / Trace_ArchiveBig) with the truth-layer clauses "
        "C01.within_capacity and C01.ok_implies_restored.  distinct = distinct events.")
ASSUME = ["MD5/CRC32 collisions do not occur on the inputs used (checksums idealised as injective in the spec)",
          "recovery and index files are present-and-untouched or deleted (damaged ones: C13)",
          "the Go observer of Survivors/Occurring is checked against TLC's own computation on every small event"]


def run(ctx):
    def once():
        ev, vd = archive.small_scope(ctx, ["C01."])
        ev2, vd2 = archive.big_sets(ctx, ["C01."], "c01")
        base = len(ev)
        return ev + ev2, vd + [dict(v, i=v["i"] + base) for v in vd2]
    events, verdicts = once()
    ctx.samples = archive.pick_samples(events)
    return ctx.finish(verdicts, events, RULE, ASSUME, rerun=once)
