"""C03 - PAR2 Verify is truthful: clean means intact, counts are sound and complete."""
import vlib
from checks import archive

RULE = ("A: every Verify transition of the bounded Par2Archive instances (all damage-menu states x volume subsets, "
        "alphabet {0,1,2} so that shifted content, swapped files, lost trailing zeros and appended garbage all occur) "
        "replayed on the real par2.Verify; TLC computes Survivors/Occurring from the logged bytes itself. "
        "B: seeded large sets, truth by the independent observer.  Clauses: usable_sound, usable_complete, counts_total, "
        "recovery_count, clean_implies_intact (two variants), needed_if_unusable, possible_iff_capacity.")
ASSUME = ["MD5/CRC32 idealised as injective", "recovery files are intact or deleted here (damaged ones: C13)",
          "usable counts are bounded between Survivors and Occurring; equality is demanded only where the two coincide"]


def run(ctx):
    def once():
        ev, vd = archive.small_scope(ctx, ["C03."])
        ev2, vd2 = archive.big_sets(ctx, ["C03."], "c03")
        base = len(ev)
        return ev + ev2, vd + [dict(v, i=v["i"] + base) for v in vd2]
    events, verdicts = once()
    ctx.samples = archive.pick_samples([e for e in events if e.get("op") == "verify"])
    return ctx.finish(verdicts, events, RULE, ASSUME, rerun=once)
