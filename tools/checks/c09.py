"""C09 - Bulk multiply kernels equal element-wise field multiplication on every path."""
import vlib
from checks import archive

PROCS_QUICK = (3, 7)
PROCS_THOROUGH = (1, 2, 3, 5, 6, 7, 9, 11, 12, 13)

RULE = ("design level: TLC checks for every even length 0..512 (+ lengths around 2^16 and 2^17) and each path that the "
        "block/tail decomposition of Kernels.tla tiles the buffer exactly; conformance: for every path in {portable Go (byte "
        "and word form), scalar assembly, SSSE3 assembly, exported functions with the dispatch flag forced both ways} x "
        "{mul, muladd} x every even length 0..320 and {65534, 65536, 65538, 131070, 131072, 131074} x seeded source / "
        "destination offsets (all 256 offset pairs near block boundaries in the thorough tier) x constants incl. 0, 1, 2, 3, "
        "0x8000, 0xFFFF, with buffers ending (or starting) flush against PROT_NONE pages and bracketed by canaries; TLC "
        "judges every word with GF!Mul and asserts the observed no-fault / canary / input-unchanged flags; closure sweep of "
        "constants x all 65536 word values per path nominates mismatches; a reduced list (top constants, chunk boundaries) is "
        "recorded again in processes started with other GOMAXPROCS values.  distinct = distinct events.")
ASSUME = ["out-of-bounds access is observed (guard page fault via debug.SetPanicOnFault, canary bytes), not inferred",
          "for buffers > 4 KiB TLC judges three 81-word windows; the remaining words are compared with T.Times (bound by C08) by the harness",
          "FastMul table tied to GF!Mul by TablesOK"]


def run(ctx):
    ctx.mc("MC_C09", "MC_C09.cfg", "kernel decomposition tiles the buffer", workers=8)

    def once():
        t = ctx.drive(["c09"], out_name="c09.ndjson")
        ev = vlib.read_ndjson(t)
        parts = [(ev, ctx.judge("Trace_C09", t, parallel=4, xmx="3g"))]
        # configurations: the multiplication tables are built at package initialisation; they must not depend on GOMAXPROCS
        for procs in (PROCS_THOROUGH if ctx.thorough else PROCS_QUICK):
            t = ctx.drive(["c09", "-mode", "procs"], out_name="c09-procs%d.ndjson" % procs, env_extra={"GOMAXPROCS": str(procs)})
            parts.append((vlib.read_ndjson(t), ctx.judge("Trace_C09", t, parallel=2, xmx="3g")))
        ctx.extra["gomaxprocs_values"] = [16] + list(PROCS_THOROUGH if ctx.thorough else PROCS_QUICK)
        return archive.combine(*parts)
    events, verdicts = once()
    kern = [e for e in events if e["ev"] == "kern"]

    def brief(e):
        e = dict(e)
        for k in ("in", "old", "out"):
            if len(e[k]) > 24:
                e[k] = e[k][:24] + ["..."]
        return e
    ctx.samples = [brief(kern[10]), brief(kern[len(kern) // 2]), brief([e for e in kern if e["len"] > 60000][0])] + [e for e in events if e["ev"] == "sweep"][:2]
    ctx.extra["paths"] = sorted(set(e["path"] for e in kern))
    ctx.extra["sweeps"] = [e for e in events if e["ev"] == "sweep"]
    return ctx.finish(verdicts, events, RULE, ASSUME, rerun=once)
