"""C06 - gopar reads any conformant PAR2 set, however it is laid out."""
import json, random
import vlib

RULE = ("design level: TLC enumerates layouts = index packet orders (permuted, duplicated, with foreign-set and unknown-type "
        "packets interleaved, starting with an own packet) x exponent schemes {0,1,2},{5,6,7},{1,7,300},{2000,2001,4094} x "
        "distributions of the recovery packets over 1-3 volume files (one stores a block twice) x volume styles (full copies, "
        "creator+recovery only, creator+main+recovery, noisy) x volume-name classes (incl. spaces, [ ] * ? backslash) x base "
        "names x directory names, and checks on the reader model (Par2Reader.tla) that the index opens identically and that "
        "exactly the blocks stored beside the index are found; each (sampled in quick, all in thorough) layout is written by "
        "the reference writer - whose output TLC first judges with Par2Format - and the real par2.Verify / Repair run on it "
        "with two damages, relative and absolute index paths; results must equal those for gopar's own canonical output.")
ASSUME = ["the reference writer is checked (Par2Format!RefVerdicts), not trusted: an OBS.ref verdict makes the run inconclusive",
          "layout class as in the property: index free of recovery packets and starting with an own packet, creator in every file, ASCII names"]


def run(ctx):
    def once():
        r = ctx.mc("MC_C06", "MC_C06.cfg", "reader invariance over all layouts", workers=12, timeout=1200)
        lay = r.tagged("LAYOUT")
        if not ctx.thorough:
            random.Random(ctx.seed).shuffle(lay)
            lay = lay[:4000]
        lp = ctx.work.path("layouts.ndjson")
        with open(lp, "w") as f:
            for l in lay:
                f.write(json.dumps(l) + "\n")
        t = ctx.drive(["c06", "-in", lp], out_name="c06.ndjson")
        ev = vlib.read_ndjson(t)
        vd = ctx.judge("Trace_C06", t, parallel=6 if ctx.thorough else 3, xmx="3g", timeout=3000)
        obs = [v for v in vd if v["clause"].startswith("OBS.")]
        if obs:
            raise vlib.Inconclusive("reference writer output rejected by Par2Format: %s" % obs[:3])
        ctx.extra["layouts_materialised"] = len(lay)
        ctx.extra["reference_sets_judged_by_par2format"] = sum(1 for e in ev if e["ev"] == "refset")
        return ev, [v for v in vd if v["clause"].startswith("C06.")]
    events, verdicts = once()
    lay = [e for e in events if e["ev"] == "layout"]
    ctx.samples = [lay[0], lay[len(lay) // 2], lay[-1]]
    return ctx.finish(verdicts, events, RULE, ASSUME, rerun=once, exhaustive=ctx.thorough)
