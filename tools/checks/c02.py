"""C02 - Repair writes only exact originals; nothing else is ever modified."""
import vlib
from checks import archive

RULE = ("Every Verify/Repair transition of the bounded Par2Archive and Par1Archive instances (all damage states incl. "
        "beyond capacity, all volume subsets, double-check on/off) replayed on a real directory that also holds unrelated "
        "files, a sub-directory and a foreign file with an archive-like name; the whole tree is snapshotted (bytes, inode, "
        "mtime, mode) before and after and, on every other edge, write calls are logged through the H2 file-system hook; "
        "seeded large sets likewise; every Create is snapshotted too.  TLC judges write_discipline, listed_means_written, "
        "nothing_else_changed, verify_modifies_nothing, create_touches_only_archive.")
ASSUME = ["the sandbox file system reports mtime/inode changes of rewritten files (write calls are additionally logged via the hook)",
          "damaged or foreign recovery files as archive states are covered by C13/C19 with the same write-discipline clause"]


def run(ctx):
    def once():
        return archive.combine(archive.small_scope(ctx, ["C02."]),
                               archive.big_sets(ctx, ["C02."], "c02"),
                               archive.par1_family(ctx, ["C02."]))
    events, verdicts = once()
    ctx.samples = archive.pick_samples(events) + [e for e in events if e.get("op") == "create"][:2]
    return ctx.finish(verdicts, events, RULE, ASSUME, rerun=once)
