"""C02 - Repair writes only exact originals; nothing else is ever modified."""
import vlib
from checks import archive

RULE = ("Every Verify/Repair transition of the bounded Par2Archive and Par1Archive instances (all damage states incl. "
        "beyond capacity, all volume subsets, double-check on/off) replayed on a real directory that also holds unrelated "
        "files, a sub-directory and a foreign file with an archive-like name; the whole tree is snapshotted (bytes, inode, "
        "mtime, mode) before and after and, on every other edge, write calls are logged through the H2 file-system hook; "
        "seeded large sets likewise; every Create is snapshotted too.  TLC judges write_discipline, listed_means_written, "
        "nothing_else_changed, verify_modifies_nothing, create_touches_only_archive; additionally the C02 clauses on reference-written "
        "PAR1 sets with entries not saved in the parity set and on repairs interrupted by an injected write failure (every file "
        "written before the failure is listed in the result).")
ASSUME = ["the sandbox file system reports mtime/inode changes of rewritten files (write calls are additionally logged via the hook)",
          "damaged or foreign recovery files as archive states are covered by C13/C19 with the same write-discipline clause"]


def extra_drivers(ctx):
    """C02 clauses on executions recorded by two other drivers: reference-written PAR1 sets with entries
    that are not saved in the parity set (c10), and repairs interrupted by an injected write failure
    (c18: every file written before the failure must be listed)."""
    import json
    r = ctx.mc("MC_C10", "MC_C10.cfg", "PAR1 index layouts (non-saved entries)", workers=4)
    lp = ctx.work.path("p1layouts.ndjson")
    with open(lp, "w") as f:
        for l in r.tagged("LAYOUT"):
            f.write(json.dumps(l) + "\n")
    t = ctx.drive(["c10", "-in", lp], out_name="c02-c10.ndjson")
    e1 = vlib.read_ndjson(t)
    v1 = [v for v in ctx.judge("Trace_C10", t) if v["clause"].startswith("C02.")]
    t2 = ctx.drive(["c18"], out_name="c02-c18.ndjson")
    e2 = vlib.read_ndjson(t2)
    v2 = [v for v in ctx.judge("Trace_C18", t2) if v["clause"].startswith("C02.")]
    return archive.combine((e1, v1), (e2, v2))


def run(ctx):
    def once():
        return archive.combine(archive.small_scope(ctx, ["C02."]),
                               archive.big_sets(ctx, ["C02."], "c02"),
                               archive.par1_family(ctx, ["C02."]),
                               extra_drivers(ctx))
    events, verdicts = once()
    ctx.samples = archive.pick_samples(events) + [e for e in events if e.get("op") == "create"][:2]
    return ctx.finish(verdicts, events, RULE, ASSUME, rerun=once)
