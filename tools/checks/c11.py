"""C11 - Matrix inversion and row reduction over GF(2^16) are correct."""
import vlib

RULE = ("design level: EVERY n x n matrix over GF(2) (n<=4), GF(4) (n<=2, thorough n=3), GF(8) (n=2), GF(16) (n=1, thorough n=2) "
        "through the step-by-step transcription of rowReduceForInverse: error <=> Det = 0 <=> kernel vector exists, "
        "result*M = M*result = I, [M|N] -> M^-1 N; conformance: the real gf2p16.Matrix.Inverse / RowReduceForInverse / Times "
        "over GF(2^16) on dimensions 1..20(40) densely and up to 150(300), random / Vandermonde / Cauchy / permutation / "
        "triangular / swap-at-every-pivot / rank-deficient (first, middle, last pivot) / low-rank matrices; TLC recomputes "
        "X*M = I (completely for n <= 40, seeded Freivalds probes above), accepts 'singular' only with a kernel vector it "
        "verifies, and for n <= 12 compares the result with the transcribed algorithm.  distinct = distinct events.")
ASSUME = ["Freivalds probes (3 seeded vectors) for n > 40: error probability 2^-48 per event",
          "kernel-vector certificates are computed by the harness and verified (not trusted) by TLC"]


def run(ctx):
    ctx.mc("MC_C11", "MC_C11_thorough.cfg" if ctx.thorough else "MC_C11_quick.cfg", "every matrix over tiny fields", workers=14, timeout=3000)

    def once():
        t = ctx.drive(["c11"], out_name="c11.ndjson")
        ev = vlib.read_ndjson(t)
        parts = [(ev, ctx.judge("Trace_C11", t, timeout=3000, parallel=8, xmx="3g"))]
        # configurations: the multiplication tables the row operations use are built at package initialisation;
        # they must not depend on GOMAXPROCS
        from checks import archive
        for procs in ((3, 5, 6, 7, 12) if ctx.thorough else (3, 7)):
            t2 = ctx.drive(["c11", "-mode", "procs"], out_name="c11-procs%d.ndjson" % procs, env_extra={"GOMAXPROCS": str(procs)})
            parts.append((vlib.read_ndjson(t2), ctx.judge("Trace_C11", t2, timeout=3000, parallel=2, xmx="3g")))
        return archive.combine(*parts)
    events, verdicts = once()

    def brief(e):
        e = dict(e)
        for k in ("m", "x", "nm", "a", "b", "c", "probes"):
            if k in e and len(str(e[k])) > 400:
                e[k] = str(e[k])[:400] + "..."
        return e
    ctx.samples = [brief(events[0]), brief(events[30]), brief([e for e in events if e.get("res") == "singular"][10]), brief(events[-1])]
    ctx.extra["dims"] = sorted(set(e["n"] for e in events))
    ctx.extra["kinds"] = sorted(set(e.get("kind", "times") for e in events))
    return ctx.finish(verdicts, events, RULE, ASSUME, rerun=once)
