"""C10 - PAR1 files conform to the PAR 1.0 layout in both directions."""
import json
import vlib

RULE = ("writer direction: the real par1.Create on seeded sets (tiny sets: every parity byte; larger: byte columns incl. 16383/16384 "
        "and the last byte; up to 34 files, up to 99 volumes, Unicode names with surrogate pairs, empty files) observed by an "
        "independent PAR1 tokenizer; Par1Format decides header fields, control hash, set hash, entries, offsets/sizes and the "
        "parity data SUM i^(v-1)*file_i over GF(2^8)/0x11D.  reader direction: TLC enumerates index layouts (1-3 saved entries "
        "x 0-2 entries not saved at every position, comment on/off, surrogate-pair names) x damaged subsets x surviving volume "
        "subsets and checks capacity decides; every layout is written by the reference writer (judged by Par1Format first) and "
        "read by the real par1.Verify / Repair: counts over saved entries only, repair within capacity restores exactly.")
ASSUME = ["reference PAR1 writer is checked by Par1Format (OBS.ref verdicts make the run inconclusive)", "MD5 from Go's standard library inside the observer"]


def run(ctx):
    def once():
        r = ctx.mc("MC_C10", "MC_C10.cfg", "PAR1 index layouts x damage x volumes", workers=8)
        lay = r.tagged("LAYOUT")
        lp = ctx.work.path("p1layouts.ndjson")
        with open(lp, "w") as f:
            for l in lay:
                f.write(json.dumps(l) + "\n")
        t = ctx.drive(["c10", "-in", lp], out_name="c10.ndjson")
        ev = vlib.read_ndjson(t)
        vd = ctx.judge("Trace_C10", t)
        obs = [v for v in vd if v["clause"].startswith("OBS.")]
        if obs:
            raise vlib.Inconclusive("reference PAR1 writer rejected by Par1Format: %s" % obs[:3])
        ctx.extra["layouts_from_tlc"] = len(lay)
        ctx.extra["sets_written_by_gopar_observed"] = sum(1 for e in ev if e["ev"] == "p1set")
        ctx.extra["reference_sets_judged"] = sum(1 for e in ev if e["ev"] == "p1refset")
        return ev, [v for v in vd if v["clause"].startswith("C10.")]
    events, verdicts = once()

    def brief(e):
        e = dict(e)
        if "files" in e:
            e["files"] = e["files"][:2]
            e["filecols"] = e["filecols"][:3]
        return e
    ctx.samples = [brief(events[0]), brief([e for e in events if e["ev"] == "p1refset"][0]), [e for e in events if e["ev"] == "p1layout"][100]]
    return ctx.finish(verdicts, events, RULE, ASSUME, rerun=once)
