"""Shared driver for the PAR2 archive family (C01, C02, C03, C14, C16): design-level model
checking of Par2Archive on bounded instances, replay of every emitted Verify/Repair
transition on the real code, and judging of the recorded executions by Trace_Archive."""
import json, os
import vlib

QUICK_INSTANCES = [("i1", "few"), ("i4", "few"), ("i5", "cyc")]
THOROUGH_INSTANCES = [("i1", "all"), ("i2", "few"), ("i3", "few"), ("i4", "all"), ("i5", "cyc")]


def small_scope(ctx, prefixes, instances=None, max_edges=None):
    """Returns (events, verdicts) with verdict indices relative to the concatenated event list,
    restricted to clauses whose name starts with one of prefixes."""
    if instances is None:
        instances = THOROUGH_INSTANCES if ctx.thorough else QUICK_INSTANCES
    all_events, all_verdicts = [], []
    drift = 0
    edges_total = 0
    for inst, pos in instances:
        cfg = "MC_Par2_%s_%s.cfg" % (inst, pos)
        r = ctx.mc("MC_Par2", cfg, "Par2Archive instance %s/%s" % (inst, pos), workers=12, timeout=3000)
        insts = r.tagged("INSTANCE")
        edges = r.tagged("EDGE")
        if not insts or not edges:
            raise vlib.Inconclusive("TLC emitted no instance/edges for " + cfg)
        if max_edges and len(edges) > max_edges:
            import random
            rnd = random.Random(ctx.seed)
            edges = rnd.sample(edges, max_edges)
        edges_total += len(edges)
        cases = ctx.work.path("cases-%s.json" % inst)
        with open(cases, "w") as f:
            json.dump({"instance": insts[0], "edges": edges}, f)
        trace = ctx.drive(["p2edges", "-in", cases], out_name="edges-%s.ndjson" % inst)
        events = vlib.read_ndjson(trace)
        verdicts = ctx.judge("Trace_Archive", trace)
        base = len(all_events)
        for v in verdicts:
            if any(v.get("clause", "").startswith(p) for p in prefixes) or v.get("clause", "").startswith("OBS."):
                v = dict(v)
                v["i"] = v["i"] + base
                all_verdicts.append(v)
        drift += ctx.last_drift
        all_events.extend(events)
    ctx.extra["edges_replayed"] = ctx.extra.get("edges_replayed", 0) + edges_total
    ctx.extra["drift_events"] = ctx.extra.get("drift_events", 0) + drift
    obs = [v for v in all_verdicts if v["clause"].startswith("OBS.")]
    if obs:
        raise vlib.Inconclusive("harness observer disagrees with TLC's own ground truth: %s" % json.dumps(obs[:3]))
    return all_events, all_verdicts


def big_sets(ctx, prefixes, mode, n=None):
    """B direction: seeded large sets on the real code, ground truth by the independent observer,
    judged by Trace_ArchiveBig."""
    args = ["p2big"]
    if n:
        args += ["-n", str(n)]
    trace = ctx.drive(args, out_name="big-%s.ndjson" % mode)
    events = vlib.read_ndjson(trace)
    verdicts = ctx.judge("Trace_ArchiveBig", trace)
    inc = [v for v in verdicts if v["clause"].startswith("INC.")]
    if inc:
        vlib.log("note: %d 'singular' outcomes could not be decided (ambiguous missing set)" % len(inc))
        ctx.extra["undecidable_singular_events"] = len(inc)
    ctx.extra["big_scenarios"] = len(set(e["scn"] for e in events))
    ctx.extra["singular_outcomes_justified_by_tlc"] = sum(1 for e in events if e["res"]["err"] == "singular") - len(inc)
    return events, [v for v in verdicts if any(v["clause"].startswith(p) for p in prefixes)]


def pick_samples(events):
    out = []
    small = [e for e in events if e.get("ev") == "op"]
    big = [e for e in events if e.get("ev") == "bigop"]
    for sel in (lambda e: e["op"] == "verify", lambda e: e["op"] != "verify" and e["res"]["err"] == "",
                lambda e: e["op"] != "verify" and e["res"]["err"] != ""):
        for pool in (small, big):
            c = [e for e in pool if sel(e)]
            if c:
                out.append(c[len(c) // 2])
    return out[:6]


PAR1_QUICK = [("j1", "all"), ("j2", "few")]
PAR1_THOROUGH = [("j1", "all"), ("j2", "all"), ("j3", "few")]


def par1_family(ctx, prefixes, instances=None, big=True):
    """PAR1: design-level model checking of Par1Archive, replay of every Verify/Repair edge on
    the real par1 code, seeded larger sets; all judged by Trace_Par1."""
    if instances is None:
        instances = PAR1_THOROUGH if ctx.thorough else PAR1_QUICK
    all_events, all_verdicts = [], []
    drift = 0
    nedges = 0
    for inst, pos in instances:
        cfg = "MC_Par1_%s_%s.cfg" % (inst, pos)
        r = ctx.mc("MC_Par1", cfg, "Par1Archive instance %s/%s" % (inst, pos), workers=12, timeout=3000)
        insts, edges = r.tagged("INSTANCE"), r.tagged("EDGE")
        if not insts or not edges:
            raise vlib.Inconclusive("TLC emitted no instance/edges for " + cfg)
        if len(edges) > 40000:
            import random
            edges = random.Random(ctx.seed).sample(edges, 40000)
        nedges += len(edges)
        cases = ctx.work.path("cases1-%s.json" % inst)
        with open(cases, "w") as f:
            json.dump({"instance": insts[0], "edges": edges}, f)
        trace = ctx.drive(["p1edges", "-in", cases], out_name="edges1-%s.ndjson" % inst)
        events = vlib.read_ndjson(trace)
        verdicts = ctx.judge("Trace_Par1", trace)
        base = len(all_events)
        all_verdicts += [dict(v, i=v["i"] + base) for v in verdicts]
        drift += ctx.last_drift
        all_events += events
    if big:
        trace = ctx.drive(["p1big"], out_name="p1big.ndjson")
        events = vlib.read_ndjson(trace)
        verdicts = ctx.judge("Trace_Par1", trace)
        base = len(all_events)
        all_verdicts += [dict(v, i=v["i"] + base) for v in verdicts]
        all_events += events
        ctx.extra["par1_big_scenarios"] = len(set(e["scn"] for e in events))
        ctx.extra["par1_singular_outcomes_justified_by_tlc"] = sum(1 for e in events if e["res"]["err"] == "singular")
    ctx.extra["par1_edges_replayed"] = ctx.extra.get("par1_edges_replayed", 0) + nedges
    ctx.extra["par1_drift_events"] = ctx.extra.get("par1_drift_events", 0) + drift
    obs = [v for v in all_verdicts if v["clause"].startswith("OBS.")]
    if obs:
        raise vlib.Inconclusive("harness facts disagree with TLC's recomputation: %s" % json.dumps(obs[:3]))
    return all_events, [v for v in all_verdicts if any(v["clause"].startswith(p) for p in prefixes)]


def combine(*parts):
    """parts: (events, verdicts) pairs -> concatenated with shifted indices"""
    ev, vd = [], []
    for e, v in parts:
        base = len(ev)
        vd += [dict(x, i=x["i"] + base) for x in v]
        ev += e
    return ev, vd
