"""X04 (extension, not a listed property) - typestate of the exported par1.Encoder object.

TLC checks the E1_ clauses of spec/Par1EncoderObject.tla on every transition of the bounded model; recorded call
sequences of the real object (every sequence of up to 4 (5) steps over {modify an input, LoadFileData,
ComputeParityData, Write} after New, plus seeded random ones) are replayed through the model by
spec/Trace_Par1EncoderObject.tla; what each Write left on disk is projected onto the model's archive state with the
independent reference writer."""
import os, threading, time
import vlib

RULE = ("TLC explores every interleaving of input modifications with New / LoadFileData / ComputeParityData / Write and checks "
        "E1_OkWriteDescribesSnapshot, E1_PipelineComplete, E1_IncompleteOnlyByNamedDeviation, E1_TooEarlyNeverOk, E1_OnlyWriteWrites; "
        "every recorded call of the real par1.Encoder is replayed through the same actions (Trace_Par1EncoderObject): outcome class "
        "(ok / error / panic) and the projected archive (which input version the index describes, which version's parity "
        "the volumes hold, how many volume files) must equal the prediction, and the truth clauses must hold on the recorded values.")
ASSUME = ["the projection of the directory onto (desc version, parity version) uses the independent reference writer and field",
          "three small input files, two parity volumes"]


def judge_chunks(ctx, trace, k):
    lines = [l for l in open(trace) if l.strip()]
    starts = [i for i, l in enumerate(lines) if '"ev":"reset"' in l]
    if not starts:
        raise vlib.Inconclusive("no trace recorded")
    k = max(1, min(k, len(starts)))
    per = (len(starts) + k - 1) // k
    cuts = [starts[i] for i in range(0, len(starts), per)] + [len(lines)]
    results, errors = [None] * (len(cuts) - 1), []

    def work(c):
        try:
            d = ctx.work.sub("judge-enc1-%d" % c)
            p = os.path.join(d, "part.ndjson")
            with open(p, "w") as f:
                f.writelines(lines[cuts[c]:cuts[c + 1]])
            results[c] = vlib.judge(d, "Trace_Par1EncoderObject", p, timeout=1700)
        except Exception as e:     # noqa
            errors.append(e)
    ths = [threading.Thread(target=work, args=(c,)) for c in range(len(cuts) - 1)]
    t0 = time.time()
    for t in ths: t.start()
    for t in ths: t.join()
    if errors:
        raise errors[0] if isinstance(errors[0], vlib.Inconclusive) else vlib.Inconclusive(str(errors[0]))
    verdicts, total = [], 0
    for c, (vd, n, r) in enumerate(results):
        total += n
        for v in vd:
            v = dict(v); v["i"] = v["i"] + cuts[c]
            verdicts.append(v)
        ctx.tlc_cmds.append(r.cmd)
    ctx.events_judged += total
    vlib.log("[X04] judge Trace_Par1EncoderObject x%d: %d events, %d verdicts, %.1fs" % (len(cuts) - 1, total, len(verdicts), time.time() - t0))
    return verdicts


def selftest(ctx, ev):
    """corrupt one projected field / drop one recorded call and require the judge to reject"""
    import copy
    starts = [i for i, e in enumerate(ev) if e["ev"] == "reset"]
    tr = None
    for a, b in zip(starts, starts[1:] + [len(ev)]):
        t = ev[a:b]
        wi = [i for i, e in enumerate(t) if e["ev"] == "write" and e["out"] == "ok" and e["desc_ver"] == e["par_ver"]]
        ci = [i for i, e in enumerate(t) if e["ev"] == "compute" and e["out"] == "ok"]
        if wi and ci and ci[0] < wi[0]:
            tr, w0, c0 = t, wi[0], ci[0]
            break
    if tr is None:
        raise vlib.Inconclusive("selftest: no suitable trace")
    res = []

    def judge(t, name):
        d = ctx.work.sub("selftest-enc1-" + name)
        p = os.path.join(d, "part.ndjson")
        vlib.write_ndjson(p, t)
        vd, n, r = vlib.judge(d, "Trace_Par1EncoderObject", p, timeout=600)
        return vd
    t1 = copy.deepcopy(tr); t1[w0]["par_ver"] = -1                 # the volumes hold blocks of no recorded version
    t2 = copy.deepcopy(tr); del t2[c0]                              # ComputeParityData call not recorded
    for name, t, want in (("parity version unknown", t1, "X04."), ("Compute call dropped from the log", t2, "X04.")):
        vd = judge(t, name.split()[0])
        ok = any(v["clause"].startswith(want) for v in vd)
        vlib.log("[X04] selftest %s: %s" % (name, "rejected" if ok else "NOT REJECTED"))
        res.append({"module": "Trace_Par1EncoderObject", "corruption": name, "rejected": ok, "clauses": sorted({v["clause"] for v in vd})})
        if not ok:
            raise vlib.Inconclusive("binding self-test failed: %s accepted" % name)
    return res


def run(ctx):
    ctx.mc("MC_Par1EncoderObject", "MC_Par1EncoderObject.cfg", "encoder object model", workers=4, timeout=600)

    def once():
        out = ctx.drive(["p1encobj", "-n", "150" if not ctx.thorough else "2000"], out_name="p1encobj.ndjson")
        ev = vlib.read_ndjson(out)
        vd = judge_chunks(ctx, out, 8)
        if ctx.selftest and not ctx.extra.get("binding_selftest"):
            ctx.extra["binding_selftest"] = selftest(ctx, ev)
        ctx.traces = sum(1 for e in ev if e.get("ev") == "reset")
        ctx.extra["writes_observed"] = sum(1 for e in ev if e.get("ev") == "write")
        ctx.extra["inconsistent_sets_written_successfully"] = sum(1 for e in ev if e.get("ev") == "write" and e["out"] == "ok" and e["nvol"] > 0 and e["desc_ver"] != e["par_ver"])
        ctx.extra["index_only_sets_written_successfully"] = sum(1 for e in ev if e.get("ev") == "write" and e["out"] == "ok" and e["nvol"] == 0)
        ctx.extra["panics_predicted_and_observed"] = sum(1 for e in ev if e.get("out") == "panic")
        return ev, vd
    events, verdicts = once()
    ctx.samples = [e for e in events if e.get("ev") == "write"][:4]
    return ctx.finish(verdicts, events, RULE, ASSUME, rerun=once)
