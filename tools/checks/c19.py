"""C19 - Well-checksummed but inconsistent archives are rejected without crashing."""
import json, random
import vlib


RULE = ("TLC enumerates the mutation space: every numeric field of every PAR2 packet type (main slice size / recovery-set count, "
        "file description length, IFSC pair count, recovery exponent / data length) and of the PAR1 header and entries (volume "
        "number, file count, list offset / bytes, data offset / bytes, version; entry bytes, status, file bytes) x boundary values "
        "{0, 1, f-1, f+1, f-4, f+4, 256, 2^31, 2^32, 2^40, 2^62, 2^63, 2^64-1, remaining+-1}, removal / duplication of each packet "
        "type, duplicate / unsorted / extra / missing ids, wrong hashes, recovery data of the wrong size, x where (index, volumes, "
        "all), and classifies each as semantically valid or not; singles and seeded pairs are built by mutating reference writers "
        "that re-checksum consistently (file ids, set id, packet hashes, set hash, control hash) and run through the real Verify and "
        "Repair (data intact / the mutated file missing) in batch worker processes with an address-space limit; TLC judges: no crash, "
        "memory within base + 64 x (bytes present + declared slice size), every written file matches the archive's own declared hash "
        "and length, nothing else modified, valid mutants behave as valid archives.")
ASSUME = ["a worker dying of memory exhaustion while within the allowance (huge DECLARED slice size) is the sandbox's limit, not a violation",
          "memory is measured as growth of the worker's peak/current RSS over one case"]


def run(ctx):
    rnd = random.Random(ctx.seed)

    def once():
        r = ctx.mc("MC_C19", "MC_C19.cfg", "mutation space and validity classification", workers=4)
        muts = r.tagged("MUT")
        singles, related = [], []
        for m in muts:
            mm = m["m"]
            if mm["kind"] == "pair":     # two related fields extreme at once (enumerated by the model, not sampled)
                related.append([{"kind": "field", "fmt": mm["fmt"], "field": mm["field"], "value": mm["value"], "where": mm["where"]},
                                {"kind": "field", "fmt": mm["fmt"], "field": mm["field2"], "value": mm["value2"], "where": mm["where"]}])
                continue
            if mm["fmt"] == "par2" and mm["field"].startswith("recv.") and mm["where"] == "index":
                continue
            singles.append(({k: mm[k] for k in ("kind", "fmt", "field", "value", "where")}, m["valid"]))
        cases = []
        for mu, valid in singles:
            for d in ("intact", "one"):
                cases.append({"muts": [mu], "valid": valid, "data": d})
            if mu["field"] == "recv.exps_vdm_singular":
                cases.append({"muts": [mu], "valid": valid, "data": "two02"})      # the two slices whose constants make the system singular
        # counts and exponents again in a PAR2 world whose slice size is 4096 (allocations proportional to count x slice size)
        for mu, valid in singles:
            if mu["fmt"] == "par2" and mu["field"] in ("recv.exp", "main.nrecv", "ifsc.npairs", "ids.extra", "ids.dup", "dup.recv"):
                for d in ("intact", "one"):
                    cases.append({"muts": [mu], "valid": valid, "data": d, "big": True})
        # a volume that does not repeat the main packet (legal) combined with every recovery-packet mutation
        nomain = [mu for mu, valid in singles if mu["fmt"] == "par2" and mu["field"] == "remove.main" and mu["where"] == "volume"]
        for mu, valid in singles:
            if nomain and mu["fmt"] == "par2" and mu["field"].startswith("recv.") and mu["where"] in ("volume", "all"):
                for d in ("intact", "one"):
                    cases.append({"muts": [nomain[0], dict(mu, where="volume")], "valid": False, "data": d})
        for i, pr in enumerate(related):
            if ctx.thorough or i % 3 == ctx.seed % 3:       # quick: a third of the cross product, rotating with the seed
                cases.append({"muts": pr, "valid": False, "data": "intact"})
        npairs = 20000 if ctx.thorough else 700
        rr = random.Random(ctx.seed * 7 + 1)
        for _ in range(npairs):
            a, b = rr.choice(singles), rr.choice(singles)
            if a[0]["fmt"] != b[0]["fmt"] or a[0]["field"] == b[0]["field"]:
                continue
            b0 = dict(b[0]); b0["where"] = a[0]["where"]
            cases.append({"muts": [a[0], b0], "valid": False, "data": rr.choice(["intact", "one"])})
        cp = ctx.work.path("muts.ndjson")
        with open(cp, "w") as f:
            for c in cases:
                f.write(json.dumps(c) + "\n")
        t = ctx.drive(["c19", "-in", cp], out_name="c19.ndjson")
        ev = vlib.read_ndjson(t)
        ev.sort(key=lambda e: e["case"])
        vlib.write_ndjson(t, ev)
        vd = ctx.judge("Trace_C19", t)
        ctx.extra["single_mutants"] = len(singles)
        ctx.extra["cases_run"] = len(ev)
        ctx.extra["valid_mutants"] = sum(1 for e in ev if e["valid"])
        ctx.extra["workers_killed"] = sum(1 for e in ev if e["fatal"])
        ctx.extra["max_rss_growth_kb"] = max(e["rss_growth_kb"] for e in ev)
        return ev, vd
    events, verdicts = once()
    ctx.samples = [events[0], events[len(events) // 3], events[-1]]
    return ctx.finish(verdicts, events, RULE, ASSUME, rerun=once)
