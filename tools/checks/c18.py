"""C18 - I/O failures are reported, never swallowed, and never worsen the data."""
import vlib

RULE = ("design level: TLC enumerates operation shapes (format, op, files read, volume reads, files to write) x fault (call index x "
        "kind {error without effect, error after a partial write}) and checks on IOFaults.tla that a fault is reported, only writes "
        "before it completed, only a failing write can tear a file; conformance: for PAR1 and PAR2, Create / Verify / Repair on "
        "several archive states (intact, one missing, two damaged, one volume left, unrepairable, ...) run through an injecting file "
        "system (hook H2) on a real directory: a fault-free run gives the call count N, then one run per (index <= N, kind), and "
        "seeded pairs (fault, rerun with a fault, clean rerun); TLC validates the call log as a word of the operation's step "
        "language cut at the fault and judges: failure reported, failed write not listed as repaired, only the path being written "
        "(and completed exact writes) changed, clean rerun ends as a fault-free run whenever the torn file leaves enough capacity.")
ASSUME = ["the injected error is EIO (a file that does not exist is the only failure treated as damage)", "whole-file reads and writes (the interface gopar uses)"]


def run(ctx):
    ctx.mc("MC_C18", "MC_C18.cfg", "operation shapes x faults on the step-language model", workers=4)

    def once():
        t = ctx.drive(["c18"], out_name="c18.ndjson")
        ev = vlib.read_ndjson(t)
        return ev, ctx.judge("Trace_C18", t)
    events, verdicts = once()
    ctx.samples = [events[3], [e for e in events if e["fk"] == "partial"][2], [e for e in events if e["pair"]][0], [e for e in events if e["op"] == "create"][4]]
    ctx.extra["faults_injected"] = sum(1 for e in events if e["k"] > 0)
    ctx.extra["pairs"] = sum(1 for e in events if e["pair"])
    return ctx.finish(verdicts, events, RULE, ASSUME, rerun=once, exhaustive=True)
