"""C20 - The par command's exit status reflects the outcome."""
import json
import vlib

RULE = ("TLC enumerates {PAR1, PAR2, unknown extension} x {create, verify, repair in several spellings / cases} x archive state "
        "{intact, repairable, exactly at capacity, unrepairable, no parity + intact, no parity + damaged, misplaced files, damaged "
        "index, missing index} x invocation directory {set dir, parent, unrelated} x path spelling {relative, absolute} plus usage "
        "classes (no command, unknown command, unknown flag, unknown global flag, missing operand, -h); Cli.tla gives the admissible "
        "exit statuses; every case is run with the par binary built from the working tree on a freshly constructed directory whose "
        "ground truth (needed / possible / index ok) is derived from the bytes; TLC judges status, post-state and crash flag.")
ASSUME = ["'every other failure exits with another non-zero status' is read as: not 0 and not one of 1, 2, 3",
          "-h without a command may exit 0 or 3 (the property does not fix it)",
          "a Go panic exits 2: the event records the goroutine trace on stderr separately (clause C20.crashed)"]


def run(ctx):
    def once():
        r = ctx.mc("MC_C20", "MC_C20.cfg", "CLI case enumeration + admissible sets", workers=4)
        cases = r.tagged("CASE")
        cp = ctx.work.path("clicases.ndjson")
        with open(cp, "w") as f:
            for c in cases:
                f.write(json.dumps(c) + "\n")
        t = ctx.drive(["c20", "-par", ctx.par, "-in", cp], out_name="c20.ndjson")
        ev = vlib.read_ndjson(t)
        # order of the parallel driver is not deterministic: sort by case content for stable indices
        ev.sort(key=lambda e: json.dumps(e["c"], sort_keys=True) + json.dumps(e["argv"]))
        vlib.write_ndjson(t, ev)
        vd = ctx.judge("Trace_C20", t)
        obs = [v for v in vd if v["clause"].startswith("OBS.")]
        if obs:
            raise vlib.Inconclusive("constructed state differs from the model's table: %s" % [ev[v["i"] - 1]["c"] for v in obs[:3]])
        ctx.extra["cases_from_tlc"] = len(cases)
        return ev, [v for v in vd if v["clause"].startswith("C20.")]
    events, verdicts = once()
    ctx.samples = [events[0], events[len(events) // 3], events[-1]]
    return ctx.finish(verdicts, events, RULE, ASSUME, rerun=once, exhaustive=True)
