"""C15 - Archives cannot direct reads or writes outside the archive's directory."""
import json
import vlib

RULE = ("design level: for every name of up to 3 components over {x, y, .., ., empty, ..x, x.., ...} with/without leading and "
        "trailing separator TLC checks that gopar's two acceptance rules (PAR2: not absolute and cleaned name not starting with a "
        "dot; PAR1: name equals its base name) imply lexical containment (PAR1: or resolution to an existing directory); every name "
        "x position in a 1-3 entry set is written by the reference writers into an otherwise valid, fully repairable archive whose "
        "declared files are missing, inside a canary tree with decoys at the places an escaping name would resolve to; the real "
        "Verify and Repair run and the whole tree is snapshotted; PAR2 Create is given inputs inside / in a sibling / in the parent / "
        "via .. spellings / absolute elsewhere.  TLC asserts nothing outside the archive's tree (PAR1: directory) was touched.")
ASSUME = ["lexical resolution (no symbolic links in the tree)", "ASCII names for PAR2; absolute names point into the canary tree"]


def run(ctx):
    def once():
        r = ctx.mc("MC_C15", "MC_C15.cfg", "acceptance rules imply containment for every name", workers=4)
        names = r.tagged("NAME")
        np_ = ctx.work.path("names.ndjson")
        with open(np_, "w") as f:
            for n in names:
                f.write(json.dumps(n) + "\n")
        t = ctx.drive(["c15", "-in", np_], out_name="c15.ndjson")
        ev = vlib.read_ndjson(t)
        vd = ctx.judge("Trace_C15", t)
        ctx.extra["names_from_tlc"] = len(names)
        ctx.extra["accepted_and_written"] = sum(1 for e in ev if e["repaired"])
        ctx.extra["acceptance_drift"] = sum(1 for e in ev if e["ev"] in ("par1", "par2") and e["accept_model"] and e["verify_err"] == "other" and "name" in e["errtext"])
        return ev, [v for v in vd if v["clause"].startswith("C15.")]
    events, verdicts = once()
    ctx.samples = [events[0], events[len(events) // 2], [e for e in events if e["repaired"]][0], events[-1]]
    return ctx.finish(verdicts, events, RULE, ASSUME, rerun=once, exhaustive=ctx.thorough)
