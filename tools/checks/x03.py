"""X03 (extension, not a listed property) - typestate of the exported par1.Decoder object.

  ./check X03 [quick|thorough]

TLC checks the object-level truth layer (OT_ clauses of spec/Par1Object.tla) on every transition of
the bounded object model; recorded call sequences of the real object (methods in any order, the
directory changing in between) are then replayed through the actions of the same module by
spec/Trace_Par1Object.tla (refinement: predicted result = returned result, predicted directory =
directory found; truth clauses on the recorded values)."""
import json, os, threading, time
import vlib

RULE = ("TLC explores every interleaving of New / LoadFileData / LoadParityData / FileCounts / VerifyAllData / Repair with directory changes "
        "on the bounded instances and checks OT1_WriteDiscipline, OT1_ListedMeansWritten, OT1_VolumesUntouched, OT1_CountsTruthfulAtLoad, "
        "OT1_WithinSnapshotCapacity, OT1_TooEarlyWritesNothing, OT1_FailureChangesNothing, OT1_SuccessSticks, OT1_VerifyAllTruthful; every "
        "recorded call of the real par1.Decoder is replayed through the same actions (Trace_Par1Object): a call is rejected when "
        "its result or the directory afterwards differs from the prediction or a truth clause fails on the recorded values.")
ASSUME = ["the index file is intact (damaged archives: C13, C19)",
          "the object is used from one goroutine (its methods are not documented as concurrency-safe)"]


def judge_chunks(ctx, trace, inst_file, k):
    """contiguous split at 'reset' events (the judge is stateful within a trace)"""
    lines = [l for l in open(trace) if l.strip()]
    body = lines[1:]                       # line 1 is the instance event
    starts = [i for i, l in enumerate(body) if '"ev":"reset"' in l]
    if not starts:
        raise vlib.Inconclusive("no trace recorded")
    k = max(1, min(k, len(starts)))
    per = (len(starts) + k - 1) // k
    cuts = [starts[i] for i in range(0, len(starts), per)] + [len(body)]
    results, errors = [None] * (len(cuts) - 1), []

    def work(c):
        try:
            d = ctx.work.sub("judge-obj1-%d" % c)
            p = os.path.join(d, "part.ndjson")
            with open(p, "w") as f:
                f.writelines(body[cuts[c]:cuts[c + 1]])
            results[c] = vlib.judge(d, "Trace_Par1Object", p, extra_files=(inst_file,), timeout=1700)
        except Exception as e:     # noqa
            errors.append(e)
    ths = [threading.Thread(target=work, args=(c,)) for c in range(len(cuts) - 1)]
    t0 = time.time()
    for t in ths: t.start()
    for t in ths: t.join()
    if errors:
        raise errors[0] if isinstance(errors[0], vlib.Inconclusive) else vlib.Inconclusive(str(errors[0]))
    verdicts, total = [], 0
    for c, (vd, n, r) in enumerate(results):
        total += n
        for v in vd:
            v = dict(v); v["i"] = v["i"] + cuts[c] + 1      # 1-based index into the whole trace (instance line = 1)
            verdicts.append(v)
        ctx.tlc_cmds.append(r.cmd)
    ctx.events_judged += total
    vlib.log("[X03] judge Trace_Par1Object x%d: %d events, %d verdicts, %.1fs" % (len(cuts) - 1, total, len(verdicts), time.time() - t0))
    return verdicts


def selftest(ctx, ev, instf):
    """corrupt one recorded field / drop one recorded call and require the judge to reject"""
    res = []
    body = ev[1:]
    starts = [i for i, e in enumerate(body) if e["ev"] == "reset"]
    # a trace with a loaded object, a counts call and a successful repair that wrote something
    for a, b in zip(starts, starts[1:] + [len(body)]):
        tr = body[a:b]
        ci = [i for i, e in enumerate(tr) if e["ev"] == "counts" and e["usable"] > 0]
        ri = [i for i, e in enumerate(tr) if e["ev"] == "repair" and e["err"] == "" and e["repaired"]]
        li = [i for i, e in enumerate(tr) if e["ev"] == "loadfile"]
        if ci and ri and li:
            break
    else:
        raise vlib.Inconclusive("selftest: no suitable trace")
    import copy
    def judge(tr2, name):
        d = ctx.work.sub("selftest-obj1-" + name)
        p = os.path.join(d, "part.ndjson")
        vlib.write_ndjson(p, tr2)
        vd, n, r = vlib.judge(d, "Trace_Par1Object", p, extra_files=(instf,), timeout=600)
        return vd
    t1 = copy.deepcopy(tr); t1[ci[0]]["usable"] += 1
    t2 = copy.deepcopy(tr); f = t2[ri[0]]["repaired"][0]; t2[ri[0]]["post"][f] = [2, 2, 2, 2, 2, 2, 2, 2, 2]
    t3 = copy.deepcopy(tr); del t3[li[0]]            # the hook-removal analogue: one call not recorded
    for name, t, want in (("count+1", t1, "X03.conf.counts"), ("written bytes differ", t2, "X03.truth.listed_means_restored"),
                          ("LoadFileData call dropped from the log", t3, "X03.conf.")):
        vd = judge(t, name.split()[0].replace("+", "p"))
        ok = any(v["clause"].startswith(want) for v in vd)
        vlib.log("[X03] selftest %s: %s" % (name, "rejected" if ok else "NOT REJECTED"))
        res.append({"module": "Trace_Par1Object", "corruption": name, "rejected": ok, "clauses": sorted({v["clause"] for v in vd})})
        if not ok:
            raise vlib.Inconclusive("binding self-test failed: %s accepted" % name)
    return res


def run(ctx):
    insts = ["j1"] if not ctx.thorough else ["j1", "j2"]
    inst_lines = {}
    for i in insts:
        cfg = "MC_Par1Object_%s.cfg" % i
        r = ctx.mc("MC_Par1Object", cfg, "object model %s" % i, workers=12, timeout=2400)
        inst_lines[i] = r.tagged("INSTANCE")[0]

    def once():
        events, verdicts = [], []
        for i, inst in inst_lines.items():
            cases = ctx.work.path("obj1cases-%s.json" % i)
            with open(cases, "w") as f:
                json.dump({"instance": inst, "edges": []}, f)
            n = 150 if not ctx.thorough else 1500
            out = ctx.drive(["p1objtrace", "-in", cases, "-n", str(n), "-len", "14"], out_name="obj1-%s.ndjson" % i)
            ev = vlib.read_ndjson(out)
            if not ev or ev[0].get("ev") != "instance":
                raise vlib.Inconclusive("p1objtrace wrote no instance event")
            instf = ctx.work.path("instance.ndjson")
            with open(instf, "w") as f:
                f.write(json.dumps(ev[0]) + "\n")
            vd = judge_chunks(ctx, out, instf, 8)
            if ctx.selftest and not ctx.extra.get("binding_selftest"):
                ctx.extra["binding_selftest"] = selftest(ctx, ev, instf)
            base = len(events)
            for v in vd:
                v = dict(v); v["i"] += base
                verdicts.append(v)
            events.extend(ev)
            ctx.traces += sum(1 for e in ev if e.get("ev") == "reset")
        return events, verdicts
    events, verdicts = once()
    ctx.samples = [e for e in events if e.get("ev") == "repair"][:3]
    return ctx.finish(verdicts, events, RULE, ASSUME, rerun=once)
