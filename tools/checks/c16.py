"""C16 - Slices are found at any byte offset, so edits cost only the slices they touch."""
import json
import vlib
from checks import archive

RULE = ("design level: TLC enumerates every original file over {0,1} of the given lengths x every insertion (every position, "
        "length 1..6, two fill bytes) x every deletion (every position/length) and checks Survivors <= greedy-scan Found <= "
        "Occurring, 'untouched slices still occur' and 'missed only if overlapped'; A: every such case is run on the real "
        "par2.Verify (usable count within TLC's own bounds, equal to the model's greedy count = no drift) and par2.Repair with "
        "exactly as many recovery blocks as non-surviving slices; B: random content for S in {4,8,12,16,20,64,100,2000}, file "
        "length 3S+r over the residues r, edit positions across the file, edit lengths 1..S+3, and content moved to another "
        "protected name; judged by TLC (C16.survivors_counted, C16.repair_uses_survivors).")
ASSUME = ["MD5/CRC32 idealised as injective", "on random content spurious overlapping matches do not occur, so Survivors = slices the edit does not overlap"]


def run(ctx):
    def once():
        cfg = "MC_C16_thorough.cfg" if ctx.thorough else "MC_C16_quick.cfg"
        r = ctx.mc("MC_C16", cfg, "scan model: all originals x all edits", workers=14, timeout=3000)
        cases = r.tagged("CASE")
        if not cases:
            raise vlib.Inconclusive("TLC emitted no cases")
        cpath = ctx.work.path("c16cases.ndjson")
        with open(cpath, "w") as f:
            for c in cases:
                f.write(json.dumps(c) + "\n")
        ta = ctx.drive(["c16a", "-in", cpath], out_name="c16a.ndjson")
        ea = vlib.read_ndjson(ta)
        va = ctx.judge("Trace_Archive", ta)
        ctx.extra["cases_from_tlc"] = len(cases)
        ctx.extra["drift_events"] = ctx.last_drift
        obs = [v for v in va if v["clause"].startswith("OBS.")]
        if obs:
            raise vlib.Inconclusive("observer disagrees with TLC: %s" % json.dumps(obs[:3]))
        tb = ctx.drive(["c16b"], out_name="c16b.ndjson")
        eb = vlib.read_ndjson(tb)
        vb = ctx.judge("Trace_ArchiveBig", tb)
        sel = lambda vs: [v for v in vs if v["clause"].startswith("C16.")]
        return archive.combine((ea, sel(va)), (eb, sel(vb)))
    events, verdicts = once()
    ctx.samples = [events[0], events[1], events[len(events) // 2], events[-2], events[-1]]
    return ctx.finish(verdicts, events, RULE, ASSUME, rerun=once)
