"""C07 - Reed-Solomon coder recovers any erasure pattern within the code's capability."""
import json
import vlib
from checks import archive

RULE = ("design level: TLC runs the transcribed ReconstructData (RSCoder.tla over Matrix.tla and the real GF(2^16)) for every "
        "(d <= MaxD, p <= MaxP), both coders and every availability pattern of data and parity shards with unit-vector data "
        "(complete by linearity) and checks nil=>original, too-few<=>typed error, Cauchy always, Vandermonde iff solvable, "
        "Cauchy MDS, plus the specification's facts about its constants; A: every pattern is replayed on the real rsec16 "
        "with random data at several shard lengths / goroutine counts (tiny shards: TLC also recomputes every parity word); "
        "B: seeded codes up to (3000, 64) / (300, 300), erasure sets around the capability with non-contiguous parity, the "
        "format's singular combinations found by search (TLC recomputes every determinant from the definitions).")
ASSUME = ["restored/supplied-unchanged are byte comparisons made by the harness", "k <= 48 missing shards in the seeded codes so that TLC's determinant stays cheap"]


def run(ctx):
    def once():
        r = ctx.mc("MC_C07", "MC_C07_thorough.cfg" if ctx.thorough else "MC_C07_quick.cfg", "RS coder, all erasure patterns", workers=14, timeout=3000)
        cases = r.tagged("CASE")
        if not cases:
            raise vlib.Inconclusive("no cases from TLC")
        cp = ctx.work.path("c07cases.ndjson")
        with open(cp, "w") as f:
            for c in cases:
                f.write(json.dumps(c) + "\n")
        ta = ctx.drive(["c07a", "-in", cp], out_name="c07a.ndjson")
        ea = vlib.read_ndjson(ta)
        va = ctx.judge("Trace_C07", ta)
        drift = ctx.last_drift
        tb = ctx.drive(["c07b"], out_name="c07b.ndjson")
        eb = vlib.read_ndjson(tb)
        vb = ctx.judge("Trace_C07", tb)
        # configurations: the coder must not depend on GOMAXPROCS (tables and matrices built at initialisation / construction)
        tp = ctx.drive(["c07b"], out_name="c07b-procs3.ndjson", env_extra={"GOMAXPROCS": "3"})
        ep = vlib.read_ndjson(tp)
        vp = ctx.judge("Trace_C07", tp)
        eb, vb = archive.combine((eb, vb), (ep, vp))
        ctx.extra["cases_from_tlc"] = len(cases)
        ctx.extra["drift_events"] = drift
        ctx.extra["singular_outcomes_justified_by_tlc"] = sum(1 for e in ea + eb if e["err"] == "singular")
        return archive.combine((ea, va), (eb, vb))
    events, verdicts = once()
    small = dict(events[5]); 
    ctx.samples = [small, events[len(events) // 2], [e for e in events if e["err"] == "singular"][:1], events[-1]]
    return ctx.finish(verdicts, events, RULE, ASSUME, rerun=once)
