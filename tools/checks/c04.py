"""C04 - PAR1 create / verify / repair round trip."""
import vlib
from checks import archive

RULE = ("A: TLC exhausts Par1Archive (GF(2^8)/0x11D, files as shards, volume v = row [i^(v-1)]) on bounded instances "
        "(every damage-menu state x every subset of volumes, empty files next to non-empty ones, duplicate contents) and "
        "every Verify/Repair transition is replayed on archives written by the real par1.Create; B: seeded larger sets "
        "(up to 40 files, up to 99 volumes, Unicode names incl. surrogate pairs, sizes around 16 KiB, loss patterns none / "
        "exactly capacity / capacity+1 / all volumes, a constructed singular case).  Judged by Trace_Par1: counts_are_truth, "
        "untouched_is_clean (incl. full parity check), within_capacity (singular only with TLC's own zero determinant), "
        "ok_implies_restored.")
ASSUME = ["MD5 idealised as injective", "index and volume files are intact or deleted here (damaged ones: C13)",
          "only usable counts and unusable data counts are judged (unusable parity count is inferred from gaps by design)"]


def run(ctx):
    def once():
        return archive.par1_family(ctx, ["C04.", "C13.no_panic"])
    events, verdicts = once()
    ctx.samples = [events[0], events[len(events) // 3], events[-1]]
    return ctx.finish(verdicts, events, RULE, ASSUME, rerun=once)
