"""C12 - Coding results do not depend on goroutine count or scheduling."""
import json, os, random, subprocess
import vlib

RULE = ("design level: TLC explores every interleaving of the worker pool model (Parallel.tla: one step per kernel call, "
        "barrier) for several (bytes, goroutines, rows, inputs), checking Static, RaceFree, Result, OverwriteFirst and "
        "<>joined under fairness, and StaticOK for every (len <= 512 even, g <= 40); A: every maximal path of the small "
        "graphs (all interleavings) and seeded random maximal paths of the larger ones are forced on the real goroutines "
        "through the gate hook, bytes compared after every step; B: the real partition ranges for a (len, g) grid are "
        "validated against the spec; C: the ungated grid runs under the Go race detector with several GOMAXPROCS and is "
        "compared with one goroutine; D: par2.Create/Repair byte-identical for g in {1,2,3,7,16,64}.  distinct = distinct events.")
ASSUME = ["a kernel call is atomic with respect to the other workers (disjoint ranges make this immaterial; the race "
          "detector run checks it on the real code)", "the gate hook blocks a worker immediately before each kernel call"]


def all_paths(edges, n, calls, limit):
    """all maximal paths of the progress lattice (all interleavings) as worker sequences"""
    succ = {}
    for e in edges:
        succ.setdefault(tuple(e["from"]), set()).add((e["w"], tuple(e["to"])))
    start = tuple([0] * n)
    out = []
    stack = [(start, [])]
    while stack:
        st, path = stack.pop()
        nx = succ.get(st)
        if not nx:
            out.append(path)
            if len(out) > limit:
                return None
            continue
        for w, to in sorted(nx):
            stack.append((to, path + [w]))
    return out


def random_paths(edges, n, k, rnd):
    succ = {}
    for e in edges:
        succ.setdefault(tuple(e["from"]), set()).add((e["w"], tuple(e["to"])))
    out = []
    for _ in range(k):
        st, path = tuple([0] * n), []
        while st in succ:
            w, st = rnd.choice(sorted(succ[st]))
            path.append(w)
        out.append(path)
    # adversarial shapes: one worker runs to completion first / last, round robin
    return out


def tlaps(ctx):
    """Re-proves spec/proofs/PartitionProof.tla (unbounded len, g) with tlapm in a scratch copy."""
    import shutil, re
    d = ctx.work.sub("tlaps")
    shutil.copy(os.path.join(vlib.SPEC, "proofs", "PartitionProof.tla"), d)
    try:
        p = subprocess.run(["tlapm", "--threads", "8", "--cleanfp", "PartitionProof.tla"], cwd=d, stdout=subprocess.PIPE,
                           stderr=subprocess.STDOUT, timeout=600)
    except (subprocess.TimeoutExpired, FileNotFoundError) as e:
        raise vlib.Inconclusive("tlapm: %s" % e)
    out = p.stdout.decode("utf-8", "replace")
    m = re.search(r"All (\d+) obligations proved", out)
    if not m:
        raise vlib.Inconclusive("tlapm did not prove PartitionProof:\n" + out[-1500:])
    ctx.extra["tlaps"] = {"module": "spec/proofs/PartitionProof.tla", "obligations": int(m.group(1)), "discharged": int(m.group(1)),
                          "checker_cmd": "tlapm --threads 8 --cleanfp PartitionProof.tla",
                          "theorems": ["AtMostG", "NonEmptyAndInside", "Disjoint", "Cover", "Aligned"]}
    vlib.log("[C12] tlapm: all %s obligations proved" % m.group(1))


def run(ctx):
    tlaps(ctx)

    def once():
        rnd = random.Random(ctx.seed)      # inside: a re-run must force the same random schedules
        events_all = []
        traces = []
        ctx.mc("MC_ParallelGrid", "MC_ParallelGrid.cfg", "partition static properties for every (len<=512, g<=40)", workers=12)
        cfgs = ["w3", "w2", "w1", "w5"] + (["w4"] if ctx.thorough else ["w4"])
        nsched = 0
        for c in cfgs:
            r = ctx.mc("MC_Parallel", "MC_Parallel_%s.cfg" % c, "worker pool interleavings " + c, workers=8)
            params = r.tagged("PARAMS")[0]
            edges = r.tagged("EDGE")
            lim = 40000 if not ctx.thorough else 400000
            paths = all_paths(edges, params["n"], params["rows"] * params["ins"], lim)
            exhaustive = paths is not None
            if paths is None:
                paths = random_paths(edges, params["n"], 6000 if ctx.thorough else 1500, rnd)
            nsched += len(paths)
            ctx.extra.setdefault("schedule_sets", []).append({"cfg": c, "params": params, "schedules": len(paths), "all_interleavings": exhaustive})
            inp = ctx.work.path("sched-%s.json" % c)
            with open(inp, "w") as f:
                json.dump({"params": params, "schedules": paths}, f)
            traces.append(ctx.drive(["c12sched", "-in", inp], out_name="sched-%s.ndjson" % c))
        traces.append(ctx.drive(["c12grid"], out_name="grid.ndjson"))
        # race detector runs (separate -race build), several GOMAXPROCS
        races = []
        for gm in ([1, 2, 4, 16] if ctx.thorough else [2, 16]):
            out = ctx.work.path("race-%d.ndjson" % gm)
            env = vlib.go_env()
            env["GORACE"] = "halt_on_error=0 exitcode=0"
            p = subprocess.run([ctx.vhrace, "c12grid", "-ranges=false", "-gomaxprocs", str(gm), "-out", out, "-tier", ctx.tier,
                                "-seed", str(ctx.seed), "-dir", ctx.work.sub("sandbox")], env=env, stdout=subprocess.PIPE,
                               stderr=subprocess.PIPE, timeout=3000)
            if p.returncode != 0:
                raise vlib.Inconclusive("race-build grid failed: " + p.stderr.decode("utf-8", "replace")[-2000:])
            n = p.stderr.decode("utf-8", "replace").count("WARNING: DATA RACE")
            ev = vlib.read_ndjson(out)
            ev.append({"ev": "race", "gomaxprocs": gm, "races": n, "report": p.stderr.decode("utf-8", "replace")[:3000] if n else ""})
            vlib.write_ndjson(out, ev)
            traces.append(out)
        merged = ctx.work.path("c12-all.ndjson")
        for t in traces:
            events_all += vlib.read_ndjson(t)
        vlib.write_ndjson(merged, events_all)
        verdicts = ctx.judge("Trace_C12", merged)
        ctx.extra["schedules_forced_on_goroutines"] = nsched
        return events_all, verdicts

    events, verdicts = once()
    sch = [e for e in events if e["ev"] == "sched"]
    ctx.samples = [sch[0], sch[len(sch) // 2], [e for e in events if e["ev"] == "ranges"][37],
                   [e for e in events if e["ev"] == "gresult"][5], [e for e in events if e["ev"] == "race"][0],
                   [e for e in events if e["ev"] == "gcompare"][0]]
    return ctx.finish(verdicts, events, RULE, ASSUME, rerun=once, traces=len(sch))
