"""Shared machinery for the /verif checks: TLC runner, harness builder, trace judging,
known findings, evidence and replay files.  Standard library only.

Rule (DESIGN.md section 1): verdicts are produced only by TLC evaluating the TLA+
specification; this file only orchestrates, parses TLC output and does the bookkeeping.
"""
import json, os, re, shutil, subprocess, sys, time, hashlib, random

VERIF = os.path.dirname(os.path.dirname(os.path.abspath(__file__)))
REPO = os.environ.get("VERIF_REPO", "/repo")
SPEC = os.path.join(VERIF, "spec")
HARNESS = os.path.join(VERIF, "harness")
JAR = "/opt/veriftools/tla/tla2tools.jar:/opt/veriftools/tla/CommunityModules-deps.jar"

GOENV = dict(GOFLAGS="-mod=mod", GOPROXY="off", GOSUMDB="off", GOTOOLCHAIN="local")


class Inconclusive(Exception):
    """Tool failure, timeout, dead driver: exit 2, never a violation."""


class CodeCrash(Exception):
    """The harness process was killed by a panic / fatal runtime error whose crashing goroutine is in the code under
    test (github.com/akalin/gopar/...), where no recover() of the harness can reach."""

    def __init__(self, signature, text, cmd):
        Exception.__init__(self, signature)
        self.signature, self.text, self.cmd = signature, text, cmd


def classify_crash(stderr):
    """Returns a signature if the Go crash dump blames the code under test, else None.
    The crashing goroutine's stack comes first; its first frame outside the Go runtime decides."""
    m = re.search(r"^(panic: [^\n]*|fatal error: [^\n]*)", stderr, re.M)
    if not m:
        return None
    head = m.group(1)
    if "out of memory" in head or "cannot allocate" in head:
        return None
    rest = stderr[m.end():]
    g = re.search(r"^goroutine \d+[^\n]*:\n", rest, re.M)
    if not g:
        return None
    stack = rest[g.end():].split("\n\n")[0]
    funcs = [ln.split("(")[0].strip() for ln in stack.splitlines() if ln and not ln.startswith("\t")]
    for f in funcs:
        if f.startswith("runtime.") or f.startswith("panic(") or f.startswith("sync.") or f.startswith("internal/") or f.startswith("created by"):
            continue
        if f.startswith("github.com/akalin/gopar/"):
            return re.sub(r"0x[0-9a-f]+", "0x..", head)[:160] + " @ " + f
        return None
    if "all goroutines are asleep" in head:
        # a deadlock has no running goroutine: blame the code under test if any blocked goroutine is inside it
        if "github.com/akalin/gopar/" in rest:
            f = re.search(r"^(github\.com/akalin/gopar/[^\s(]+)", rest, re.M)
            return head[:160] + " @ " + (f.group(1) if f else "?")
    return None


def log(*a):
    print(*a, file=sys.stderr, flush=True)


def seed():
    try:
        return int(os.environ.get("VERIF_SEED", "1"))
    except ValueError:
        return 1


# ------------------------------------------------------------------------------------------
# work directories
# ------------------------------------------------------------------------------------------
class Work:
    def __init__(self, pid):
        self.dir = os.path.join(os.environ.get("VERIF_WORK_DIR") or os.path.join(VERIF, ".work"), "%s-%d" % (pid, os.getpid()))
        shutil.rmtree(self.dir, ignore_errors=True)
        os.makedirs(self.dir)

    def path(self, *p):
        return os.path.join(self.dir, *p)

    def sub(self, name):
        d = self.path(name)
        os.makedirs(d, exist_ok=True)
        return d

    def cleanup(self):
        if os.environ.get("VERIF_KEEP"):
            log("keeping", self.dir)
            return
        subprocess.call(["chmod", "-R", "u+rwx", self.dir], stderr=subprocess.DEVNULL)
        shutil.rmtree(self.dir, ignore_errors=True)


# ------------------------------------------------------------------------------------------
# TLC
# ------------------------------------------------------------------------------------------
class TlcResult:
    def __init__(self, out, rc, wall):
        self.out = out
        self.rc = rc
        self.wall = wall
        self.states = 0        # distinct states
        self.generated = 0     # states generated (= transitions taken + initial)
        self.lines = out.splitlines()
        m = re.findall(r"(\d+) states generated, (\d+) distinct states found", out)
        if m:
            self.generated, self.states = int(m[-1][0]), int(m[-1][1])
        self.ok = ("Model checking completed. No error has been found" in out) or \
                  ("Finished computing initial states" in out and rc == 0)
        self.invariant_violated = re.findall(r"Invariant (\S+) is violated", out)
        self.property_violated = re.findall(r"(?:Temporal properties were violated|Action property (\S+) is violated)", out)

    def tagged(self, tag):
        """Lines printed by the spec with PrintT("<tag> " \\o json): returns parsed JSON."""
        res = []
        pre = '"' + tag + " "
        pre2 = tag + " "
        for ln in self.lines:
            s = ln.strip()
            if s.startswith(pre) and s.endswith('"'):
                # PrintT of a string prints it quoted with escapes
                try:
                    res.append(json.loads(json.loads(s)[len(tag) + 1:]))
                except Exception:
                    pass
            elif s.startswith(pre2):
                try:
                    res.append(json.loads(s[len(pre2):]))
                except Exception:
                    pass
        # TLC's workers print in a nondeterministic order; drivers derive per-case choices (goroutine count,
        # random data, hooked or public API) from the position of a case, and a verdict is only reported when a
        # complete re-run reproduces the same event -> the order must be canonical.
        res.sort(key=lambda x: json.dumps(x, sort_keys=True))
        return res


def tlc(workdir, module, cfg=None, workers=8, timeout=900, extra=(), xmx="6g", simulate=None,
        depth=None, tlc_seed=None, deadlock=False, coverage=False, copy=()):
    """Run TLC on spec/<module>.tla (copied with every spec/*.tla into workdir)."""
    os.makedirs(workdir, exist_ok=True)
    for f in os.listdir(SPEC):
        if f.endswith(".tla") or f.endswith(".cfg"):
            shutil.copy(os.path.join(SPEC, f), workdir)
    for f in copy:
        shutil.copy(f, workdir)
    meta = os.path.join(workdir, "meta-%s-%d" % (module, int(time.time() * 1000) % 100000000))
    cmd = ["java", "-XX:+UseParallelGC", "-XX:ParallelGCThreads=2", "-Xms256m", "-Xmx" + xmx,
           "-Xmn64m", "-Xss512m", "-cp", JAR, "tlc2.TLC", "-metadir", meta,
           "-workers", str(workers), "-noGenerateSpecTE"]
    if cfg:
        cmd += ["-config", cfg]
    if not deadlock:
        cmd += ["-deadlock"]
    if coverage:
        cmd += ["-coverage", "1"]
    if simulate:
        cmd += ["-simulate", simulate]
        if depth:
            cmd += ["-depth", str(depth)]
    if tlc_seed is not None:
        cmd += ["-seed", str(tlc_seed)]
    cmd += list(extra)
    cmd += [module]
    t0 = time.time()
    env = dict(os.environ)
    env.pop("JAVA_TOOL_OPTIONS", None)
    try:
        p = subprocess.run(cmd, cwd=workdir, stdout=subprocess.PIPE, stderr=subprocess.STDOUT,
                           timeout=timeout, env=env)
    except subprocess.TimeoutExpired:
        subprocess.call(["pkill", "-f", "tlc2.TL[C].*" + re.escape(meta)])
        raise Inconclusive("TLC timeout on %s after %ds" % (module, timeout))
    out = p.stdout.decode("utf-8", "replace")
    shutil.rmtree(meta, ignore_errors=True)
    r = TlcResult(out, p.returncode, time.time() - t0)
    r.cmd = " ".join(cmd[cmd.index("tlc2.TLC"):])
    return r


def tlc_must_pass(r, what):
    """A design-level run must complete without error; otherwise the machinery is broken
    (these runs never read /repo) -> inconclusive, not a violation."""
    if not r.ok or r.rc != 0:
        tail = "\n".join(r.lines[-40:])
        raise Inconclusive("TLC run '%s' did not complete cleanly (rc=%d):\n%s" % (what, r.rc, tail))


# ------------------------------------------------------------------------------------------
# harness (Go) built against /repo's working tree with -tags verif
# ------------------------------------------------------------------------------------------
def go_env():
    env = dict(os.environ)
    env.update(GOENV)
    return env


def build_harness(work, race=False, tags="verif"):
    """Builds harness/cmd/vh against the *current* /repo working tree.  (VERIF_REPO=<dir> points the
    build at another checkout through an alternative go.mod; used only to evaluate seeded changes
    in scratch worktrees without touching /repo.)"""
    out = work.path("vh-race" if race else "vh")
    cmd = ["go", "build", "-tags", tags, "-o", out]
    if race:
        cmd.append("-race")
    sync_gosum()
    if os.path.abspath(REPO) != "/repo":
        alt = work.path("alt.mod")
        with open(os.path.join(HARNESS, "go.mod")) as f:
            mod = f.read().replace("=> /repo", "=> " + os.path.abspath(REPO))
        with open(alt, "w") as f:
            f.write(mod)
        shutil.copy(os.path.join(REPO, "go.sum"), work.path("alt.sum"))
        cmd += ["-modfile", alt]
    cmd.append("./cmd/vh")
    p = subprocess.run(cmd, cwd=HARNESS, env=go_env(), stdout=subprocess.PIPE, stderr=subprocess.STDOUT)
    if p.returncode != 0:
        raise Inconclusive("harness build failed:\n" + p.stdout.decode("utf-8", "replace"))
    return out


def build_par(work, tags="verif"):
    out = work.path("par")
    p = subprocess.run(["go", "build", "-tags", tags, "-o", out, "./cmd/par"], cwd=REPO, env=go_env(),
                       stdout=subprocess.PIPE, stderr=subprocess.STDOUT)
    if p.returncode != 0:
        raise Inconclusive("par build failed:\n" + p.stdout.decode("utf-8", "replace"))
    return out


def sync_gosum():
    if os.path.abspath(REPO) != "/repo":
        return
    src = os.path.join(REPO, "go.sum")
    dst = os.path.join(HARNESS, "go.sum")
    try:
        if not os.path.exists(dst) or open(src, "rb").read() != open(dst, "rb").read():
            # harness go.sum = repo go.sum (+ nothing else: stdlib only)
            shutil.copy(src, dst)
    except OSError:
        pass


def run_vh(vh, args, timeout=1800, stdin=None, env_extra=None, cwd=None):
    env = go_env()
    if env_extra:
        env.update(env_extra)
    t0 = time.time()
    try:
        p = subprocess.run([vh] + list(args), stdout=subprocess.PIPE, stderr=subprocess.PIPE,
                           timeout=timeout, input=stdin, env=env, cwd=cwd)
    except subprocess.TimeoutExpired:
        raise Inconclusive("harness timeout: vh %s" % " ".join(args))
    if p.returncode != 0:
        sig = classify_crash(p.stderr.decode("utf-8", "replace"))
        if sig:
            raise CodeCrash(sig, p.stderr.decode("utf-8", "replace")[-6000:], "vh " + " ".join(args))
        raise Inconclusive("harness failed (rc=%d): vh %s\n%s" % (
            p.returncode, " ".join(args), p.stderr.decode("utf-8", "replace")[-4000:]))
    return p.stdout.decode("utf-8", "replace"), p.stderr.decode("utf-8", "replace"), time.time() - t0


# ------------------------------------------------------------------------------------------
# trace judging
# ------------------------------------------------------------------------------------------
def read_ndjson(path):
    with open(path) as f:
        return [json.loads(l) for l in f if l.strip()]


def write_ndjson(path, events):
    with open(path, "w") as f:
        for e in events:
            f.write(json.dumps(e, separators=(",", ":")) + "\n")


def judge(workdir, module, trace_path, timeout=1800, xmx="8g", cfg=None, extra_files=()):
    """Runs the trace specification <module> over the ndjson trace.  The trace spec prints
    VERDICT {"i":..,"clause":..} for every rejected event and JUDGED {"n":..} at the end; its
    POSTCONDITION requires that every event was judged.  Returns (verdicts, judged, TlcResult)."""
    os.makedirs(workdir, exist_ok=True)
    dst = os.path.join(workdir, "trace.ndjson")
    if os.path.abspath(trace_path) != os.path.abspath(dst):
        shutil.copy(trace_path, dst)
    n = sum(1 for l in open(dst) if l.strip())
    if n == 0:
        raise Inconclusive("empty trace for " + module)
    r = tlc(workdir, module, cfg=cfg or (module + ".cfg"), workers=1, timeout=timeout, xmx=xmx,
            copy=extra_files)
    verdicts = r.tagged("VERDICT")
    judged = r.tagged("JUDGED")
    nj = judged[-1]["n"] if judged else -1
    if r.rc != 0 or not r.ok or nj != n:
        raise Inconclusive("trace judge %s did not judge every event (rc=%d, judged=%s of %d):\n%s" % (
            module, r.rc, nj, n, "\n".join(r.lines[-40:])))
    return verdicts, nj, r


# ------------------------------------------------------------------------------------------
# known findings
# ------------------------------------------------------------------------------------------
def load_known(pid):
    p = os.path.join(VERIF, "known_findings.json")
    if not os.path.exists(p):
        return []
    data = json.load(open(p))
    return [k for k in data.get("findings", []) if k.get("property") == pid and k.get("status") == "open"]


def match_known(known, verdict_event):
    """verdict_event: dict with at least 'clause' plus the judged event's fields under 'event'.
    A finding matches when every key of its 'match' equals the corresponding field (looked up in
    the verdict first, then in the event)."""
    for k in known:
        ok = True
        for key, val in k.get("match", {}).items():
            ev = verdict_event.get("event", {})
            got = verdict_event.get(key, ev.get(key, ev.get("c", {}).get(key, None) if isinstance(ev.get("c"), dict) else None))
            if isinstance(val, dict) and "in" in val:
                if got not in val["in"]:
                    ok = False
                    break
            elif isinstance(val, dict) and "ge" in val:
                if not (isinstance(got, (int, float)) and got >= val["ge"]):
                    ok = False
                    break
            elif got != val:
                ok = False
                break
        if ok:
            return k
    return None


# ------------------------------------------------------------------------------------------
# evidence, replays, exit
# ------------------------------------------------------------------------------------------
def write_replay(pid, name, payload):
    d = os.environ.get("VERIF_REPLAY_DIR") or os.path.join(VERIF, "replays")
    os.makedirs(d, exist_ok=True)
    h = hashlib.sha1(json.dumps(payload, sort_keys=True, default=str).encode()).hexdigest()[:10]
    p = os.path.join(d, "%s-%s-%s.json" % (pid, name, h))
    with open(p, "w") as f:
        json.dump(payload, f, indent=1, default=str)
    return p


def write_evidence(pid, tier, coverage, wall, violations, assumptions, level="model_checking"):
    d = os.environ.get("VERIF_EVIDENCE_DIR") or os.path.join(VERIF, "evidence")
    os.makedirs(d, exist_ok=True)
    ev = {
        "property_id": pid,
        "tier": tier,
        "seed": seed(),
        "level": level,
        "coverage": coverage,
        "assumptions": assumptions,
        "wall_s": round(wall, 2),
        "violations": violations,
    }
    with open(os.path.join(d, pid + ".json"), "w") as f:
        json.dump(ev, f, indent=1, default=str)
    return ev


VOLATILE_KEYS = ("dir", "path", "wall", "ms", "root", "tmp", "pid", "rss_kb", "rss_growth_kb", "fatal_detail", "errtext", "panic_text", "stack")


def _strip_volatile(x, volatile):
    if isinstance(x, dict):
        return {k: _strip_volatile(v, volatile) for k, v in x.items() if k not in volatile}
    if isinstance(x, list):
        return [_strip_volatile(v, volatile) for v in x]
    return x


def event_key(e, volatile=VOLATILE_KEYS):
    """identity of an event for reproduction: everything except fields that legitimately differ between two runs
    (paths, times, pids, memory readings, and the text of crash dumps, which contains thread ids and addresses) -
    at any depth"""
    return json.dumps(_strip_volatile(e, volatile), sort_keys=True, default=str)


class Ctx:
    """One run of one check: accumulates coverage and produces the exit status."""

    def __init__(self, pid, tier, work, t0, selftest=False, replay=None):
        self.pid, self.tier, self.work, self.t0 = pid, tier, work, t0
        self.selftest, self.replay = selftest, replay
        self.thorough = tier == "thorough"
        self.states = 0
        self.transitions = 0
        self.tlc_cmds = []
        self.mc_runs = []
        self.events_judged = 0
        self.traces = 0
        self.samples = []
        self.extra = {}
        self._vh = None
        self._vhrace = None
        self._par = None
        self.seed = seed()

    # -- building -------------------------------------------------------------------------
    @property
    def vh(self):
        if self._vh is None:
            self._vh = build_harness(self.work)
        return self._vh

    @property
    def vhrace(self):
        if self._vhrace is None:
            self._vhrace = build_harness(self.work, race=True)
        return self._vhrace

    @property
    def par(self):
        if self._par is None:
            self._par = build_par(self.work)
        return self._par

    # -- TLC ------------------------------------------------------------------------------
    def mc(self, module, cfg, what, **kw):
        """Design-level model checking of the specification (never reads /repo)."""
        r = tlc(self.work.sub("mc-" + module + "-" + os.path.splitext(cfg)[0]), module, cfg, **kw)
        tlc_must_pass(r, what)
        self.states += r.states
        self.transitions += max(r.generated - 1, 0)
        self.tlc_cmds.append(r.cmd)
        self.mc_runs.append({"what": what, "module": module, "cfg": cfg, "distinct_states": r.states,
                             "states_generated": r.generated, "wall_s": round(r.wall, 1)})
        log("[%s] TLC %s: %d distinct states, %d generated, %.1fs" % (self.pid, what, r.states, r.generated, r.wall))
        return r

    def drive(self, args, out_name="trace.ndjson", timeout=3600, env_extra=None, race=False):
        out = self.work.path(out_name)
        a = list(args) + ["-out", out, "-tier", self.tier, "-seed", str(self.seed),
                          "-dir", self.work.sub("sandbox")]
        so, se, wall = run_vh(self.vhrace if race else self.vh, a, timeout=timeout, env_extra=env_extra)
        if se.strip():
            log(se.strip()[-2000:])
        log("[%s] driver %s: %.1fs" % (self.pid, args[0], wall))
        return out

    def judge(self, module, trace_path, parallel=1, **kw):
        if self.selftest and not getattr(self, "_in_selftest", False):
            self._run_selftest(module, trace_path, **kw)
        if parallel > 1:
            return self._judge_parallel(module, trace_path, parallel, **kw)
        self._jn = getattr(self, "_jn", 0) + 1
        verdicts, n, r = judge(self.work.sub("judge-%s-%d" % (module, self._jn)), module, trace_path, **kw)
        self.last_drift = len(r.tagged("DRIFT"))
        self.last_judge = r
        self.events_judged += n
        self.tlc_cmds.append(r.cmd)
        log("[%s] judge %s: %d events, %d verdicts, %.1fs" % (self.pid, module, n, len(verdicts), r.wall))
        return verdicts

    def _run_selftest(self, module, trace_path, **kw):
        """--selftest: corrupt one recorded field and require the trace spec to reject that event."""
        import selftest
        done = self.extra.setdefault("binding_selftest", [])
        if any(d["module"] == module for d in done):
            return
        events = read_ndjson(trace_path)
        self._in_selftest = True
        try:
            def jf(evs):
                self._stn = getattr(self, "_stn", 0) + 1
                p = self.work.path("selftest-%s-%d.ndjson" % (module, self._stn))
                write_ndjson(p, evs)
                vd, n, r = judge(self.work.sub("selftest-%s-%d" % (module, self._stn)), module, p, **{k: v for k, v in kw.items() if k in ("timeout", "xmx")})
                return vd
            res = selftest.run(self, module, events, jf)
        finally:
            self._in_selftest = False
        done.extend(res)
        bad = [r for r in res if r.get("rejected") is False]
        for r in res:
            log("[%s] selftest %s / %s: %s" % (self.pid, module, r["corruption"], "rejected" if r.get("rejected") else r.get("result", "NOT REJECTED")))
        if bad:
            raise Inconclusive("binding self-test failed: corrupted events were accepted: %s" % bad)

    def _judge_parallel(self, module, trace_path, k, **kw):
        """Round-robin split of the trace over k concurrent TLC judges (each event is judged on its
        own, so the split does not change any verdict); indices are mapped back."""
        import threading
        lines = [l for l in open(trace_path) if l.strip()]
        k = max(1, min(k, len(lines)))
        self._jn = getattr(self, "_jn", 0) + 1
        parts, results, errors = [], [None] * k, []
        for c in range(k):
            d = self.work.sub("judge-%s-%d-p%d" % (module, self._jn, c))
            pth = os.path.join(d, "part.ndjson")
            with open(pth, "w") as f:
                f.writelines(lines[c::k])
            parts.append((d, pth))

        def work(c):
            try:
                results[c] = judge(parts[c][0], module, parts[c][1], **kw)
            except Exception as e:      # noqa
                errors.append(e)
        ths = [threading.Thread(target=work, args=(c,)) for c in range(k)]
        t0 = time.time()
        for t in ths:
            t.start()
        for t in ths:
            t.join()
        if errors:
            raise errors[0] if isinstance(errors[0], Inconclusive) else Inconclusive(str(errors[0]))
        verdicts, total, drift = [], 0, 0
        for c, (vd, n, r) in enumerate(results):
            total += n
            drift += len(r.tagged("DRIFT"))
            for v in vd:
                v = dict(v)
                v["i"] = (v["i"] - 1) * k + c + 1
                verdicts.append(v)
            self.tlc_cmds.append(r.cmd)
        verdicts.sort(key=lambda v: v["i"])
        self.last_drift = drift
        self.events_judged += total
        log("[%s] judge %s x%d: %d events, %d verdicts, %.1fs" % (self.pid, module, k, total, len(verdicts), time.time() - t0))
        return verdicts

    # -- verdicts -------------------------------------------------------------------------
    def finish(self, verdicts, events, rule, assumptions, distinct=None, rerun=None,
               traces=None, exhaustive=False):
        """verdicts: [{"i": 1-based index into events, "clause": ...}].  New verdicts (not in
        known_findings.json) are reproduced by rerun() -> (events, verdicts) in fresh processes
        before being reported."""
        pid = self.pid
        known = load_known(pid)
        new, knownhits = [], {}
        for v in verdicts:
            ve = dict(v)
            if events is not None and isinstance(v.get("i"), int) and 1 <= v["i"] <= len(events):
                ve["event"] = events[v["i"] - 1]
            k = match_known(known, ve)
            if k:
                knownhits.setdefault(k["id"], [k, 0])
                knownhits[k["id"]][1] += 1
            else:
                new.append(ve)
        for kid, (k, cnt) in sorted(knownhits.items()):
            print("KNOWN-FINDING: property=%s %s [%s: %d event(s)]" % (pid, k["what"], kid, cnt))
        if os.environ.get("VERIF_DETERMINISM") and rerun is not None and events is not None:
            # machinery self-test: a complete second run must record the same events (else a rare verdict
            # could never be reproduced and would end as 'inconclusive')
            ev2, _ = rerun()
            k1, k2 = [event_key(e) for e in events], [event_key(e) for e in ev2]
            s1, s2 = set(k1), set(k2)
            log("DETERMINISM property=%s events=%d/%d only_first=%d only_second=%d" % (pid, len(k1), len(k2), len(s1 - s2), len(s2 - s1)))
            for k in list(s1 - s2)[:3]:
                log("  only in first run: " + k[:600])
            for k in list(s2 - s1)[:3]:
                log("  only in second run: " + k[:600])
        unreproduced = 0
        confirmed = new
        if new and rerun is not None:
            try:
                ev2, vd2 = rerun()
                keys2 = set()
                for v in vd2:
                    if isinstance(v.get("i"), int) and 1 <= v["i"] <= len(ev2):
                        keys2.add((v.get("clause"), event_key(ev2[v["i"] - 1])))
                confirmed = [ve for ve in new if (ve.get("clause"), event_key(ve.get("event"))) in keys2]
                unreproduced = len(new) - len(confirmed)
                for ve in new:
                    if (ve.get("clause"), event_key(ve.get("event"))) not in keys2:
                        log("  not reproduced: %s  %s" % (ve.get("clause"), json.dumps(ve.get("event", {}), default=str)[:500]))
            except Inconclusive as e:
                log("reproduction run inconclusive:", e)
                confirmed, unreproduced = [], len(new)
        rc = 0
        per_clause = {}
        for ve in confirmed:
            c = ve.get("clause")
            per_clause[c] = per_clause.get(c, 0) + 1
            if per_clause[c] > 3:
                continue
            payload = dict(ve)
            payload.update({"property": pid, "seed": self.seed, "tier": self.tier})
            path = write_replay(pid, str(c).replace("/", "_").replace(".", "_"), payload)
            print("VIOLATION property=%s replay=%s" % (pid, path))
            log("  clause: %s   event: %s" % (c, json.dumps(ve.get("event", {}), default=str)[:600]))
            rc = 1
        for c, n in per_clause.items():
            if n > 3:
                log("  (%d further events rejected by clause %s)" % (n - 3, c))
        if self.replay:
            print("REPLAY property=%s reproduced=%s" % (pid, "yes" if rc == 1 else "no"))
        if distinct is None:
            distinct = len(set(event_key(e) for e in events)) if events is not None else 0
        cov = {
            "states": self.states,
            "transitions": self.transitions,
            "traces_validated_against_impl": traces if traces is not None else (len(events) if events is not None else 0),
            "samples": self.samples[:8] if self.samples else ([events[0], events[len(events) // 2], events[-1]] if events else []),
            "evaluations": len(events) if events is not None else 0,
            "distinct_nontrivial": distinct,
            "rule": rule,
            "events_judged_by_tlc": self.events_judged,
            "exhaustive": exhaustive,
            "design_level_runs": self.mc_runs,
            "tlc_cmds": self.tlc_cmds,
            "known_finding_events": sum(c for _, c in knownhits.values()),
            "known_findings_hit": sorted(knownhits.keys()),
            "new_verdicts": len(new),
            "unreproduced_verdicts": unreproduced,
            "trusted_base": ["TLC/SANY", "CommunityModules Java overrides (Json, Bitwise, Functions)",
                             "harness observers (independent of gopar)", "Go standard library"],
        }
        cov.update(self.extra)
        # shorten long samples
        cov["samples"] = [json.loads(json.dumps(x, default=str)[:100000]) if len(json.dumps(x, default=str)) < 100000
                          else {"truncated": json.dumps(x, default=str)[:2000]} for x in cov["samples"]]
        write_evidence(pid, self.tier, cov, time.time() - self.t0, len(confirmed), assumptions)
        if rc == 0 and unreproduced:
            log("%d verdict(s) did not reproduce: inconclusive" % unreproduced)
            rc = 2
        return rc
